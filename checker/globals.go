// Engine `tables` helpers: constant values of package-level objects and who-may-write for package-level variables.
package main

import (
	"fmt"
	"go/ast"
	"go/constant"
	"go/token"
	"go/types"
	"strings"

	"golang.org/x/tools/go/ssa"
)

// GlobalValue returns the compile-time value a package-level const or var is initialised with.
// Supported initialisers: constant expressions; big.NewInt(<const>); new(big.Int).SetUint64(<const>) is not used in the tree.
func (c *Ctx) GlobalValue(spec string) (constant.Value, string) {
	obj := c.Global(spec)
	if k, ok := obj.(*types.Const); ok {
		return k.Val(), "const"
	}
	i := strings.Index(spec, ":")
	p := c.Pkg(spec[:i])
	for _, f := range p.Syntax {
		for _, d := range f.Decls {
			gd, ok := d.(*ast.GenDecl)
			if !ok || gd.Tok != token.VAR {
				continue
			}
			for _, s := range gd.Specs {
				vs := s.(*ast.ValueSpec)
				for k, n := range vs.Names {
					if p.TypesInfo.Defs[n] != obj {
						continue
					}
					if k >= len(vs.Values) {
						return nil, "no initialiser"
					}
					return c.constOfExpr(p.TypesInfo, vs.Values[k])
				}
			}
		}
	}
	return nil, "declaration not found"
}

func (c *Ctx) constOfExpr(info *types.Info, e ast.Expr) (constant.Value, string) {
	e = ast.Unparen(e)
	if tv, ok := info.Types[e]; ok && tv.Value != nil {
		return tv.Value, "constant expression"
	}
	if call, ok := e.(*ast.CallExpr); ok && len(call.Args) == 1 {
		if sel, ok := call.Fun.(*ast.SelectorExpr); ok {
			if fn, ok := info.Uses[sel.Sel].(*types.Func); ok && fn.Pkg() != nil {
				full := fn.Pkg().Path() + "." + fn.Name()
				if full == "math/big.NewInt" {
					if tv, ok := info.Types[call.Args[0]]; ok && tv.Value != nil {
						return constant.ToInt(tv.Value), "big.NewInt(const)"
					}
				}
			}
		}
		// type conversion of a constant, e.g. HeaderVersion(2)
		if tv, ok := info.Types[call.Fun]; ok && tv.IsType() {
			return c.constOfExpr(info, call.Args[0])
		}
	}
	return nil, "not a recognised constant initialiser: " + types.ExprString(e)
}

// ConstIs records an obligation that the package-level object has exactly the expected integer value.
func (c *Ctx) ConstIs(rule, spec, want string) {
	v, how := c.GlobalValue(spec)
	pos := c.Position(c.Global(spec).Pos())
	if v == nil {
		c.Ob(rule, spec+" == "+want, pos, false, how)
		return
	}
	got := v.ExactString()
	if v.Kind() == constant.Float {
		if iv := constant.ToInt(v); iv.Kind() == constant.Int {
			got = iv.ExactString()
		}
	}
	c.Ob(rule, spec+" == "+want, pos, got == want, fmt.Sprintf("value %s (%s)", got, how))
}

type globalUse struct {
	fn  *ssa.Function
	ins ssa.Instruction
}

var globalIndex map[types.Object][]globalUse

func (c *Ctx) globalUses(obj types.Object) []globalUse {
	if globalIndex == nil {
		globalIndex = map[types.Object][]globalUse{}
		for _, fn := range c.SrcFns {
			for _, b := range fn.Blocks {
				for _, ins := range b.Instrs {
					for _, op := range ins.Operands(nil) {
						if g, ok := (*op).(*ssa.Global); ok && g.Object() != nil {
							globalIndex[g.Object()] = append(globalIndex[g.Object()], globalUse{fn, ins})
						}
					}
				}
			}
		}
	}
	return globalIndex[obj]
}

// GlobalWrites lists the instructions outside package initialisers that store to the package-level variable.
func (c *Ctx) GlobalWrites(spec string) []ssa.Instruction {
	obj := c.Global(spec)
	var out []ssa.Instruction
	for _, u := range c.globalUses(obj) {
		if u.fn.Name() == "init" && u.fn.Synthetic != "" {
			continue
		}
		if st, ok := u.ins.(*ssa.Store); ok {
			if g, ok := st.Addr.(*ssa.Global); ok && g.Object() == obj {
				out = append(out, u.ins)
			}
		}
	}
	return out
}

// GlobalNeverReassigned: obligation that nobody outside the initialiser assigns the variable, nor takes its address.
func (c *Ctx) GlobalNeverReassigned(rule, spec string) {
	obj := c.Global(spec)
	pos := c.Position(obj.Pos())
	ws := c.GlobalWrites(spec)
	if len(ws) > 0 {
		c.Ob(rule, spec+" is assigned only by its initialiser", c.Position(ws[0].Pos()), false,
			fmt.Sprintf("assigned in %s", shortFn(ws[0].Parent())))
		return
	}
	for _, u := range c.globalUses(obj) {
		if u.fn.Name() == "init" && u.fn.Synthetic != "" {
			continue
		}
		switch u.ins.(type) {
		case *ssa.UnOp, *ssa.DebugRef:
			continue // load
		}
		c.Ob(rule, spec+" is assigned only by its initialiser", c.Position(u.ins.Pos()), false,
			fmt.Sprintf("address of the variable escapes in %s (%s)", shortFn(u.fn), u.ins.String()))
		return
	}
	c.Ob(rule, spec+" is assigned only by its initialiser", pos, true, "no store and no address-taking outside the package initialiser in the loaded module")
}

// varInitExpr returns the initialiser expression of a package-level variable and its package.
func (c *Ctx) varInitExpr(pkg, name string) (ast.Expr, *types.Info) {
	p := c.Pkg(pkg)
	obj := p.Types.Scope().Lookup(name)
	for _, f := range p.Syntax {
		for _, d := range f.Decls {
			gd, ok := d.(*ast.GenDecl)
			if !ok || gd.Tok != token.VAR {
				continue
			}
			for _, s := range gd.Specs {
				vs := s.(*ast.ValueSpec)
				for k, n := range vs.Names {
					if p.TypesInfo.Defs[n] == obj && k < len(vs.Values) {
						return vs.Values[k], p.TypesInfo
					}
				}
			}
		}
	}
	return nil, p.TypesInfo
}

// mapLiteralKeys: the key expressions (as source text) of a package-level map variable's composite literal.
func mapLiteralKeys(c *Ctx, pkg, name string) map[string]bool {
	e, _ := c.varInitExpr(pkg, name)
	out := map[string]bool{}
	cl, ok := e.(*ast.CompositeLit)
	if !ok {
		return out
	}
	for _, el := range cl.Elts {
		if kv, ok := el.(*ast.KeyValueExpr); ok {
			out[types.ExprString(kv.Key)] = true
		}
	}
	return out
}

// compositeFieldInts: integer-valued fields of a package-level struct variable's composite literal.
func compositeFieldInts(c *Ctx, pkg, name string) map[string]int64 {
	e, info := c.varInitExpr(pkg, name)
	out := map[string]int64{}
	cl, ok := e.(*ast.CompositeLit)
	if !ok {
		return out
	}
	for _, el := range cl.Elts {
		kv, ok := el.(*ast.KeyValueExpr)
		if !ok {
			continue
		}
		if v, ok := astConstInt(info, kv.Value); ok {
			out[types.ExprString(kv.Key)] = v
		}
	}
	return out
}
