package main

import (
	"fmt"
	"sort"
	"strings"

	"golang.org/x/tools/go/ssa"
)

// C04 The chain database survives a crash at any write boundary.

func init() { register("C04", []string{"./..."}, runC04) }

func runC04(c *Ctx) {
	c.Explanation = "Ordering, pairing and guard rules over go/ssa and the call graph for the database write paths: (R1) in every function that stores a block/header and then names it through a head pointer or canonical number, each call that can reach a pointer write is preceded on all paths by the successful data write and, when the data went into a batch, by the successful flush of that batch; (R2) trie.Database.commit writes a node only after its children loop has completed and uncaches only after the flush succeeded; (R3) every lock in trie/core/core-state/aquadb is released on every exit including failed writes; (R4) no Batch.Write result is discarded; (R5) shutdown flushes the three recent states before draining the GC queue; (R6) loadLastState handles empty head, missing block and missing state; (R7) the head markers are initialised before any recovery path can read them. These are the structural necessary conditions of crash consistency on every path; consistency of every individual write prefix and leveldb durability are not decided."
	c.NotDecided = []string{"consistency of every write prefix (crash-point enumeration is an exploration technique)", "leveldb's own durability/atomicity of batches", "convergence after re-feeding blocks"}
	c.Assumptions = []string{"a Batch is flushed atomically by Write(); direct Put is durable when it returns", "log.Crit terminates the process"}

	g := c.CG()
	ptrPrims := []*ssa.Function{c.Fn("core:WriteHeadBlockHash"), c.Fn("core:WriteCanonicalHash"), c.Fn("core:WriteHeadHeaderHash"), c.Fn("core:WriteHeadFastBlockHash")}
	isPrim := map[*ssa.Function]bool{}
	for _, p := range ptrPrims {
		isPrim[p] = true
	}
	// functions that can reach a pointer primitive (synchronously)
	reachesPtr := map[*ssa.Function]bool{}
	{
		// reverse reachability
		var queue []*ssa.Function
		for _, p := range ptrPrims {
			reachesPtr[p] = true
			queue = append(queue, p)
		}
		for len(queue) > 0 {
			f := queue[0]
			queue = queue[1:]
			for _, caller := range g.in[f] {
				if !reachesPtr[caller] {
					// only through real call edges
					real := false
					for _, e := range g.out[caller] {
						if e.callee == f && !e.isRef && !e.isGo {
							real = true
						}
					}
					if real {
						reachesPtr[caller] = true
						queue = append(queue, caller)
					}
				}
			}
		}
	}

	// pointerSites: call instructions in fn whose (static or resolved) callee can reach a pointer write.
	pointerSites := func(fn *ssa.Function) []ssa.CallInstruction {
		var out []ssa.CallInstruction
		for _, e := range g.out[fn] {
			if e.site == nil || e.isGo {
				continue
			}
			if _, isDefer := e.site.(*ssa.Defer); isDefer {
				continue
			}
			if reachesPtr[e.callee] && e.callee != fn {
				dup := false
				for _, o := range out {
					if o == e.site {
						dup = true
					}
				}
				if !dup {
					out = append(out, e.site)
				}
			}
		}
		sort.Slice(out, func(i, j int) bool { return out[i].Pos() < out[j].Pos() })
		return out
	}
	dataBeforePointer := func(fn *ssa.Function, minSites int, reqs []LitReq) {
		f := c.Facts(fn)
		sites := pointerSites(fn)
		if len(sites) < minSites {
			c.Ob("C04-R1", shortFn(fn)+": calls that can move a head pointer", c.FnPos(fn), false, fmt.Sprintf("found %d, expected at least %d", len(sites), minSites))
			return
		}
		for _, s := range sites {
			states := f.At(s)
			for _, r := range reqs {
				ok, w, failing, exempt := r.check(states)
				d := fmt.Sprintf("%d path states, %d exempt; e.g. %s", len(states), exempt, w)
				if !ok && failing != nil {
					d = "a path reaches this pointer-moving call without /" + r.Re + "/; literals: " + strings.Join(failing.Lits(), "; ")
					if len(d) > 1500 {
						d = d[:1500] + "…"
					}
				}
				c.Ob("C04-R1", fmt.Sprintf("%s: before %s: %s", shortFn(fn), calleeName(s.Common()), r.Name), c.Position(s.Pos()), ok, d)
			}
		}
	}

	c.Rule("C04-R1", "data (and the flush of the batch holding it) before every call that can write a head pointer / canonical number", func() {
		batch := `BlockChain#0\.db\.NewBatch\(\)`
		wbs := c.Fn("core:(*BlockChain).WriteBlockWithState")
		dataBeforePointer(wbs, 2, []LitReq{
			{Name: "total difficulty stored", Re: `^BlockChain#0\.hc\.WriteTd\(Block#0\.Hash\(\), Block#0\.NumberU64\(\), .*\) == nil$`},
			{Name: "block written into the batch", Re: `^core\.WriteBlock\(` + batch + `, Block#0\) == nil$`},
			{Name: "state committed to the trie database", Re: `^StateDB#0\.Commit\(.*\)#1 == nil$`},
			{Name: "receipts written into the batch", Re: `^core\.WriteBlockReceipts\(` + batch + `, .*\) == nil$`},
			{Name: "batch flushed successfully", Re: `^` + batch + `\.Write\(\) == nil$`},
			{Name: "archive mode: trie flushed to disk", Unless: `^!BlockChain#0\.cacheConfig\.Disabled$`, Re: `^BlockChain#0\.stateCache\.TrieDB\(\)\.Commit\(StateDB#0\.Commit\(.*\)#0, false\) == nil$`},
		})
		c.AllDominatedBy("C04-R1", wbs, `^core\.WriteBlock$`, `^Batch\.Write$`, 1, "block is in the batch before the batch is flushed")
		c.AllDominatedBy("C04-R1", wbs, `^core\.WriteBlockReceipts$`, `^Batch\.Write$`, 1, "receipts are in the batch before the batch is flushed")

		wh := c.Fn("core:(*HeaderChain).WriteHeader")
		dataBeforePointer(wh, 2, []LitReq{
			{Name: "total difficulty stored", Re: `^called:HeaderChain#0\.WriteTd\(Header#0\.Hash\(\), Header#0\.Number\.Uint64\(\), .*\)$`},
			{Name: "header stored", Re: `^called:core\.WriteHeader\(HeaderChain#0\.chainDb, Header#0\)$`},
		})
		rg := c.Fn("core:(*BlockChain).ResetWithGenesisBlock")
		// the insert of the genesis block specifically
		{
			f := c.Facts(rg)
			for _, s := range callSites(rg, `^BlockChain\.insert$`) {
				ok, w := allHave(f.At(s), mustRe(`^called:core\.WriteBlock\(BlockChain#0\.db, Block#0\)$`))
				c.Ob("C04-R1", "ResetWithGenesisBlock: genesis block stored before it becomes head", c.Position(s.Pos()), ok, w)
			}
		}
		gc := c.Fn("core:(*Genesis).Commit")
		dataBeforePointer(gc, 3, []LitReq{
			{Name: "genesis TD stored", Re: `^core\.WriteTd\(Database#0, .*\) == nil$`},
			{Name: "genesis block stored", Re: `^core\.WriteBlock\(Database#0, .*\) == nil$`},
		})
		irc := c.Fn("core:(*BlockChain).InsertReceiptChain")
		dataBeforePointer(irc, 1, []LitReq{
			{Name: "bodies/receipts batch flushed (or empty)", Re: `^(` + batch + `\.Write\(\) == nil|` + batch + `\.ValueSize\(\) <= 0)$`},
		})
		// closed set: which functions of package core write pointers directly
		var direct []string
		for _, fn := range c.SrcFns {
			if fn.Pkg == nil || !strings.HasPrefix(fn.Pkg.Pkg.Path(), modPath) {
				continue
			}
			for _, e := range g.out[fn] {
				if isPrim[e.callee] && e.site != nil {
					direct = append(direct, shortFn(fn))
					break
				}
			}
		}
		sort.Strings(direct)
		c.Extra["functions_writing_head_pointers_directly"] = direct
		allowed := map[string]bool{"(*core.BlockChain).insert": true, "(*core.BlockChain).SetHead": true, "(*core.BlockChain).InsertReceiptChain": true,
			"(*core.BlockChain).Rollback": true, "(*core.HeaderChain).WriteHeader": true, "(*core.HeaderChain).SetHead": true, "(*core.Genesis).Commit": true,
			"(*core.HeaderChain).SetCurrentHeader": true, "(*core.BlockChain).Rollback$1": true,
			"core.SetupGenesisBlock": true /* start-up workaround: re-points the head at the highest canonical hash already on disk */}
		for _, d := range direct {
			if strings.HasPrefix(d, "cmd/") || strings.Contains(d, "_test") {
				continue
			}
			c.Ob("C04-R1", "direct head-pointer writer "+d+" is one of the reviewed writers", "", allowed[d], "reviewed set: "+strings.Join(keysOf(allowed), ", "))
		}
	})
	c.Min("C04-R1", 22)

	c.Rule("C04-R2", "trie nodes are written children-first; the memory cache is dropped only after a successful flush", func() {
		cm := c.Fn("trie:(*Database).commit")
		c.MustBefore("C04-R2", cm, `^Batch\.Put$`, 1, []LitReq{
			{Name: "the children loop has run to completion before the node itself is put", Re: `^!next\(range\(Database#0\.nodes\[.*\]#0\.children\)\)#0$`},
		})
		c.MustLoopBack("C04-R2", cm, `^Database\.commit$`, []LitReq{
			{Name: "a failing child commit aborts the parent", Re: `^Database#0\.commit\(next\(range\(.*\.children\)\)#1, Batch#0\) == nil$`},
		})
		c.MustOnAccept("C04-R2", cm, -1, false, []LitReq{
			{Name: "node put succeeded (or node already on disk)", Re: `^(Batch#0\.Put\(.*\) == nil|!Database#0\.nodes\[.*\]#1)$`},
			{Name: "mid-way flush succeeded when triggered", Unless: `^(Batch#0\.ValueSize\(\) < 102400|!Database#0\.nodes\[.*\]#1)$`, Re: `^Batch#0\.Write\(\) == nil$`},
		})
		// no other put of trie nodes inside the recursive commit: exactly one Put site, after which only Write/Reset/ValueSize
		c.Ob("C04-R2", "commit has a single Put site", c.FnPos(cm), len(callSites(cm, `^Batch\.Put$`)) == 1, "")
		cc := c.Fn("trie:(*Database).Commit")
		c.MustBefore("C04-R2", cc, `^Database\.uncache$`, 1, []LitReq{
			{Name: "uncache only after the trie batch was flushed successfully", Re: `^Database#0\.diskdb\.NewBatch\(\)\.Write\(\) == nil$`},
			{Name: "uncache only after commit of the root succeeded", Re: `^Database#0\.commit\(.*\) == nil$`},
		})
		c.AllDominatedBy("C04-R2", cc, `^Database\.commit$`, `^Database\.uncache$`, 1, "nodes are batched before being uncached")
		// newly set contract code is handed to the trie database unconditionally (a "known already" shortcut would trust a
		// cache that outlives garbage collection of the blob)
		cmtFn := c.Fn("core/state:(*StateDB).Commit")
		fcm := c.Facts(cmtFn)
		var dirtyCode []*pstate
		for _, b := range cmtFn.Blocks {
			for _, ins := range b.Instrs {
				if stI, ok := ins.(*ssa.Store); ok {
					if fa, ok := stI.Addr.(*ssa.FieldAddr); ok && fieldName(fa) == "dirtyCode" {
						dirtyCode = append(dirtyCode, fcm.At(stI)...)
					}
				}
			}
		}
		c.mustStates("C04-R2", cmtFn, "clearing of dirtyCode", dirtyCode, []LitReq{
			{Name: "StateDB.Commit inserts dirty contract code into the trie database before it clears the dirty flag", Re: `^called:StateDB#0\.db\.TrieDB\(\)\.Insert\(common\.BytesToHash\(.*\.CodeHash\(\)\), .*\.code\)$`},
		})
		if len(dirtyCode) == 0 {
			c.Ob("C04-R2", "StateDB.Commit clears dirtyCode", c.FnPos(cmtFn), false, "")
		}
		// the account trie's leaves link their storage trie and their code blob, so that committing the state root
		// writes them too: an unlinked blob stays in memory and is lost on restart
		var leaf *ssa.Function
		for _, a := range c.Fn("core/state:(*StateDB).Commit").AnonFuncs {
			if len(callSites(a, `^Database\.Reference$`)) > 0 {
				leaf = a
			}
		}
		if leaf == nil {
			c.Ob("C04-R2", "StateDB.Commit's leaf callback found", "", false, "")
		} else {
			fl := c.Facts(leaf)
			var st []*pstate
			for _, r := range fl.AllReturns() {
				st = append(st, r.State)
			}
			undec := `rlp\.DecodeBytes\(\[\]byte#0, new\(Account\)\) != nil`
			c.mustStates("C04-R2", leaf, "return", st, []LitReq{
				{Name: "every account leaf with non-empty code references its code blob from the leaf's parent", Unless: `^(` + undec + `|common\.BytesToHash\(new\(Account\)\.CodeHash\) == state\.emptyCode)$`,
					Re: `^called:.*\.TrieDB\(\)\.Reference\(common\.BytesToHash\(new\(Account\)\.CodeHash\), Hash#0\)$`},
				{Name: "every account leaf with a storage trie references its storage root from the leaf's parent", Unless: `^(` + undec + `|new\(Account\)\.Root == state\.emptyState)$`,
					Re: `^called:.*\.TrieDB\(\)\.Reference\(new\(Account\)\.Root, Hash#0\)$`},
			})
		}
	})
	c.Min("C04-R2", 10)

	c.Rule("C04-R3", "no lock survives a failed write: every Lock/RLock in trie, core, core/state, aquadb is released on every non-panic exit", func() {
		f, o := c.LockPairingRule("C04-R3", []string{"trie", "core", "core/state", "aquadb", "core/types", "core/bloombits"}, nil, nil)
		c.Extra["functions_with_lock_ops"] = f
		c.Extra["lock_operations"] = o
	})
	c.Min("C04-R3", 60)

	c.Rule("C04-R4", "no result of Batch.Write is discarded on the import/commit/shutdown paths", func() {
		n := 0
		for _, fn := range c.SrcFns {
			if fn.Pkg == nil {
				continue
			}
			pp := relPkg(fn.Pkg.Pkg.Path())
			if pp != "core" && pp != "trie" && pp != "core/state" && pp != "aqua/downloader" && pp != "aqua" {
				continue
			}
			for _, cs := range callSites(fn, `^Batch\.Write$`) {
				n++
				v, isVal := cs.(*ssa.Call)
				used := false
				if isVal && v.Referrers() != nil {
					for _, r := range *v.Referrers() {
						if _, dbg := r.(*ssa.DebugRef); !dbg {
							used = true
						}
					}
				}
				c.Ob("C04-R4", shortFn(fn)+": Batch.Write result is examined", c.Position(cs.Pos()), used, "")
			}
		}
		c.Extra["batch_write_sites"] = n
	})
	c.Min("C04-R4", 8)

	c.Rule("C04-R5", "shutdown flushes the recent states (offsets 0, 1, 127) before the trie GC queue is drained", func() {
		st := c.Fn("core:(*BlockChain).Stop")
		c.MustBefore("C04-R5", st, `^Database\.Dereference$`, 1, []LitReq{
			{Name: "the flush loop over offsets {0,1,triesInMemory-1} has completed", Re: `^\(phi:rangeindex \+ 1\) >= len\(\[0, 1, 127\]\)$`},
			{Name: "only on pruning nodes", Re: `^!BlockChain#0\.cacheConfig\.Disabled$`},
		})
		c.MustLoopBack("C04-R5", st, `^Database\.Commit$`, []LitReq{
			{Name: "each reachable offset is committed with its block's root", Unless: `^BlockChain#0\.CurrentBlock\(\)\.NumberU64\(\) <= \[0, 1, 127\]\[\(phi:rangeindex \+ 1\)\]$`,
				Re: `^called:BlockChain#0\.stateCache\.TrieDB\(\)\.Commit\(BlockChain#0\.GetBlockByNumber\(\(BlockChain#0\.CurrentBlock\(\)\.NumberU64\(\) - \[0, 1, 127\]\[\(phi:rangeindex \+ 1\)\]\)\)\.Root\(\), true\)$`},
		})
		c.AllDominatedBy("C04-R5", st, `^WaitGroup\.Wait$`, `^Database\.Commit$`, 1, "in-flight imports have finished (wg.Wait) before the final flush")
		c.ConstIs("C04-R5", "core:triesInMemory", "128")
	})
	c.Min("C04-R5", 5)

	c.Rule("C04-R6", "recovery guards in loadLastState / repair", func() {
		ll := c.Fn("core:(*BlockChain).loadLastState")
		f := c.Facts(ll)
		// classify every return by result term
		seenReset, seenRepair := 0, 0
		for _, rs := range f.AllReturns() {
			res := f.tr.term(rs.State, rs.Ret.Results[0], 0)
			switch {
			case res == "BlockChain#0.Reset()":
				seenReset++
				_, a := hasLit(rs.State, mustRe(`^core\.GetHeadBlockHash\(BlockChain#0\.db\) == zero\(Hash\)$`))
				_, b := hasLit(rs.State, mustRe(`^new\(Block\) == nil$`))
				c.Ob("C04-R6", "loadLastState resets only for an empty head hash or a missing head block", c.Position(rs.Ret.Pos()), a || b, strings.Join(guardLits(rs.State), "; "))
			case strings.HasPrefix(res, "BlockChain#0.repair("):
				seenRepair++
			}
		}
		c.Ob("C04-R6", "both reset cases exist (empty head hash, head block missing)", c.FnPos(ll), seenReset == 2, fmt.Sprintf("%d reset returns", seenReset))
		c.MustOnAccept("C04-R6", ll, -1, false, []LitReq{
			{Name: "head hash present", Unless: `^BlockChain#0\.Reset\(\) == nil$`, Re: `^core\.GetHeadBlockHash\(BlockChain#0\.db\) != zero\(Hash\)$`},
			{Name: "head block present", Unless: `^BlockChain#0\.Reset\(\) == nil$`, Re: `^new\(Block\) != nil$`},
			{Name: "head state present or repaired", Unless: `^BlockChain#0\.Reset\(\) == nil$`, Re: `^(state\.New\(new\(Block\)\.Root\(\), BlockChain#0\.stateCache\)#1 == nil|BlockChain#0\.repair\(new\(Block\)\) == nil)$`},
			{Name: "current block stored", Unless: `^BlockChain#0\.Reset\(\) == nil$`, Re: `^called:BlockChain#0\.currentBlock\.Store\(new\(Block\)\)$`},
		})
		// re-feeding blocks after a crash or rollback: an already stored block may be skipped only if the head is not
		// below it, otherwise the head would never advance onto it again
		ic := c.Fn("core:(*BlockChain).insertChain2")
		fi := c.Facts(ic)
		var skipped []*pstate
		for _, s := range fi.LoopBackStates(`^BlockChain\.WriteBlockWithState$`) {
			_, known := hasLit(s, mustRe(`== core\.ErrKnownBlock$`))
			if known && !s.lits["call:BlockChain.WriteBlockWithState"] {
				skipped = append(skipped, s)
			}
		}
		c.mustStates("C04-R6", ic, "loop continuation that skips a known block", skipped, []LitReq{
			{Name: "a known block is skipped only if the current head is at or above its height", Re: `^BlockChain#0\.CurrentBlock\(\)\.NumberU64\(\) >= Blocks#0\[.*\]\.NumberU64\(\)$`},
		})
		if len(skipped) == 0 {
			c.Ob("C04-R6", "insertChain2 has the known-block skip path", c.FnPos(ic), false, "no loop continuation under ErrKnownBlock found")
		}
		rp := c.Fn("core:(*BlockChain).repair")
		c.MustOnAccept("C04-R6", rp, -1, false, []LitReq{
			{Name: "repair returns only once a block with available state is found", Re: `^state\.New\(.*\.Root\(\), BlockChain#0\.stateCache\)#1 == nil$`},
		})
	})
	c.Min("C04-R6", 8)

	c.Rule("C04-R7", "head markers (atomic.Value) are stored before any constructor-reachable code can read them with an unchecked type assertion", func() {
		nb := c.Fn("core:NewBlockChain")
		f := c.Facts(nb)
		for _, s := range callSites(nb, `^BlockChain\.(loadLastState|SetHead|Reset|ResetWithGenesisBlock)$`) {
			for _, fld := range []string{"currentBlock", "currentFastBlock"} {
				ok, w := allHave(f.At(s), mustRe(`^called:new\(BlockChain\)(~\d+)?\.`+fld+`\.Store\(`))
				c.Ob("C04-R7", fmt.Sprintf("NewBlockChain: %s initialised before %s", fld, calleeName(s.Common())), c.Position(s.Pos()), ok, w)
			}
		}
		nh := c.Fn("core:NewHeaderChain")
		fh := c.Facts(nh)
		var acc []*pstate
		for _, rs := range fh.AcceptingReturns(-1, false) {
			acc = append(acc, rs.State)
		}
		c.mustStates("C04-R7", nh, "accepting return", acc, []LitReq{
			{Name: "currentHeader stored before the header chain is handed out", Re: `^called:new\(HeaderChain\)(~\d+)?\.currentHeader\.Store\(`},
		})
		// unchecked assertions on the three markers exist only in the accessor functions
		for _, fn := range c.SrcFns {
			if fn.Pkg == nil || relPkg(fn.Pkg.Pkg.Path()) != "core" {
				continue
			}
			for _, b := range fn.Blocks {
				for _, ins := range b.Instrs {
					ta, ok := ins.(*ssa.TypeAssert)
					if !ok || ta.CommaOk {
						continue
					}
					call, ok := ta.X.(*ssa.Call)
					if !ok || calleeName(&call.Call) != "Value.Load" {
						continue
					}
					t := c.termOf(fn, call.Call.Args[0])
					if !strings.HasSuffix(t, ".currentBlock") && !strings.HasSuffix(t, ".currentFastBlock") && !strings.HasSuffix(t, ".currentHeader") {
						continue
					}
					name := shortFn(fn)
					okFn := name == "(*core.BlockChain).CurrentBlock" || name == "(*core.BlockChain).CurrentFastBlock" || name == "(*core.HeaderChain).CurrentHeader"
					c.Ob("C04-R7", "unchecked head-marker read in "+name, c.Position(ta.Pos()), okFn, "panicking reads are confined to the three accessors whose first use is dominated by a Store (checked above)")
				}
			}
		}
	})
	c.Min("C04-R7", 6)

	// crash windows of a reorganisation: the number entries above the new head are removed only after the new chain was
	// inserted (relative to the new head), never before the head moved - decided by C03's sibling rule, shared here
	c.Borrow("C03", runC03, map[string]string{"C03-R3": "C04-R8"})
}
