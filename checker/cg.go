// Engine `effects`: call graph (VTA refined over CHA) on the loaded module packages, plus conservative
// "function value taken" edges so that callbacks passed to code without bodies (stdlib, third party) stay reachable.
package main

import (
	"sort"
	"strings"

	"golang.org/x/tools/go/callgraph"
	"golang.org/x/tools/go/callgraph/cha"
	"golang.org/x/tools/go/callgraph/vta"
	"golang.org/x/tools/go/ssa"
	"golang.org/x/tools/go/ssa/ssautil"
)

type cgEdge struct {
	callee *ssa.Function
	site   ssa.CallInstruction // nil for function-value edges
	isGo   bool
	isRef  bool // not a call: caller takes callee's value (closure creation, method value)
}

type cgraph struct {
	out map[*ssa.Function][]cgEdge
	in  map[*ssa.Function][]*ssa.Function
	vta *callgraph.Graph
	cha *callgraph.Graph
}

// CG builds (once) the call graph. mode "vta" (precise) edges are always included; CHA edges are added for
// interface types declared in the aquachain module when withCHA is set by the caller through ReachOpts.
func (c *Ctx) CG() *cgraph {
	if c.cg != nil {
		return c.cg
	}
	all := ssautil.AllFunctions(c.Prog)
	chaG := cha.CallGraph(c.Prog)
	vtaG := vta.CallGraph(all, chaG)
	g := &cgraph{out: map[*ssa.Function][]cgEdge{}, in: map[*ssa.Function][]*ssa.Function{}, vta: vtaG, cha: chaG}
	type ek struct {
		a, b *ssa.Function
		s    ssa.CallInstruction
	}
	seen := map[ek]bool{}
	add := func(caller, callee *ssa.Function, site ssa.CallInstruction, isRef bool) {
		if caller == nil || callee == nil {
			return
		}
		k := ek{caller, callee, site}
		if seen[k] {
			return
		}
		seen[k] = true
		_, isGo := site.(*ssa.Go)
		g.out[caller] = append(g.out[caller], cgEdge{callee: callee, site: site, isGo: isGo, isRef: isRef})
		g.in[callee] = append(g.in[callee], caller)
	}
	for fn, n := range vtaG.Nodes {
		for _, e := range n.Out {
			add(fn, e.Callee.Func, e.Site, false)
		}
	}
	// CHA edges for invoke sites on interfaces declared in this module (conservative for module-local dispatch)
	for fn, n := range chaG.Nodes {
		if fn == nil {
			continue
		}
		for _, e := range n.Out {
			if e.Site == nil || !e.Site.Common().IsInvoke() {
				continue
			}
			if !moduleInterface(e.Site.Common()) {
				continue
			}
			add(fn, e.Callee.Func, e.Site, false)
		}
	}
	// function-value edges
	for fn := range all {
		for _, b := range fn.Blocks {
			for _, ins := range b.Instrs {
				for _, op := range ins.Operands(nil) {
					if op == nil || *op == nil {
						continue
					}
					switch v := (*op).(type) {
					case *ssa.MakeClosure:
						if ci, ok := ins.(ssa.CallInstruction); ok && ci.Common().Value == v {
							continue // direct call of closure: VTA has it
						}
						add(fn, v.Fn.(*ssa.Function), nil, true)
					case *ssa.Function:
						if ci, ok := ins.(ssa.CallInstruction); ok && ci.Common().Value == v {
							continue
						}
						add(fn, v, nil, true)
					}
				}
				if mc, ok := ins.(*ssa.MakeClosure); ok {
					add(fn, mc.Fn.(*ssa.Function), nil, true)
				}
			}
		}
	}
	c.cg = g
	c.Extra["call_graph"] = map[string]int{"functions": len(all), "vta_nodes": len(vtaG.Nodes), "edges": len(seen)}
	return g
}

func moduleInterface(cc *ssa.CallCommon) bool {
	t := cc.Value.Type()
	for {
		switch x := t.(type) {
		case interface {
			Obj() interface {
				Pkg() interface{ Path() string }
			}
		}:
			_ = x
		}
		break
	}
	s := t.String()
	return strings.Contains(s, modPath)
}

type ReachOpts struct {
	SkipGo   bool                        // do not follow `go` statements (synchronous reachability)
	SkipRefs bool                        // do not follow function-value edges
	Stop     func(fn *ssa.Function) bool // do not expand these functions (they may still be reported as reached)
}

// Reach computes the functions reachable from roots; parent edges allow path reconstruction.
func (g *cgraph) Reach(roots []*ssa.Function, o ReachOpts) map[*ssa.Function]*ssa.Function {
	parent := map[*ssa.Function]*ssa.Function{}
	var queue []*ssa.Function
	for _, r := range roots {
		if r == nil {
			continue
		}
		if _, ok := parent[r]; !ok {
			parent[r] = nil
			queue = append(queue, r)
		}
	}
	for len(queue) > 0 {
		fn := queue[0]
		queue = queue[1:]
		if o.Stop != nil && o.Stop(fn) && parent[fn] != nil {
			continue
		}
		es := g.out[fn]
		sort.SliceStable(es, func(i, j int) bool { return es[i].callee.String() < es[j].callee.String() })
		for _, e := range es {
			if o.SkipGo && e.isGo {
				continue
			}
			if o.SkipRefs && e.isRef {
				continue
			}
			if _, ok := parent[e.callee]; ok {
				continue
			}
			parent[e.callee] = fn
			queue = append(queue, e.callee)
		}
	}
	return parent
}

func pathTo(parent map[*ssa.Function]*ssa.Function, fn *ssa.Function) string {
	var p []string
	for f := fn; f != nil; f = parent[f] {
		p = append([]string{shortFn(f)}, p...)
		if len(p) > 40 {
			break
		}
	}
	return strings.Join(p, " -> ")
}
