// Engine `evmfx`/`tables` for core/vm: instruction-set table extraction (AST + types), stack-effect abstract
// interpretation of execute functions (SSA, closure parameters constant-folded), and the specification table.
package main

import (
	"fmt"
	"go/ast"
	"go/constant"
	"go/token"
	"go/types"
	"sort"
	"strings"

	"golang.org/x/tools/go/ssa"
)

type vmEntry struct {
	op       string
	opval    int64
	pos      token.Pos
	execName string
	execArgs []int64
	vsName   string
	vsArgs   []int64
	memName  string
	gasName  string
	gasArgs  []int64
	flags    map[string]bool
}

func (e vmEntry) popPush() (int, int, bool) {
	switch e.vsName {
	case "makeStackFunc":
		if len(e.vsArgs) == 2 {
			return int(e.vsArgs[0]), int(e.vsArgs[1]), true
		}
	case "makeDupStackFunc":
		if len(e.vsArgs) == 1 {
			return int(e.vsArgs[0]), int(e.vsArgs[0]) + 1, true
		}
	case "makeSwapStackFunc":
		if len(e.vsArgs) == 1 {
			return int(e.vsArgs[0]), int(e.vsArgs[0]), true
		}
	}
	return 0, 0, false
}

type vmTables struct {
	sets  map[string]map[string]vmEntry // constructor name -> opcode name -> entry (resolved with inheritance)
	own   map[string]map[string]vmEntry
	base  map[string]string
	order []string
}

func astConstInt(info *types.Info, e ast.Expr) (int64, bool) {
	tv, ok := info.Types[e]
	if !ok || tv.Value == nil {
		return 0, false
	}
	return constant.Int64Val(constant.ToInt(tv.Value))
}

func parseVMOperation(info *types.Info, cl *ast.CompositeLit) vmEntry {
	e := vmEntry{flags: map[string]bool{}, pos: cl.Pos()}
	for _, el := range cl.Elts {
		kv, ok := el.(*ast.KeyValueExpr)
		if !ok {
			continue
		}
		k := kv.Key.(*ast.Ident).Name
		fn, args := "", []int64(nil)
		switch v := kv.Value.(type) {
		case *ast.Ident:
			fn = v.Name
		case *ast.CallExpr:
			if id, ok := v.Fun.(*ast.Ident); ok {
				fn = id.Name
			}
			for _, a := range v.Args {
				c, _ := astConstInt(info, a)
				args = append(args, c)
			}
		}
		switch k {
		case "execute":
			e.execName, e.execArgs = fn, args
		case "validateStack":
			e.vsName, e.vsArgs = fn, args
		case "memorySize":
			e.memName = fn
		case "gasCost":
			e.gasName, e.gasArgs = fn, args
		default:
			e.flags[k] = fn == "true"
		}
	}
	return e
}

// extractVMTables reads the New*InstructionSet constructors of core/vm.
func (c *Ctx) extractVMTables() *vmTables {
	p := c.Pkg("core/vm")
	t := &vmTables{sets: map[string]map[string]vmEntry{}, own: map[string]map[string]vmEntry{}, base: map[string]string{}}
	for _, f := range p.Syntax {
		for _, d := range f.Decls {
			fd, ok := d.(*ast.FuncDecl)
			if !ok || fd.Recv != nil || !strings.HasSuffix(fd.Name.Name, "InstructionSet") || !strings.HasPrefix(fd.Name.Name, "New") {
				continue
			}
			tab := map[string]vmEntry{}
			ast.Inspect(fd.Body, func(n ast.Node) bool {
				switch x := n.(type) {
				case *ast.CompositeLit:
					if at, ok := p.TypesInfo.TypeOf(x).(*types.Array); ok && at.Len() == 256 {
						for _, el := range x.Elts {
							kv, ok := el.(*ast.KeyValueExpr)
							if !ok {
								continue
							}
							opn := types.ExprString(kv.Key)
							cl, ok := kv.Value.(*ast.CompositeLit)
							if !ok {
								continue
							}
							e := parseVMOperation(p.TypesInfo, cl)
							e.op = opn
							e.opval, _ = astConstInt(p.TypesInfo, kv.Key)
							tab[opn] = e
						}
						return false
					}
				case *ast.AssignStmt:
					if len(x.Lhs) == 1 && len(x.Rhs) == 1 {
						if ix, ok := x.Lhs[0].(*ast.IndexExpr); ok {
							if cl, ok := x.Rhs[0].(*ast.CompositeLit); ok {
								opn := types.ExprString(ix.Index)
								e := parseVMOperation(p.TypesInfo, cl)
								e.op = opn
								e.opval, _ = astConstInt(p.TypesInfo, ix.Index)
								tab[opn] = e
							}
						} else if call, ok := x.Rhs[0].(*ast.CallExpr); ok {
							if id, ok := call.Fun.(*ast.Ident); ok && strings.HasSuffix(id.Name, "InstructionSet") {
								t.base[fd.Name.Name] = id.Name
							}
						}
					}
				}
				return true
			})
			t.own[fd.Name.Name] = tab
			t.order = append(t.order, fd.Name.Name)
		}
	}
	sort.Strings(t.order)
	var resolve func(name string, depth int) map[string]vmEntry
	resolve = func(name string, depth int) map[string]vmEntry {
		if r, ok := t.sets[name]; ok {
			return r
		}
		r := map[string]vmEntry{}
		if b, ok := t.base[name]; ok && depth < 8 {
			for k, v := range resolve(b, depth+1) {
				r[k] = v
			}
		}
		for k, v := range t.own[name] {
			r[k] = v
		}
		t.sets[name] = r
		return r
	}
	for _, n := range t.order {
		resolve(n, 0)
	}
	return t
}

// ---- stack effect --------------------------------------------------------------------------------------------

type stackFx struct {
	need int // deepest stack position read (1-based count of items that must exist)
	net  int // net growth
	note string
	nets []int
}

func fxEvalInt(v ssa.Value, env map[ssa.Value]int64) (int64, bool) {
	switch x := v.(type) {
	case *ssa.Const:
		if x.Value == nil {
			return 0, false
		}
		return constant.Int64Val(constant.ToInt(x.Value))
	case *ssa.Convert:
		return fxEvalInt(x.X, env)
	case *ssa.BinOp:
		a, ok1 := fxEvalInt(x.X, env)
		b, ok2 := fxEvalInt(x.Y, env)
		if !ok1 || !ok2 {
			return 0, false
		}
		switch x.Op {
		case token.ADD:
			return a + b, true
		case token.SUB:
			return a - b, true
		case token.MUL:
			return a * b, true
		case token.QUO:
			if b != 0 {
				return a / b, true
			}
		case token.REM:
			if b != 0 {
				return a % b, true
			}
		case token.SHR:
			if b >= 0 && b < 63 {
				return a >> uint(b), true
			}
		case token.SHL:
			if b >= 0 && b < 63 {
				return a << uint(b), true
			}
		}
	case *ssa.UnOp:
		if x.Op == token.MUL {
			if c, ok := env[x.X]; ok {
				return c, true
			}
		}
	}
	if c, ok := env[v]; ok {
		return c, true
	}
	// len(x) of an environment-bound slice length
	if call, ok := v.(*ssa.Call); ok {
		if bi, isB := call.Call.Value.(*ssa.Builtin); isB && bi.Name() == "len" && len(call.Call.Args) == 1 {
			if c, ok := env[call.Call.Args[0]]; ok {
				return c, true
			}
		}
	}
	return 0, false
}

func isVMStackMethod(c *ssa.CallCommon, name string) bool {
	f := c.StaticCallee()
	if f == nil || f.Signature.Recv() == nil {
		return false
	}
	return f.Name() == name && strings.HasSuffix(f.Signature.Recv().Type().String(), "vm.Stack")
}

// stackEffect abstractly executes fn tracking the stack depth delta; env binds free variables / parameters to ints.
// Loops whose counters evaluate to constants are followed concretely (makeLog).
func stackEffect(fn *ssa.Function, env map[ssa.Value]int64) stackFx {
	best := stackFx{need: 0, net: -1 << 30}
	nets := map[int]bool{}
	steps := 0
	var walk func(b *ssa.BasicBlock, pred *ssa.BasicBlock, d int, need int, phis map[ssa.Value]int64, depth int)
	walk = func(b *ssa.BasicBlock, pred *ssa.BasicBlock, d int, need int, phis map[ssa.Value]int64, depth int) {
		steps++
		if depth > 400 || steps > 200000 {
			best.note = "exploration cap reached"
			return
		}
		loc := map[ssa.Value]int64{}
		for k, v := range phis {
			loc[k] = v
		}
		get := func(v ssa.Value) (int64, bool) {
			if c, ok := loc[v]; ok {
				return c, true
			}
			m := map[ssa.Value]int64{}
			for k, vv := range env {
				m[k] = vv
			}
			for k, vv := range loc {
				m[k] = vv
			}
			return fxEvalInt(v, m)
		}
		newv := map[ssa.Value]int64{}
		for _, ins := range b.Instrs {
			phi, ok := ins.(*ssa.Phi)
			if !ok {
				break
			}
			if pred != nil {
				for i, p := range b.Preds {
					if p == pred {
						if c, ok := get(phi.Edges[i]); ok {
							newv[phi] = c
						}
					}
				}
			}
		}
		for _, ins := range b.Instrs {
			if phi, ok := ins.(*ssa.Phi); ok {
				delete(loc, phi)
			} else {
				break
			}
		}
		for k, v := range newv {
			loc[k] = v
		}
		for _, ins := range b.Instrs {
			switch i := ins.(type) {
			case *ssa.BinOp:
				delete(loc, i)
				if c, ok := get(i); ok {
					loc[i] = c
				}
			case *ssa.Convert:
				delete(loc, i)
				if c, ok := get(i); ok {
					loc[i] = c
				}
			case *ssa.Call, *ssa.Defer:
				var c *ssa.CallCommon
				if cc, ok := i.(*ssa.Call); ok {
					c = &cc.Call
				} else {
					c = &i.(*ssa.Defer).Call
				}
				switch {
				case isVMStackMethod(c, "pop"):
					d++
					if d > need {
						need = d
					}
				case isVMStackMethod(c, "peek"):
					if d+1 > need {
						need = d + 1
					}
				case isVMStackMethod(c, "Back"):
					n, ok := get(c.Args[1])
					if !ok {
						best.note = "Back(non-constant)"
					}
					if d+int(n)+1 > need {
						need = d + int(n) + 1
					}
				case isVMStackMethod(c, "push"):
					d--
				case isVMStackMethod(c, "dup"):
					n, ok := get(c.Args[2])
					if !ok {
						best.note = "dup(non-constant)"
					}
					if d+int(n) > need {
						need = d + int(n)
					}
					d--
				case isVMStackMethod(c, "swap"):
					n, ok := get(c.Args[1])
					if !ok {
						best.note = "swap(non-constant)"
					}
					if d+int(n) > need {
						need = d + int(n)
					}
				}
			case *ssa.Return:
				if need > best.need {
					best.need = need
				}
				nets[-d] = true
				return
			case *ssa.Panic:
				return
			case *ssa.If:
				if bo, ok := i.Cond.(*ssa.BinOp); ok {
					a, ok1 := get(bo.X)
					cc, ok2 := get(bo.Y)
					if ok1 && ok2 {
						if _, isCmp := flipOp[bo.Op]; isCmp {
							if evalCmp(bo.Op, a, cc) {
								walk(b.Succs[0], b, d, need, loc, depth+1)
							} else {
								walk(b.Succs[1], b, d, need, loc, depth+1)
							}
							return
						}
					}
				}
				walk(b.Succs[0], b, d, need, loc, depth+1)
				walk(b.Succs[1], b, d, need, loc, depth+1)
				return
			case *ssa.Jump:
				walk(b.Succs[0], b, d, need, loc, depth+1)
				return
			}
		}
	}
	walk(fn.Blocks[0], nil, 0, 0, map[ssa.Value]int64{}, 0)
	for n := range nets {
		best.nets = append(best.nets, n)
	}
	sort.Ints(best.nets)
	if len(best.nets) > 0 {
		best.net = best.nets[len(best.nets)-1]
	}
	return best
}

// resolveVMFunc returns the SSA function that implements a table slot: a plain function, or the closure returned by
// a maker with its free variables bound to the constant arguments.
func (c *Ctx) resolveVMFunc(name string, args []int64) (*ssa.Function, map[ssa.Value]int64, string) {
	fn := c.FnOpt("core/vm:" + name)
	if fn == nil {
		return nil, nil, "function " + name + " not found"
	}
	env := map[ssa.Value]int64{}
	if len(args) == 0 {
		return fn, env, ""
	}
	// makers may delegate: makeDupStackFunc(n) -> makeStackFunc(n, n+1)
	for depth := 0; depth < 3; depth++ {
		penv := map[ssa.Value]int64{}
		for i, prm := range fn.Params {
			if i < len(args) {
				penv[prm] = args[i]
			}
		}
		cell := map[ssa.Value]int64{}
		var clo *ssa.MakeClosure
		var deleg *ssa.Call
		for _, b := range fn.Blocks {
			for _, ins := range b.Instrs {
				switch i := ins.(type) {
				case *ssa.Store:
					m := map[ssa.Value]int64{}
					for k, v := range penv {
						m[k] = v
					}
					for k, v := range cell {
						m[k] = v
					}
					if cv, ok := fxEvalInt(i.Val, m); ok {
						cell[i.Addr] = cv
					}
				case *ssa.MakeClosure:
					clo = i
				case *ssa.Call:
					if callee := i.Call.StaticCallee(); callee != nil && callee.Pkg == fn.Pkg && strings.HasPrefix(callee.Name(), "make") {
						deleg = i
					}
				}
			}
		}
		if clo != nil {
			cf := clo.Fn.(*ssa.Function)
			for i, fv := range cf.FreeVars {
				b := clo.Bindings[i]
				if cv, ok := penv[b]; ok {
					env[fv] = cv
				} else if cv, ok := cell[b]; ok {
					env[fv] = cv
				}
			}
			return cf, env, ""
		}
		if deleg != nil {
			var nargs []int64
			for _, a := range deleg.Call.Args {
				v, ok := fxEvalInt(a, penv)
				if !ok {
					return nil, nil, "cannot fold arguments of " + deleg.String()
				}
				nargs = append(nargs, v)
			}
			fn = deleg.Call.StaticCallee()
			args = nargs
			continue
		}
		break
	}
	return nil, nil, "no closure found in maker " + name
}

// ---- specification table (Yellow Paper appendix H; EIP-7, 140, 145, 211, 214) --------------------------------------

type opSpec struct {
	pop, push int
	gas       int64 // constant gas; -1 = dynamic
	fork      int   // 0 frontier, 1 homestead, 2 byzantium, 3 constantinople
	flags     string
}

var evmSpec = map[string]opSpec{}

func init() {
	add := func(names string, pop, push int, gas int64, fork int, flags string) {
		for _, n := range strings.Fields(names) {
			evmSpec[n] = opSpec{pop, push, gas, fork, flags}
		}
	}
	add("STOP", 0, 0, 0, 0, "halts")
	add("ADD SUB LT GT SLT SGT EQ AND OR XOR BYTE", 2, 1, 3, 0, "")
	add("MUL DIV SDIV MOD SMOD SIGNEXTEND", 2, 1, 5, 0, "")
	add("ADDMOD MULMOD", 3, 1, 8, 0, "")
	add("EXP", 2, 1, -1, 0, "")
	add("ISZERO NOT", 1, 1, 3, 0, "")
	add("SHL SHR SAR", 2, 1, 3, 3, "")
	add("SHA3", 2, 1, -1, 0, "")
	add("ADDRESS ORIGIN CALLER CALLVALUE CALLDATASIZE CODESIZE GASPRICE COINBASE TIMESTAMP NUMBER DIFFICULTY GASLIMIT PC MSIZE GAS", 0, 1, 2, 0, "")
	add("BALANCE EXTCODESIZE SLOAD", 1, 1, -1, 0, "")
	add("CALLDATALOAD", 1, 1, 3, 0, "")
	add("CALLDATACOPY CODECOPY", 3, 0, -1, 0, "")
	add("EXTCODECOPY", 4, 0, -1, 0, "")
	add("RETURNDATASIZE", 0, 1, 2, 2, "")
	add("RETURNDATACOPY", 3, 0, -1, 2, "")
	add("BLOCKHASH", 1, 1, 20, 0, "")
	add("POP", 1, 0, 2, 0, "")
	add("MLOAD", 1, 1, -1, 0, "")
	add("MSTORE MSTORE8", 2, 0, -1, 0, "")
	add("SSTORE", 2, 0, -1, 0, "writes")
	add("JUMP", 1, 0, 8, 0, "jumps")
	add("JUMPI", 2, 0, 10, 0, "jumps")
	add("JUMPDEST", 0, 0, 1, 0, "")
	for i := 1; i <= 32; i++ {
		add(fmt.Sprintf("PUSH%d", i), 0, 1, 3, 0, "")
	}
	for i := 1; i <= 16; i++ {
		add(fmt.Sprintf("DUP%d", i), i, i+1, 3, 0, "")
		add(fmt.Sprintf("SWAP%d", i), i+1, i+1, 3, 0, "")
	}
	for i := 0; i <= 4; i++ {
		add(fmt.Sprintf("LOG%d", i), i+2, 0, -1, 0, "writes")
	}
	add("CREATE", 3, 1, -1, 0, "writes returns")
	add("CALL CALLCODE", 7, 1, -1, 0, "returns")
	add("RETURN", 2, 0, -1, 0, "halts")
	add("DELEGATECALL", 6, 1, -1, 1, "returns")
	add("STATICCALL", 6, 1, -1, 2, "returns")
	add("REVERT", 2, 0, -1, 2, "reverts returns")
	add("SELFDESTRUCT", 1, 0, -1, 0, "halts writes")
}

var evmSetFork = map[string]int{"NewFrontierInstructionSet": 0, "NewHomesteadInstructionSet": 1, "NewByzantiumInstructionSet": 2,
	"NewConstantinopleInstructionSet": 3, "NewSpringInstructionSet": 3}
