package main

import (
	"fmt"
	"go/types"
	"sort"
	"strings"

	"golang.org/x/tools/go/ssa"
)

// C12 A transaction is bound to its signer and to its chain.

func init() { register("C12", []string{"./..."}, runC12) }

func runC12(c *Ctx) {
	c.Explanation = "Table, guard and sibling-agreement rules over core/types and crypto: every Signer.Hash passes every signed txdata field (and, for EIP-155, chain id, 0, 0) to the hash; recoverPlain rejects V wider than 8 bits and runs ValidateSignatureValues, which checks v in {0,1}, 1 <= r,s < N and s <= N/2 under homestead; every Homestead-or-later signer requests the low-S rule; the EIP-155 signer recovers only when the transaction's chain id equals its own and reduces V by 2*chainId+8; the sender cache is consulted only under signer equality (and every Equal type-asserts its own type, EIP-155 also comparing chain ids); signed content is written only on freshly built transactions, in DecodeRLP or by the generated JSON decoder, and the JSON codec names and requires every field. Cryptographic unforgeability is not decided."
	c.NotDecided = []string{"cryptographic unforgeability of ECDSA/secp256k1", "byte-level equality of hashes across re-encodings (decided only as: codecs cover all fields and nothing mutates signed content)"}
	c.Assumptions = []string{"rlpHash hashes exactly the list it is given (C11)", "crypto.Ecrecover is correct"}

	txdata := c.Type("core/types:txdata").Underlying().(*types.Struct)
	var signed []string
	for i := 0; i < txdata.NumFields(); i++ {
		n := txdata.Field(i).Name()
		if n == "V" || n == "R" || n == "S" || n == "Hash" {
			continue
		}
		signed = append(signed, n)
	}
	c.Extra["signed_fields"] = signed

	c.Rule("C12-R1", "the signing hash covers every signed field (and the chain id for EIP-155)", func() {
		for _, s := range []string{"FrontierSigner", "EIP155Signer"} {
			fn := c.Fn("core/types:(" + s + ").Hash")
			sites := callSites(fn, `^types\.rlpHash$`)
			if len(sites) != 1 {
				c.Ob("C12-R1", s+".Hash calls rlpHash once", c.FnPos(fn), false, fmt.Sprintf("%d calls", len(sites)))
				continue
			}
			t := c.termOf(fn, sites[0].Common().Args[1])
			elems := splitTop(strings.TrimSuffix(strings.TrimPrefix(t, "["), "]"))
			var want []string
			for _, f := range signed {
				want = append(want, "Transaction#0.data."+f)
			}
			if s == "EIP155Signer" {
				want = append(want, "EIP155Signer#0.chainId", "0", "0")
			}
			c.Ob("C12-R1", s+".Hash hashes exactly the signed fields in order", c.Position(sites[0].Pos()), strings.Join(elems, " | ") == strings.Join(want, " | "),
				fmt.Sprintf("hashed list: %v; expected: %v", elems, want))
		}
		// HomesteadSigner inherits FrontierSigner.Hash (embedding): it must not define a different one
		if hf := c.FnOpt("core/types:(HomesteadSigner).Hash"); hf != nil {
			c.Ob("C12-R1", "HomesteadSigner uses FrontierSigner.Hash", c.FnPos(hf), shortFn(hf) == "(core/types.FrontierSigner).Hash" || hf.Synthetic != "", shortFn(hf))
		}
		c.Ob("C12-R1", "txdata has the six signed fields", c.Position(c.Type("core/types:txdata").Obj().Pos()), strings.Join(signed, ",") == "AccountNonce,Price,GasLimit,Recipient,Amount,Payload", strings.Join(signed, ","))
		// Transaction.Hash / Size hash the whole data struct
		th := c.Fn("core/types:(*Transaction).Hash")
		okH := false
		for _, s := range callSites(th, `^types\.rlpHash$`) {
			okH = c.termOf(th, s.Common().Args[1]) == "Transaction#0"
		}
		c.Ob("C12-R1", "Transaction.Hash hashes the whole transaction encoding", c.FnPos(th), okH, "")
		enc := c.Fn("core/types:(*Transaction).EncodeRLP")
		okE := false
		for _, s := range callSites(enc, `^rlp\.Encode$`) {
			okE = c.termOf(enc, s.Common().Args[1]) == "Transaction#0.data"
		}
		c.Ob("C12-R1", "Transaction.EncodeRLP encodes the whole txdata", c.FnPos(enc), okE, "")
	})
	c.Min("C12-R1", 5)

	c.Rule("C12-R2", "signature-value guards on every accepting path", func() {
		rp := c.Fn("core/types:recoverPlain")
		c.MustOnAccept("C12-R2", rp, -1, false, []LitReq{
			{Name: "V fits in 8 bits", Re: `^Int#2\.BitLen\(\) <= 8$`},
			{Name: "signature values validated with the caller's homestead flag", Re: `^crypto\.ValidateSignatureValues\(\(Int#2\.Uint64\(\) - 27\), Int#0, Int#1, bool#0\)$`},
			{Name: "recovery succeeded", Re: `^crypto\.Ecrecover\(.*\)#1 == nil$`},
			{Name: "recovered key is an uncompressed point", Re: `^crypto\.Ecrecover\(.*\)#0\[0\] == 4$`},
		})
		vs := c.Fn("crypto:ValidateSignatureValues")
		c.MustOnAccept("C12-R2", vs, 0, true, []LitReq{
			{Name: "v is 0 or 1", Re: `^(byte#0 == 0|byte#0 == 1|uint8#0 == 0|uint8#0 == 1)$`},
			{Name: "r >= 1", Re: `^Int#0 >= common\.Big1$`},
			{Name: "s >= 1", Re: `^Int#1 >= common\.Big1$`},
			{Name: "r < N", Re: `^Int#0 < crypto\.secp256k1_N$`},
			{Name: "s < N", Re: `^Int#1 < crypto\.secp256k1_N$`},
			{Name: "homestead => s <= N/2", Unless: `^!bool#0$`, Re: `^Int#1 <= crypto\.secp256k1_halfN$`},
		})
		for _, g := range []string{"crypto:secp256k1_N", "crypto:secp256k1_halfN"} {
			c.GlobalNeverReassigned("C12-R2", g)
		}
		n := c18InitCall(c, "crypto", "secp256k1_N")
		h := c18InitCall(c, "crypto", "secp256k1_halfN")
		c.Ob("C12-R2", "curve order and half order constants", c.Position(c.Global("crypto:secp256k1_N").Pos()),
			strings.Contains(n, `"fffffffffffffffffffffffffffffffebaaedce6af48a03bbfd25e8cd0364141"`) && (h == "new(big.Int).Div(secp256k1_N, big.NewInt(2))" || strings.Contains(strings.ToLower(h), `"7fffffffffffffffffffffffffffffff5d576e7357a4501ddfe92f46681b20a0", 16`)), "N="+n+" halfN="+h)
	})
	c.Min("C12-R2", 12)

	c.Rule("C12-R3", "sibling agreement: every Homestead-or-later signer requests the low-S rule", func() {
		want := map[string]string{"FrontierSigner": "false", "HomesteadSigner": "true", "EIP155Signer": "true"}
		for s, hv := range want {
			fn := c.Fn("core/types:(" + s + ").Sender")
			sites := callSites(fn, `^types\.recoverPlain$`)
			if len(sites) == 0 {
				c.Ob("C12-R3", s+".Sender recovers through recoverPlain", c.FnPos(fn), false, "no call")
				continue
			}
			for _, cs := range sites {
				got := c.termOf(fn, cs.Common().Args[4])
				c.Ob("C12-R3", s+".Sender passes homestead="+hv+" to recoverPlain", c.Position(cs.Pos()), got == hv, "passes "+got)
			}
		}
		// the set of Signer implementations is exactly these three
		si := c.Type("core/types:Signer").Underlying().(*types.Interface)
		var impls []string
		for _, p := range c.Pkgs {
			for _, n := range p.Types.Scope().Names() {
				if tn, ok := p.Types.Scope().Lookup(n).(*types.TypeName); ok && !types.IsInterface(tn.Type()) && types.Implements(tn.Type(), si) {
					impls = append(impls, relPkg(p.PkgPath)+"."+n)
				}
			}
		}
		sort.Strings(impls)
		c.Ob("C12-R3", "Signer implementations are exactly Frontier, Homestead, EIP155", "", strings.Join(impls, ",") == "core/types.EIP155Signer,core/types.FrontierSigner,core/types.HomesteadSigner", strings.Join(impls, ","))
	})
	c.Min("C12-R3", 4)

	c.Rule("C12-R4", "replay protection: EIP-155 recovery only under chain-id equality; V reduced by 2*chainId+8", func() {
		fn := c.Fn("core/types:(EIP155Signer).Sender")
		c.MustBefore("C12-R4", fn, `^types\.recoverPlain$`, 1, []LitReq{
			{Name: "transaction chain id equals the signer's", Re: `^Transaction#0\.ChainId\(\) == EIP155Signer#0\.chainId$`},
			{Name: "only for protected transactions", Re: `^Transaction#0\.Protected\(\)$`},
		})
		for _, cs := range callSites(fn, `^types\.recoverPlain$`) {
			v := c.termOf(fn, cs.Common().Args[3])
			h := c.termOf(fn, cs.Common().Args[0])
			c.Ob("C12-R4", "EIP155Signer.Sender recovers with V - 2*chainId - 8 over its own hash", c.Position(cs.Pos()),
				v == "new(Int).Sub(Transaction#0.data.V, EIP155Signer#0.chainIdMul)" && h == "EIP155Signer#0.Hash(Transaction#0)" && len(callSites(fn, `^Int\.Sub$`)) == 2, "V="+v+" hash="+h)
		}
		c.ConstIs("C12-R4", "core/types:big8", "8")
		c.GlobalNeverReassigned("C12-R4", "core/types:big8")
		// unprotected transactions fall back to the Homestead rules
		f := c.Facts(fn)
		for _, rs := range f.AllReturns() {
			if rs.State.lits["!Transaction#0.Protected()"] {
				res := f.tr.term(rs.State, rs.Ret.Results[0], 0)
				c.Ob("C12-R4", "unprotected transactions are recovered with the Homestead signer", c.Position(rs.Ret.Pos()), strings.HasPrefix(res, "HomesteadSigner") || strings.Contains(res, ".Sender(Transaction#0)"), "returns "+res)
			}
		}
		ne := c.Fn("core/types:NewEIP155Signer")
		okMul := false
		for _, b := range ne.Blocks {
			for _, ins := range b.Instrs {
				if st, ok := ins.(*ssa.Store); ok {
					if fa, ok := st.Addr.(*ssa.FieldAddr); ok && fieldName(fa) == "chainIdMul" {
						okMul = c.termOf(ne, st.Val) == "new(Int).Mul(Int#0, big.NewInt(2))"
					}
				}
			}
		}
		c.Ob("C12-R4", "chainIdMul = 2 * chainId", c.FnPos(ne), okMul, "")
		pv := c.Fn("core/types:isProtectedV")
		c.MustOnAccept("C12-R4", pv, 0, false, []LitReq{
			{Name: "only V = 27 or 28 is unprotected", Re: `^(Int#0\.Uint64\(\) == 27|Int#0\.Uint64\(\) == 28)$`},
			{Name: "and only if V fits in 8 bits", Re: `^Int#0\.BitLen\(\) <= 8$`},
		})
	})
	c.Min("C12-R4", 8)

	c.Rule("C12-R5", "the sender cache is signer-qualified", func() {
		fn := c.Fn("core/types:Sender")
		f := c.Facts(fn)
		n := 0
		for _, rs := range f.AcceptingReturns(-1, false) {
			res := f.tr.term(rs.State, rs.Ret.Results[0], 0)
			if !strings.Contains(res, ".from") {
				continue
			}
			n++
			_, eq := hasLit(rs.State, mustRe(`^.*\.signer\.Equal\(Signer#0\)$`))
			c.Ob("C12-R5", "types.Sender returns the cached address only under cached.signer.Equal(signer)", c.Position(rs.Ret.Pos()), eq, "returns "+res+" under "+strings.Join(guardLits(rs.State), "; "))
		}
		c.Ob("C12-R5", "types.Sender has a cache-hit path", c.FnPos(fn), n >= 1, "")
		// the cache is written only after a successful recovery, with the signer it was computed with and the address
		// that recovery returned (a cached failure would be served as a success to the next caller)
		c.MustBefore("C12-R5", fn, `^Value\.Store$`, 1, []LitReq{
			{Name: "the sender cache is written only after signer.Sender succeeded", Re: `^Signer#0\.Sender\(Transaction#0\)#1 == nil$`},
		})
		stores := callSites(fn, `^Value\.Store$`)
		okStore := len(stores) == 1
		d := ""
		if okStore {
			// the stored value is a sigCache{signer: signer, from: addr} composite
			sg, fr := "", ""
			for _, b := range fn.Blocks {
				for _, ins := range b.Instrs {
					if st, ok := ins.(*ssa.Store); ok {
						if fa, ok := st.Addr.(*ssa.FieldAddr); ok {
							if _, isAl := fa.X.(*ssa.Alloc); isAl && strings.HasSuffix(fa.X.Type().String(), "sigCache") {
								switch fieldName(fa) {
								case "signer":
									sg = c.termOf(fn, st.Val)
								case "from":
									fr = c.termOf(fn, st.Val)
								}
							}
						}
					}
				}
			}
			okStore = sg == "Signer#0" && fr == "Signer#0.Sender(Transaction#0)#0"
			d = "sigCache{signer: " + sg + ", from: " + fr + "}"
		}
		c.Ob("C12-R5", "types.Sender stores {signer, recovered address} in the cache", c.FnPos(fn), okStore, d)
		for _, s := range []string{"FrontierSigner", "HomesteadSigner", "EIP155Signer"} {
			eq := c.Fn("core/types:(" + s + ").Equal")
			reqs := []LitReq{{Name: s + ".Equal accepts only its own dynamic type", Re: `^Signer#0\.\(` + s + `\)#1$`}}
			if s == "EIP155Signer" {
				reqs = append(reqs, LitReq{Name: "EIP155Signer.Equal compares chain ids", Re: `^(Signer#0\.\(EIP155Signer\)#0|var:\w+)\.chainId == EIP155Signer#0\.chainId$`})
			}
			c.MustOnAccept("C12-R5", eq, 0, true, reqs)
		}
		// the other memo of a transaction, its hash, is filled only by Hash() with the hash it computed from the
		// contents (a decoder that trusts a hash found in the input would bind the object to a foreign hash)
		nh := 0
		for _, fn2 := range c.SrcFns {
			if fn2.Pkg == nil || relPkg(fn2.Pkg.Pkg.Path()) != "core/types" {
				continue
			}
			for _, cs := range callSites(fn2, `^Value\.Store$`) {
				recv := c.termOf(fn2, cs.Common().Args[0])
				if !strings.HasSuffix(recv, ".hash") || !strings.HasPrefix(recv, "Transaction#0") && !strings.Contains(recv, "Transaction") {
					continue
				}
				nh++
				v := c.termOf(fn2, cs.Common().Args[1])
				c.Ob("C12-R5", shortFn(fn2)+": the transaction hash memo is filled only with rlpHash of the transaction itself", c.Position(cs.Pos()),
					shortFn(fn2) == "(*core/types.Transaction).Hash" && mustRe(`^types\.rlpHash\((\d+, )?Transaction#0\)$`).MatchString(v), "hash.Store("+v+")")
			}
		}
		c.Ob("C12-R5", "transaction hash memo store found", "", nh >= 1, fmt.Sprintf("%d", nh))
	})
	c.Min("C12-R5", 10)

	c.Rule("C12-R6", "signed content is immutable after construction; codecs cover every field", func() {
		// stores to Transaction.data fields
		allowed := map[string]string{
			"core/types.newTransaction":               "constructor (fresh transaction)",
			"(*core/types.Transaction).WithSignature": "writes R,S,V on a copy",
			"(*core/types.Transaction).DecodeRLP":     "decoder",
			"(*core/types.Transaction).UnmarshalJSON": "decoder (whole-value assignment)",
			"(*core/types.txdata).UnmarshalJSON":      "generated JSON decoder",
			"(*core/types.Transaction).Hash":          "hash cache (not signed content)",
			"(*core/types.Transaction).Size":          "size cache",
			"core/types.Sender":                       "sender cache",
		}
		tdNamed := c.Type("core/types:txdata")
		txNamed := c.Type("core/types:Transaction")
		n := 0
		for _, fn := range c.SrcFns {
			for _, b := range fn.Blocks {
				for _, ins := range b.Instrs {
					st, ok := ins.(*ssa.Store)
					if !ok {
						continue
					}
					fa, ok := st.Addr.(*ssa.FieldAddr)
					if !ok {
						continue
					}
					pt := fa.X.Type().Underlying().(*types.Pointer).Elem()
					isTd := types.Identical(pt, tdNamed)
					isTxData := types.Identical(pt, txNamed) && fieldName(fa) == "data"
					if !isTd && !isTxData {
						continue
					}
					n++
					name := shortFn(fn)
					_, ok2 := allowed[name]
					// stores on a transaction allocated in the same function are construction
					fresh := false
					root := fa.X
					for i := 0; i < 4; i++ {
						if f2, ok := root.(*ssa.FieldAddr); ok {
							root = f2.X
							continue
						}
						break
					}
					if _, ok := root.(*ssa.Alloc); ok {
						fresh = true // a transaction/txdata value built or copied locally in this function
					}
					c.Ob("C12-R6", fmt.Sprintf("%s writes txdata.%s only while constructing/decoding", name, fieldName(fa)), c.Position(st.Pos()), ok2 || fresh, allowed[name])
				}
			}
		}
		c.Extra["txdata_store_sites"] = n
		// no in-place big.Int mutation of signed integers: receivers rooted at a load of txdata.{Price,Amount,V,R,S}
		bad := 0
		for _, fn := range c.SrcFns {
			for _, b := range fn.Blocks {
				for _, ins := range b.Instrs {
					call, ok := ins.(*ssa.Call)
					if !ok {
						continue
					}
					f := call.Call.StaticCallee()
					if f == nil || f.Signature.Recv() == nil || !strings.HasSuffix(f.Signature.Recv().Type().String(), "big.Int") || !bigMutators[f.Name()] {
						continue
					}
					for _, root := range bigRoots(call.Call.Args[0]) {
						if u, ok := root.(*ssa.UnOp); ok {
							if fa, ok := u.X.(*ssa.FieldAddr); ok {
								pt := fa.X.Type().Underlying().(*types.Pointer).Elem()
								base := fa.X
								for i := 0; i < 4; i++ {
									if f2, ok := base.(*ssa.FieldAddr); ok {
										base = f2.X
										continue
									}
									break
								}
								if _, isLocal := base.(*ssa.Alloc); isLocal {
									continue // initialising a value under construction
								}
								if types.Identical(pt, tdNamed) {
									bad++
									c.Ob("C12-R6", shortFn(fn)+": in-place big.Int."+f.Name()+" on txdata."+fieldName(fa), c.Position(call.Pos()), false, "mutates signed content")
								}
							}
						}
					}
				}
			}
		}
		c.Ob("C12-R6", "no mutating big.Int method is applied to a txdata integer", "", bad == 0, "")
		// accessors copy
		for acc, fld := range map[string]string{"GasPrice": "Price", "Value": "Amount"} {
			fn := c.Fn("core/types:(*Transaction)." + acc)
			f := c.Facts(fn)
			for _, rs := range f.AllReturns() {
				t := f.tr.term(rs.State, rs.Ret.Results[0], 0)
				c.Ob("C12-R6", "Transaction."+acc+" returns a copy", c.Position(rs.Ret.Pos()), t == "new(Int).Set(Transaction#0.data."+fld+")", "returns "+t)
			}
		}
		// RawSignatureValues hands out the internal pointers: its callers must be read-only
		rsv := c.Fn("core/types:(*Transaction).RawSignatureValues")
		var callers []string
		for _, cl := range c.CG().in[rsv] {
			if cl.Synthetic == "" {
				callers = append(callers, shortFn(cl))
			}
		}
		sort.Strings(callers)
		c.Extra["RawSignatureValues_callers"] = callers
		for _, cl := range c.CG().in[rsv] {
			if cl.Synthetic != "" {
				continue
			}
			mut := false
			for _, b := range cl.Blocks {
				for _, ins := range b.Instrs {
					call, ok := ins.(*ssa.Call)
					if !ok {
						continue
					}
					f := call.Call.StaticCallee()
					if f == nil || f.Signature.Recv() == nil || !strings.HasSuffix(f.Signature.Recv().Type().String(), "big.Int") || !bigMutators[f.Name()] {
						continue
					}
					for _, root := range bigRoots(call.Call.Args[0]) {
						if ex, ok := root.(*ssa.Extract); ok {
							if rc, ok := ex.Tuple.(*ssa.Call); ok && rc.Call.StaticCallee() == rsv {
								mut = true
							}
						}
					}
				}
			}
			c.Ob("C12-R6", "caller of RawSignatureValues does not mutate the shared integers: "+shortFn(cl), c.FnPos(cl), !mut, "")
		}
		// JSON codec covers every field
		mj := c.Fn("core/types:(txdata).MarshalJSON")
		uj := c.Fn("core/types:(*txdata).UnmarshalJSON")
		for i := 0; i < txdata.NumFields(); i++ {
			fld := txdata.Field(i).Name()
			rd, wr := false, false
			for _, b := range mj.Blocks {
				for _, ins := range b.Instrs {
					switch x := ins.(type) {
					case *ssa.FieldAddr:
						if fieldName(x) == fld && types.Identical(x.X.Type().Underlying().(*types.Pointer).Elem(), tdNamed) {
							rd = true
						}
					case *ssa.Field:
						st := x.X.Type().Underlying().(*types.Struct)
						if st.Field(x.Field).Name() == fld && types.Identical(x.X.Type(), tdNamed) {
							rd = true
						}
					}
				}
			}
			for _, b := range uj.Blocks {
				for _, ins := range b.Instrs {
					if st, ok := ins.(*ssa.Store); ok {
						if fa, ok := st.Addr.(*ssa.FieldAddr); ok && fieldName(fa) == fld && types.Identical(fa.X.Type().Underlying().(*types.Pointer).Elem(), tdNamed) {
							wr = true
						}
					}
				}
			}
			c.Ob("C12-R6", "JSON codec covers txdata."+fld, c.Position(txdata.Field(i).Pos()), rd && wr, fmt.Sprintf("marshalled=%v unmarshalled=%v", rd, wr))
		}
		// required fields: every signed field + v,r,s must be present on input
		f := c.Facts(uj)
		var acc []*pstate
		for _, rs := range f.AcceptingReturns(-1, false) {
			acc = append(acc, rs.State)
		}
		var reqs []LitReq
		for _, fld := range []string{"AccountNonce", "Price", "GasLimit", "Amount", "Payload", "V", "R", "S"} {
			reqs = append(reqs, LitReq{Name: "UnmarshalJSON requires " + fld, Re: `^new\(txdata\)(~\d+)?\.` + fld + ` != nil$`})
		}
		c.mustStates("C12-R6", uj, "accepting return", acc, reqs)
	})
	c.Min("C12-R6", 30)

	// integers handed out by accessors (cached total difficulties, balances, transaction and header fields, protocol
	// constants) are never modified in place anywhere in the module: decided by the ownership rule of C05, shared here
	c.Borrow("C05", runC05, map[string]string{"C05-R4": "C12-R7"})
}

// splitTop splits a rendered list "a, f(b, c), d" at top-level commas.
func splitTop(s string) []string {
	var out []string
	depth := 0
	cur := ""
	for _, r := range s {
		switch r {
		case '(', '[':
			depth++
		case ')', ']':
			depth--
		}
		if r == ',' && depth == 0 {
			out = append(out, strings.TrimSpace(cur))
			cur = ""
			continue
		}
		cur += string(r)
	}
	if strings.TrimSpace(cur) != "" {
		out = append(out, strings.TrimSpace(cur))
	}
	return out
}
