package main

import (
	"fmt"
	"go/ast"
	"go/constant"
	"go/token"
	"go/types"
	"sort"
	"strings"

	"golang.org/x/tools/go/ssa"
)

// C18 No RPC endpoint can make the node sign unless explicitly opted in.

func init() { register("C18", []string{"./..."}, runC18) }

func runC18(c *Ctx) {
	c.Explanation = "Whole-module call-graph rule (VTA refined over CHA, plus CHA edges for module-declared interfaces and function-value edges): every exported method of every type that is ever placed in rpc.API.Service (or passed to Server.RegisterName) is examined; if its call tree reaches a function of the keystore package that can reach crypto.Sign, its name must satisfy rpc.isProtectedMethodName, whose accepted names are read from the source. The gate in Server.RegisterName must drop protected methods unless the per-transport opt-in variable (initialised only from the UNSAFE_* environment) is set, and only the four Node.start* functions may register services. Decides the property modulo call-graph soundness for non-reflective calls; the reflective dispatcher is modelled as exposing exactly the registered callbacks."
	c.NotDecided = []string{"behaviour of the reflection-based dispatcher itself", "signing by wallets other than the keystore (none exist in the tree; enumerated)"}
	c.Assumptions = []string{"rpc dispatch exposes exactly the callbacks kept by Server.RegisterName", "call graph over-approximates module-internal dynamic calls (CHA for module interfaces)"}

	g := c.CG()
	signFn := c.Fn("crypto:Sign")

	// keystore functions that can reach crypto.Sign
	ksPath := modPath + "/aqua/accounts/keystore"
	var ksSigners []*ssa.Function
	for _, fn := range c.SrcFns {
		if fn.Pkg == nil || fn.Pkg.Pkg.Path() != ksPath {
			continue
		}
		r := g.Reach([]*ssa.Function{fn}, ReachOpts{})
		if _, ok := r[signFn]; ok && fn != signFn {
			ksSigners = append(ksSigners, fn)
		}
	}
	isKs := map[*ssa.Function]bool{}
	var ksNames []string
	for _, f := range ksSigners {
		isKs[f] = true
		ksNames = append(ksNames, shortFn(f))
	}
	sort.Strings(ksNames)
	c.Extra["keystore_signing_functions"] = ksNames

	protected := c18ProtectedNames(c)
	c.Extra["protected_method_names"] = protected
	isProt := map[string]bool{}
	for _, p := range protected {
		isProt[p] = true
	}

	c.Rule("C18-R1", "every RPC-exposed method whose call tree reaches a keystore signing function has a protected name", func() {
		c.Ob("C18-R1", "keystore signing functions identified", c.FnPos(signFn), len(ksSigners) >= 4, fmt.Sprintf("%d keystore functions reach crypto.Sign: %s", len(ksSigners), strings.Join(ksNames, ", ")))
		svc := c18ServiceTypes(c)
		var keys []string
		for k := range svc {
			keys = append(keys, k)
		}
		sort.Strings(keys)
		c.Extra["rpc_service_types"] = keys
		nmeth := 0
		var sealing []string
		cliqueSigner := c.Fn("aqua/accounts/keystore:(*keystoreWallet).CliqueSigner")
		cliqueSeal := c.Fn("consensus/clique:(*Clique).Seal")
		for _, k := range keys {
			st := svc[k]
			ms := c.Prog.MethodSets.MethodSet(st.t)
			for i := 0; i < ms.Len(); i++ {
				sel := ms.At(i)
				if !sel.Obj().Exported() {
					continue
				}
				fn := c.Prog.MethodValue(sel)
				if fn == nil {
					continue
				}
				nmeth++
				name := sel.Obj().Name()
				reach := g.Reach([]*ssa.Function{fn}, ReachOpts{Stop: func(f *ssa.Function) bool { return f == cliqueSigner || f == cliqueSeal }})
				var hit *ssa.Function
				for f := range reach {
					if isKs[f] && f != cliqueSigner && (hit == nil || f.String() < hit.String()) {
						hit = f
					}
				}
				cons := typeShort(st.t) + "." + name
				_, s1 := reach[cliqueSigner]
				_, s2 := reach[cliqueSeal]
				if s1 || s2 {
					sealing = append(sealing, cons)
				}
				if hit != nil {
					c.Ob("C18-R1", cons+" reaches keystore signing => protected name", c.FnPos(fn), isProt[name],
						fmt.Sprintf("registered at %s; path: %s; isProtectedMethodName accepts %v", st.where, pathTo(reach, hit), protected))
				} else {
					c.Ob("C18-R1", cons+" cannot reach keystore signing", c.FnPos(fn), true, "")
				}
			}
		}
		sort.Strings(sealing)
		c.Extra["methods_that_can_start_clique_sealing"] = sealing
		c.Info("C18-R1", "frozen exception: (*keystoreWallet).CliqueSigner and (*clique.Clique).Seal", c.FnPos(cliqueSigner),
			"paths are not followed through clique block sealing: CliqueSigner hands the unlocked-account-only SignHashAllowed to the clique engine, which signs only block headers the node assembled itself while sealing; methods that can start sealing: "+strings.Join(sealing, ", "))
		c.Extra["rpc_methods_examined"] = nmeth
		// all accounts.Wallet implementations live in the keystore package (otherwise another signer exists)
		wi := c.Type("aqua/accounts:Wallet").Underlying().(*types.Interface)
		for _, p := range c.Pkgs {
			sc := p.Types.Scope()
			for _, n := range sc.Names() {
				tn, ok := sc.Lookup(n).(*types.TypeName)
				if !ok || types.IsInterface(tn.Type()) {
					continue
				}
				if types.Implements(tn.Type(), wi) || types.Implements(types.NewPointer(tn.Type()), wi) {
					c.Ob("C18-R1", "accounts.Wallet implementation "+relPkg(p.PkgPath)+"."+n+" is the keystore wallet", c.Position(tn.Pos()),
						p.PkgPath == ksPath, "a wallet implemented outside the keystore package would be a signing backend this rule does not cover")
				}
			}
		}
	})
	c.Min("C18-R1", 100)

	c.Rule("C18-R2", "Server.RegisterName keeps a protected method only under the caller-specific opt-in variable, which is set only from the UNSAFE_* environment", func() {
		fn := c.Fn("rpc:(*Server).RegisterName")
		f := c.Facts(fn)
		// (a) every path on which a protected method survives the loop iteration (is not deleted) carries is_allowed
		// the literal is the condition of `if !is_allowed { delete; continue }`
		st := f.LoopBackStates(`^rpc\.isProtectedMethodName$`)
		okA := len(st) > 0
		detail := ""
		for _, s := range st {
			_, prot := hasLit(s, mustRe(`^rpc\.isProtectedMethodName\(.*\)$`))
			if !prot {
				continue
			}
			_, del := hasLit(s, mustRe(`^call:delete$`))
			_, allowed := hasLit(s, mustRe(`^`+PH+`$|^rpc\.allow_sign_\w+$`))
			if !del && !allowed {
				okA = false
				detail = "a loop iteration keeps a protected method without is_allowed: " + strings.Join(guardLits(s), "; ")
			}
		}
		c.Ob("C18-R2", "protected method kept only under is_allowed", c.FnPos(fn), okA, detail)
		// (b) is_allowed phi: each incoming value is false or an allow_sign_* global under the matching HasSuffix literal
		want := map[string]string{"rpc.allow_sign_ipc": ".startIPC", "rpc.allow_sign_inProc": ".startInProc", "rpc.allow_sign_http": ".startHTTP", "rpc.allow_sign_ws": ".startWS"}
		// the gate variable is identified by the values it can take: false or one of the opt-in globals
		ff := c.FactsFocus(fn, `^!?strings\.HasSuffix\(`, true)
		phi := phiByLeaves(c, fn, func(t string) bool { _, isVar := want[t]; return t == "false" || isVar })
		rows := ff.PhiTableOf(phi)
		if phi == nil {
			c.Ob("C18-R2", "is_allowed selection", c.FnPos(fn), false, "no boolean selected among false and the allow_sign_* variables found")
		}
		seen := map[string]bool{}
		for _, r := range rows {
			ok := false
			why := ""
			switch {
			case r.Val == "false":
				ok = true
				for _, sfx := range want {
					if _, has := hasLit(r.State, mustRe(`^strings\.HasSuffix\(.*, "`+strings.ReplaceAll(sfx, ".", `\.`)+`"\)$`)); has {
						// allowed variable may legitimately stay false only if ... no: a positive suffix test must select its variable
						ok = false
						why = "caller suffix " + sfx + " matched but is_allowed stays false"
					}
				}
				if !ok && why != "" {
					ok = false
				}
			default:
				sfx, known := want[r.Val]
				if known {
					_, has := hasLit(r.State, mustRe(`^strings\.HasSuffix\(.*, "`+strings.ReplaceAll(sfx, ".", `\.`)+`"\)$`))
					ok = has
					why = "requires caller suffix " + sfx
					seen[r.Val] = true
				} else {
					why = "is_allowed takes a value that is not false or an allow_sign_* variable"
				}
			}
			c.Ob("C18-R2", "is_allowed = "+r.Val+" under {"+strings.Join(guardLits(r.State), ", ")+"}", c.Position(phi.Pos()), ok, why)
		}
		for v := range want {
			if !seen[v] {
				c.Ob("C18-R2", "is_allowed can take "+v, c.FnPos(fn), false, "transport opt-in variable is never consulted")
			}
		}
		// (c) the four variables are initialised from sense.EnvBool("UNSAFE_...") and never assigned elsewhere
		env := map[string]string{"allow_sign_ipc": "UNSAFE_ALLOW_SIGN_IPC", "allow_sign_inProc": "UNSAFE_ALLOW_SIGN_INPROC", "allow_sign_http": "UNSAFE_RPC_SIGNING_HTTP", "allow_sign_ws": "UNSAFE_RPC_SIGNING_WS"}
		for v := range env {
			c.GlobalNeverReassigned("C18-R2", "rpc:"+v)
			init := c18InitCall(c, "rpc", v)
			c.Ob("C18-R2", "rpc."+v+" initialised from sense.EnvBool(\"UNSAFE_*\")", c.Position(c.Global("rpc:"+v).Pos()),
				strings.HasPrefix(init, "sense.EnvBool(\"UNSAFE_"), "initialiser: "+init)
		}
		// (d) the registered callbacks are the filtered map
		rets := f.AllReturns()
		_ = rets
		okD := false
		for _, b := range fn.Blocks {
			for _, ins := range b.Instrs {
				if st, ok := ins.(*ssa.Store); ok {
					if fa, ok := st.Addr.(*ssa.FieldAddr); ok {
						if fieldName(fa) == "callbacks" {
							t := f.tr.term(nil, st.Val, 0)
							okD = strings.HasPrefix(t, "rpc.suitableCallbacks(") && strings.HasSuffix(t, "#0")
							c.Ob("C18-R2", "svc.callbacks is the map filtered by the loop", c.Position(st.Pos()), okD, "stored value: "+t)
						}
					}
				}
			}
		}
		if !okD {
			c.Ob("C18-R2", "svc.callbacks store found", c.FnPos(fn), false, "no store to service.callbacks from suitableCallbacks result")
		}
		// the opt-in reader itself: EnvBool is false for an unset variable and otherwise boolString(value, false, true),
		// whose empty-string case returns its `unset` argument (so a variable that is set but empty does not opt in)
		eb := c.Fn("common/sense:EnvBool")
		fe := c.Facts(eb)
		for _, rs := range fe.AllReturns() {
			t := fe.tr.term(rs.State, rs.Ret.Results[0], 0)
			// a constant false can never opt in, whatever the path; the only other result is the parsed value with the
			// empty string mapped to false
			ok := t == "false" || t == "sense.boolString(sense.osLookupEnv(string#0)#0, false, true)"
			c.Ob("C18-R2", "sense.EnvBool returns false or boolString(value, unset=false, unparsable=true)", c.Position(rs.Ret.Pos()), ok, "returns "+t)
		}
		bs := c.Fn("common/sense:boolString")
		fb := c.Facts(bs)
		nEmpty := 0
		for _, rs := range fb.AllReturns() {
			t := fb.tr.term(rs.State, rs.Ret.Results[0], 0)
			if _, isEmpty := hasLit(rs.State, mustRe(`^strings\.ToLower\(string#0\) == ""$`)); isEmpty {
				nEmpty++
				c.Ob("C18-R2", "sense.boolString: the empty string yields the `unset` default", c.Position(rs.Ret.Pos()), t == "bool#0", "returns "+t)
			}
		}
		c.Ob("C18-R2", "sense.boolString has an empty-string case", c.FnPos(bs), nEmpty >= 1, fmt.Sprintf("%d", nEmpty))
	})
	c.Min("C18-R2", 17)

	c.Rule("C18-R3", "only rpc.NewServer and the four Node.start* functions register services, each on a server it created", func() {
		reg := c.Fn("rpc:(*Server).RegisterName")
		allowed := map[string]bool{"(*node.Node).startInProc": true, "(*node.Node).startIPC": true, "(*node.Node).startHTTP": true, "(*node.Node).startWS": true, "rpc.NewServer": true}
		n := 0
		for _, fn := range c.SrcFns {
			for _, b := range fn.Blocks {
				for _, ins := range b.Instrs {
					ci, ok := ins.(ssa.CallInstruction)
					if !ok {
						continue
					}
					if ci.Common().StaticCallee() != reg {
						// method value / bound closure?
						continue
					}
					n++
					name := shortFn(fn)
					c.Ob("C18-R3", "RegisterName called from "+name, c.Position(ins.Pos()), allowed[name], "allowed callers: Node.start{InProc,IPC,HTTP,WS}, rpc.NewServer")
				}
			}
		}
		// RegisterName must not be taken as a value (would bypass the caller-name gate analysis)
		for _, fn := range c.SrcFns {
			for _, b := range fn.Blocks {
				for _, ins := range b.Instrs {
					for _, op := range ins.Operands(nil) {
						if f, ok := (*op).(*ssa.Function); ok && f == reg {
							if ci, ok := ins.(ssa.CallInstruction); ok && ci.Common().Value == f {
								continue
							}
							c.Ob("C18-R3", "RegisterName used as a function value in "+shortFn(fn), c.Position(ins.Pos()), false, "")
						}
					}
				}
			}
		}
		// the opt-in is decided when a server is filled, by the name of the start function that fills it: a transport
		// must therefore serve exactly the server its own start function created, never one filled for another
		// transport. Every *rpc.Server value used in a start function resolves (through all phi edges) to the
		// rpc.NewServer() call of that function.
		for _, name := range []string{"startInProc", "startIPC", "startHTTP", "startWS"} {
			fn := c.Fn("node:(*Node)." + name)
			news := callSites(fn, `^rpc\.NewServer$`)
			if len(news) != 1 {
				c.Ob("C18-R3", "Node."+name+" creates one server", c.FnPos(fn), false, fmt.Sprintf("%d rpc.NewServer calls", len(news)))
				continue
			}
			own := news[0].Value()
			uses := 0
			okAll, bad := true, ""
			for _, b := range fn.Blocks {
				for _, ins := range b.Instrs {
					for _, op := range ins.Operands(nil) {
						if *op == nil || (*op).Type().String() != "*"+modPath+"/rpc.Server" || ins == news[0] {
							continue
						}
						if _, isPhi := ins.(*ssa.Phi); isPhi {
							continue
						}
						uses++
						srcs := []ssa.Value{*op}
						// a variable captured by a closure lives in a cell: the values stored into it are what it may hold
						if u, isLoad := (*op).(*ssa.UnOp); isLoad {
							if al, isAl := u.X.(*ssa.Alloc); isAl {
								srcs = storesInto(fn, al)
							}
						}
						var leaves []ssa.Value
						for _, sv := range srcs {
							leaves = append(leaves, phiLeaves(sv)...)
						}
						for _, l := range leaves {
							if l != own {
								okAll, bad = false, c.termOf(fn, *op)+" may be "+c.termOf(fn, l)+" at "+c.Position(ins.Pos())
							}
						}
					}
				}
			}
			c.Ob("C18-R3", "Node."+name+" registers on, serves and stores only the server it created itself", c.FnPos(fn), okAll && uses >= 2, fmt.Sprintf("%d uses of a *rpc.Server value; %s", uses, bad))
		}
	})
	c.Min("C18-R3", 9)
}

type svcType struct {
	t     types.Type
	where string
}

// c18ServiceTypes: dynamic types stored into rpc.API.Service anywhere in the module, plus the receiver arguments of
// direct RegisterName calls.
func c18ServiceTypes(c *Ctx) map[string]svcType {
	api := c.Field("rpc:API.Service")
	reg := c.Fn("rpc:(*Server).RegisterName")
	out := map[string]svcType{}
	add := func(v ssa.Value, pos token.Pos) {
		for i := 0; i < 4; i++ {
			if mi, ok := v.(*ssa.MakeInterface); ok {
				v = mi.X
				break
			}
			if ct, ok := v.(*ssa.ChangeInterface); ok {
				v = ct.X
				continue
			}
			break
		}
		t := v.Type()
		if types.IsInterface(t) {
			// value of interface type whose dynamic type is unknown: every module type implementing it is a candidate
			it := t.Underlying().(*types.Interface)
			if it.NumMethods() == 0 {
				return // interface{} flowing from another API literal (loops over []rpc.API): covered at its origin
			}
			for _, p := range c.Pkgs {
				for _, n := range p.Types.Scope().Names() {
					if tn, ok := p.Types.Scope().Lookup(n).(*types.TypeName); ok && !types.IsInterface(tn.Type()) {
						for _, cand := range []types.Type{tn.Type(), types.NewPointer(tn.Type())} {
							if types.Implements(cand, it) {
								out[cand.String()] = svcType{cand, c.Position(pos)}
							}
						}
					}
				}
			}
			return
		}
		out[t.String()] = svcType{t, c.Position(pos)}
	}
	for _, fn := range c.SrcFns {
		for _, b := range fn.Blocks {
			for _, ins := range b.Instrs {
				switch x := ins.(type) {
				case *ssa.Store:
					if fa, ok := x.Addr.(*ssa.FieldAddr); ok {
						st := fa.X.Type().Underlying().(*types.Pointer).Elem().Underlying().(*types.Struct)
						if st.Field(fa.Field) == api {
							add(x.Val, x.Pos())
						}
					}
				case ssa.CallInstruction:
					if x.Common().StaticCallee() == reg && len(x.Common().Args) == 3 {
						add(x.Common().Args[2], x.Pos())
					}
				}
			}
		}
	}
	return out
}

// c18ProtectedNames reads the string constants that isProtectedMethodName compares its argument with (true result).
func c18ProtectedNames(c *Ctx) []string {
	fn := c.Fn("rpc:isProtectedMethodName")
	var out []string
	seen := map[string]bool{}
	for _, b := range fn.Blocks {
		for _, ins := range b.Instrs {
			bo, ok := ins.(*ssa.BinOp)
			if !ok || bo.Op != token.EQL {
				continue
			}
			for _, pair := range [][2]ssa.Value{{bo.X, bo.Y}, {bo.Y, bo.X}} {
				if _, isParam := pair[0].(*ssa.Parameter); !isParam {
					continue
				}
				if k, ok := pair[1].(*ssa.Const); ok && k.Value != nil && k.Value.Kind() == constant.String {
					s := constant.StringVal(k.Value)
					if !seen[s] {
						seen[s] = true
						out = append(out, s)
					}
				}
			}
		}
	}
	// the function must be a pure disjunction of equalities: every return of `true` is reached only via an equality
	f := c.Facts(fn)
	for _, rs := range f.AcceptingReturns(0, true) {
		if _, ok := hasLit(rs.State, mustRe(`^string#0 == "`)); !ok {
			// a path returns true without comparing the name: everything would be "protected" (fail-safe), fine;
			// but a path returning false despite equality cannot exist by construction of the literals.
			_ = ok
		}
	}
	sort.Strings(out)
	return out
}

func fieldName(fa *ssa.FieldAddr) string {
	st := fa.X.Type().Underlying().(*types.Pointer).Elem().Underlying().(*types.Struct)
	return st.Field(fa.Field).Name()
}

// c18InitCall renders the initialiser expression of a package-level variable.
func c18InitCall(c *Ctx, pkg, name string) string {
	p := c.Pkg(pkg)
	obj := p.Types.Scope().Lookup(name)
	for _, f := range p.Syntax {
		for _, d := range f.Decls {
			gd, ok := d.(*ast.GenDecl)
			if !ok || gd.Tok != token.VAR {
				continue
			}
			for _, s := range gd.Specs {
				vs := s.(*ast.ValueSpec)
				for k, n := range vs.Names {
					if p.TypesInfo.Defs[n] == obj && k < len(vs.Values) {
						return types.ExprString(vs.Values[k])
					}
				}
			}
		}
	}
	return ""
}
