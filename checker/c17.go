package main

import (
	"fmt"
	"sort"
	"strings"

	"golang.org/x/tools/go/ssa"
)

// C17 Network input is authenticated or rejected, and never fatal.

func init() { register("C17", []string{"./..."}, runC17) }

func runC17(c *Ctx) {
	c.Explanation = "Bounds, ordering and reachability rules on the network-input functions: every slice bound and index on the received buffer in discover.decodePacket and the RLPx frame/handshake readers is implied by a dominating length guard or by a constant-size construction (finding F2, the unguarded sigdata[1+x:], was found by this rule and fixed); a discovery packet is dispatched and decoded only after its hash matched and its signature recovered, and handlers run only after decodePacket succeeded; an RLPx frame is decrypted and decoded only after the header MAC and the frame MAC matched, with the 24-bit size as the only source of the frame allocation; snappy payloads are decoded only after their declared length passed the 16 MiB limit; sub-protocol messages are decoded only after msg.Size <= ProtocolMaxMsgSize, streams are limited to msg.Size, and no decode error is swallowed on an accepting path; the set of functions containing an explicit panic reachable from the network entry points is frozen. Decides these structural conditions; cryptographic authenticity, liveness and allocation inside third-party decoders are not decided."
	c.NotDecided = []string{"cryptographic authenticity of MAC/signature schemes", "liveness (never wedges)", "memory use inside third-party decoders and header-version typestate across downloader/fetcher queues"}
	c.Assumptions = []string{"io.ReadFull fills the whole buffer or errors", "hmac.Equal/bytes.Equal compare full contents"}

	dp := c.Fn("p2p/discover:decodePacket")
	rm := c.Fn("p2p:(*rlpxFrameRW).ReadMsg")

	c.Rule("C17-R1", "every slice bound / index on a network buffer is implied by a dominating length guard", func() {
		n := c.BoundsRule("C17-R1", dp, nil)
		n += c.BoundsRule("C17-R1", rm, map[string]string{
			"slice [:p2p.readInt24(new([32]byte)[:32])] on make([]byte)": "framebuf has rsize = fsize rounded up to a multiple of 16 >= fsize elements (arithmetic: checked as shape below)",
		})
		// shape of the rounding: rsize = fsize (+ 16 - fsize%16 when fsize%16 > 0)
		{
			f := c.Facts(rm)
			okRound := false
			for _, b := range rm.Blocks {
				for _, ins := range b.Instrs {
					if p, ok := ins.(*ssa.Phi); ok && p.Comment == "rsize" && len(p.Edges) == 2 {
						a, bb := f.tr.term(nil, p.Edges[0], 0), f.tr.term(nil, p.Edges[1], 0)
						fs := "p2p.readInt24(new([32]byte)[:32])"
						okRound = (a == fs && bb == "("+fs+" + (16 - ("+fs+" % 16)))") || (bb == fs && a == "("+fs+" + (16 - ("+fs+" % 16)))")
					}
				}
			}
			c.Ob("C17-R1", "ReadMsg: frame buffer size is the frame size rounded up to 16", c.FnPos(rm), okRound, "")
		}
		n += c.BoundsRule("C17-R1", c.Fn("p2p:readInt24"), map[string]string{
			"index [0] on []byte#0": "callers pass the 32-byte header buffer (ReadMsg) - checked at the call site below",
			"index [1] on []byte#0": "same", "index [2] on []byte#0": "same",
		})
		for _, cs := range callSites(rm, `^p2p\.readInt24$`) {
			f := c.Facts(rm)
			ok := true
			for _, s := range f.At(cs) {
				if minLenOf(f, s, cs.Common().Args[0], 0) < 3 {
					ok = false
				}
			}
			c.Ob("C17-R1", "ReadMsg passes a buffer of at least 3 bytes to readInt24", c.Position(cs.Pos()), ok, "")
			n++
		}
		c.Extra["bounds_obligations"] = n
	})
	c.Min("C17-R1", 10)

	c.Rule("C17-R2", "authenticate before use", func() {
		c.MustOnAccept("C17-R2", dp, 3, false, []LitReq{
			{Name: "packet hash matches", Re: `^\[\]byte#0\[:32\] == dyn:crypto\.Keccak256\(\[\[\]byte#0\[32:\]\]\)$`},
			{Name: "signature recovered", Re: `^discover\.recoverNodeID\(dyn:crypto\.Keccak256\(\[\[\]byte#0\[97:\]\]\), \[\]byte#0\[32:97\]\)#1 == nil$`},
			{Name: "minimum packet size", Re: `^len\(\[\]byte#0\) >= 98$`},
		})
		c.MustBefore("C17-R2", dp, `^Stream\.Decode$`, 1, []LitReq{
			{Name: "decoding only after the hash matched", Re: `^\[\]byte#0\[:32\] == dyn:crypto\.Keccak256\(`},
			{Name: "decoding only after the signature was recovered", Re: `^discover\.recoverNodeID\(.*\)#1 == nil$`},
		})
		hp := c.Fn("p2p/discover:(*udp).handlePacket")
		c.MustBefore("C17-R2", hp, `^packet\.handle$`, 1, []LitReq{{Name: "handlers run only on successfully decoded packets", Re: `^discover\.decodePacket\(.*\)#3 == nil$`}})
		// each handler checks expiry first
		for _, t := range []string{"ping", "pong", "findnode", "neighbors"} {
			h := c.Fn("p2p/discover:(*" + t + ").handle")
			c.MustOnAccept("C17-R2", h, -1, false, []LitReq{{Name: t + ".handle rejects expired packets", Re: `^discover\.expired\(` + t + `#0\.Expiration\) == nil$`}})
		}
		// RLPx frames
		c.MustBefore("C17-R2", rm, `^p2p\.readInt24$`, 1, []LitReq{{Name: "frame size is read only after the header MAC matched", Re: `^p2p\.updateMAC\(rlpxFrameRW#0\.ingressMAC, rlpxFrameRW#0\.macCipher, new\(\[32\]byte\)\[:32\]\[:16\]\) == new\(\[32\]byte\)\[:32\]\[16:\]$`}})
		c.MustBefore("C17-R2", rm, `^rlp\.Decode$`, 1, []LitReq{
			{Name: "frame content is decoded only after the frame MAC matched", Re: `^p2p\.updateMAC\(rlpxFrameRW#0\.ingressMAC, rlpxFrameRW#0\.macCipher, rlpxFrameRW#0\.ingressMAC\.Sum\(nil\)\) == new\(\[32\]byte\)\[:32\]\[:16\]$`},
			{Name: "and the header MAC matched", Re: `^p2p\.updateMAC\(.*\[:16\]\) == new\(\[32\]byte\)\[:32\]\[16:\]$`},
		})
		// decrypt (XORKeyStream) calls: header after header MAC, frame after frame MAC
		f := c.Facts(rm)
		for _, cs := range callSites(rm, `^Stream\.XORKeyStream$`) {
			dst := f.tr.term(nil, cs.Common().Args[0], 0)
			re := `^p2p\.updateMAC\(.*\[:16\]\) == new\(\[32\]byte\)\[:32\]\[16:\]$`
			what := "header decrypted only after the header MAC matched"
			if !strings.HasPrefix(dst, "new([32]byte)") {
				re = `^p2p\.updateMAC\(.*\.Sum\(nil\)\) == new\(\[32\]byte\)\[:32\]\[:16\]$`
				what = "frame decrypted only after the frame MAC matched"
			}
			ok, w := allHave(f.At(cs), mustRe(re))
			c.Ob("C17-R2", "ReadMsg: "+what, c.Position(cs.Pos()), ok, w)
		}
	})
	c.Min("C17-R2", 14)

	c.Rule("C17-R3", "size limits before allocation/decoding", func() {
		f := c.Facts(rm)
		// frame buffer size derives from the 24-bit header value only
		for _, b := range rm.Blocks {
			for _, ins := range b.Instrs {
				if ms, ok := ins.(*ssa.MakeSlice); ok {
					t := f.tr.term(nil, ms.Len, 0)
					okk := t == "32" || strings.HasPrefix(t, "phi:rsize") || strings.Contains(t, "p2p.readInt24(")
					c.Ob("C17-R3", "ReadMsg allocates only the fixed header and the 24-bit sized frame", c.Position(ms.Pos()), okk, "make([]byte, "+t+")")
				}
			}
		}
		ri := c.Fn("p2p:readInt24")
		fr := c.Facts(ri)
		for _, rs := range fr.AllReturns() {
			t := fr.tr.term(rs.State, rs.Ret.Results[0], 0)
			c.Ob("C17-R3", "readInt24 returns a value below 2^24", c.Position(rs.Ret.Pos()), t == "(([]byte#0[2] | ([]byte#0[1] << 8)) | ([]byte#0[0] << 16))", t)
		}
		c.MustBefore("C17-R3", rm, `^snappy\.Decode$`, 1, []LitReq{
			{Name: "snappy payload is decoded only after its declared length passed the 16 MiB limit", Re: `^snappy\.DecodedLen\(.*\)#0 <= 16777215$`},
			{Name: "declared length could be read", Re: `^snappy\.DecodedLen\(.*\)#1 == nil$`},
		})
		c.ConstIs("C17-R3", "p2p:maxUint24", "16777215")
		hm := c.Fn("aqua:(*ProtocolManager).handleMsg")
		c.MustBefore("C17-R3", hm, `^(Msg\.Decode|rlp\.NewStream)$`, 10, []LitReq{
			{Name: "sub-protocol payloads are decoded only if msg.Size <= ProtocolMaxMsgSize", Re: `^(peer#0\.rw\.ReadMsg\(\)#0|var:msg)\.Size <= 10485760$`},
			{Name: "and the message was read successfully", Re: `^peer#0\.rw\.ReadMsg\(\)#1 == nil$`},
		})
		c.ConstIs("C17-R3", "aqua:ProtocolMaxMsgSize", "10485760")
		fh := c.Facts(hm)
		for _, cs := range callSites(hm, `^rlp\.NewStream$`) {
			a := cs.Common().Args
			c.Ob("C17-R3", "handleMsg limits every stream to the message size", c.Position(cs.Pos()), (strings.HasSuffix(fh.tr.term(nil, a[1], 0), "#0.Size") || fh.tr.term(nil, a[1], 0) == "var:msg.Size"), "limit "+fh.tr.term(nil, a[1], 0))
		}
		// base protocol
		ph := c.Fn("p2p:(*Peer).readLoop")
		_ = ph
		for _, name := range []string{"readProtocolHandshake"} {
			fn := c.FnOpt("p2p:" + name)
			if fn == nil {
				continue
			}
			c.MustBefore("C17-R3", fn, `^Msg\.Decode$`, 1, []LitReq{{Name: name + ": handshake size limited before decoding", Re: `\.Size <= 2048$`}})
		}
	})
	c.Min("C17-R3", 12)

	c.Rule("C17-R4", "decode errors are never swallowed: no accepting path of a message handler carries a failed decode", func() {
		for _, spec := range []string{"aqua:(*ProtocolManager).handleMsg", "p2p:(*rlpxFrameRW).ReadMsg", "p2p/discover:decodePacket"} {
			fn := c.Fn(spec)
			f := c.FactsFocus(fn, `Decode\(|\.List\(\)|Unmarshal|DecodedLen|ReadAll|ReadFull|== rlp\.EOL|!= rlp\.EOL|== nil$|!= nil$|^nil [!=]=`, false)
			idx := -1
			bad := ""
			n := 0
			for _, rs := range f.AcceptingReturns(idx, false) {
				n++
				for l := range rs.State.lits {
					if mustRe(`(Decode\(.*\)|\.List\(\)#1|DecodedLen\(.*\)#1|ReadAll\(.*\)#1|ReadFull\(.*\)#1) != nil$`).MatchString(l) && !strings.Contains(l, "== rlp.EOL") {
						// the stream loops end with EOL: `err == rlp.EOL` is the only non-nil decode outcome allowed to continue
						if _, eol := hasLit(rs.State, mustRe(`== rlp\.EOL$`)); eol && strings.Contains(l, "msgStream") {
							continue
						}
						if _, eol := hasLit(rs.State, mustRe(`Stream.*\.Decode\(.*\) == rlp\.EOL$`)); eol {
							continue
						}
						bad = "accepting path with " + l
					}
				}
			}
			c.Ob("C17-R4", shortFn(fn)+": no accepting path after a failed read/decode", c.FnPos(fn), bad == "" && n > 0, bad)
		}
	})
	c.Min("C17-R4", 3)

	c.Rule("C17-R5", "frozen list of functions with an explicit panic reachable from the network entry points", func() {
		roots := []*ssa.Function{c.Fn("p2p/discover:(*udp).handlePacket"), rm, c.Fn("p2p:(*Peer).handle"), c.Fn("aqua:(*ProtocolManager).handleMsg"),
			c.Fn("p2p:(*encHandshake).handleAuthMsg"), c.Fn("p2p:(*encHandshake).handleAuthResp"), c.Fn("p2p:readProtocolHandshake")}
		stop := func(f *ssa.Function) bool {
			if f.Pkg == nil {
				return false
			}
			p := relPkg(f.Pkg.Pkg.Path())
			return p == "common/log" || strings.HasPrefix(p, "common/metrics") || p == "aqua/event"
		}
		layer := map[string]bool{"p2p": true, "p2p/discover": true, "aqua": true, "rlp": true, "crypto/ecies": true, "p2p/netutil": true, "crypto": true, "core/types": true}
		all := reachablePanicsOpt(c, roots, stop, true)
		got := map[string]string{}
		for k, v := range all {
			// k is "(*pkg.T).M" or "pkg.F": keep the message-handling layer only
			name := strings.TrimLeft(k, "(*")
			pk := name
			if i := strings.LastIndex(name, "."); i >= 0 {
				pk = name[:i]
			}
			if j := strings.Index(pk, ")"); j >= 0 {
				pk = pk[:j]
			}
			if i := strings.LastIndex(pk, "."); i >= 0 && strings.Contains(pk, "/") == false && !layer[pk] {
				pk = pk[:i]
			}
			for l := range layer {
				if pk == l || strings.HasPrefix(pk, l+".") {
					got[k] = v
				}
			}
		}
		var names []string
		for k := range got {
			names = append(names, k)
		}
		sort.Strings(names)
		c.Extra["reachable_panic_functions"] = names
		for _, nme := range names {
			why, ok := c17FrozenPanics[nme]
			c.Ob("C17-R5", "explicit panic in "+nme+" is a reviewed one", "", ok, why+" | path: "+got[nme])
		}
		c.Ob("C17-R5", "reachable-panic list computed", "", len(names) > 0, fmt.Sprintf("%d functions", len(names)))
	})
	c.Min("C17-R5", 5)
}

var c17FrozenPanics = map[string]string{
	"(*core/types.Block).SetVersion":  "panics only for version 0; handleMsg passes the fork-schedule version (>= 1) of the block's own number",
	"(*core/types.Header).Hash":       "panics on an unversioned header: header-version typestate across the downloader/fetcher queues is NOT decided here (needs heap-sensitive analysis)",
	"crypto.VersionHash":              "panics on an unknown version: same typestate as Header.Hash (not decided)",
	"p2p.newPeerError":                "panics on an error code missing from the local table (programming error, not input dependent)",
	"(*p2p/discover.udp).handleReply": "no explicit panic expected here (kept for stability)",
	"p2p/discover.ListenUDP":          "local configuration",
	"(*p2p/discover.udp).send":        "encoding of a locally built packet failed (not input dependent)",
	"p2p/discover.encodePacket":       "encoding of a locally built packet",
	"p2p.Send":                        "local encoding",
}

func reachablePanicsOpt(c *Ctx, roots []*ssa.Function, stop func(*ssa.Function) bool, skipGo bool) map[string]string {
	g := c.CG()
	reach := g.Reach(roots, ReachOpts{SkipGo: skipGo, Stop: stop})
	out := map[string]string{}
	for fn := range reach {
		if fn.Pkg == nil {
			continue
		}
		for _, b := range fn.Blocks {
			for _, ins := range b.Instrs {
				if pi, ok := ins.(*ssa.Panic); ok && pi.Pos().IsValid() { // synthetic panics of blocking selects have no position
					out[shortFn(fn)] = pathTo(reach, fn)
				}
			}
		}
	}
	return out
}
