package main

import (
	"go/token"
	"strconv"
	"go/types"
	"fmt"
	"sort"
	"strings"

	"golang.org/x/tools/go/ssa"
)

// C17 Network input is authenticated or rejected, and never fatal.

func init() { register("C17", []string{"./..."}, runC17) }

func runC17(c *Ctx) {
	c.Explanation = "Bounds, ordering and reachability rules on the network-input functions: every slice bound and index on the received buffer in discover.decodePacket and the RLPx frame/handshake readers is implied by a dominating length guard or by a constant-size construction (finding F2, the unguarded sigdata[1+x:], was found by this rule and fixed); a discovery packet is dispatched and decoded only after its hash matched and its signature recovered, and handlers run only after decodePacket succeeded; an RLPx frame is decrypted and decoded only after the header MAC and the frame MAC matched, with the 24-bit size as the only source of the frame allocation; snappy payloads are decoded only after their declared length passed the 16 MiB limit; sub-protocol messages are decoded only after msg.Size <= ProtocolMaxMsgSize, streams are limited to msg.Size, and no decode error is swallowed on an accepting path; the set of functions containing an explicit panic reachable from the network entry points is frozen. Decides these structural conditions; cryptographic authenticity, liveness and allocation inside third-party decoders are not decided."
	c.NotDecided = []string{"cryptographic authenticity of MAC/signature schemes", "liveness (never wedges)", "memory use inside third-party decoders and header-version typestate across downloader/fetcher queues"}
	c.Assumptions = []string{"io.ReadFull fills the whole buffer or errors", "hmac.Equal/bytes.Equal compare full contents"}

	dp := c.Fn("p2p/discover:decodePacket")
	rm := c.Fn("p2p:(*rlpxFrameRW).ReadMsg")

	c.Rule("C17-R1", "every slice bound / index on a network buffer is implied by a dominating length guard", func() {
		n := c.BoundsRule("C17-R1", dp, nil)
		n += c.BoundsRule("C17-R1", rm, map[string]string{
			"slice [:p2p.readInt24(new([32]byte)[:32])] on make([]byte)": "framebuf has rsize = fsize rounded up to a multiple of 16 >= fsize elements (arithmetic: checked as shape below)",
		})
		// shape of the rounding: rsize = fsize (+ 16 - fsize%16 when fsize%16 > 0)
		{
			f := c.Facts(rm)
			okRound := false
			for _, b := range rm.Blocks {
				for _, ins := range b.Instrs {
					// the rounded frame size is the length of the frame buffer allocation (identified by that role)
					if p, ok := ins.(*ssa.Phi); ok && len(p.Edges) == 2 && c17IsMakeLen(rm, p) {
						a, bb := f.tr.term(nil, p.Edges[0], 0), f.tr.term(nil, p.Edges[1], 0)
						fs := "p2p.readInt24(new([32]byte)[:32])"
						okRound = (a == fs && bb == "("+fs+" + (16 - ("+fs+" % 16)))") || (bb == fs && a == "("+fs+" + (16 - ("+fs+" % 16)))")
					}
				}
			}
			c.Ob("C17-R1", "ReadMsg: frame buffer size is the frame size rounded up to 16", c.FnPos(rm), okRound, "")
		}
		n += c.BoundsRule("C17-R1", c.Fn("p2p:readInt24"), map[string]string{
			"index [0] on []byte#0": "callers pass the 32-byte header buffer (ReadMsg) - checked at the call site below",
			"index [1] on []byte#0": "same", "index [2] on []byte#0": "same",
		})
		for _, cs := range callSites(rm, `^p2p\.readInt24$`) {
			f := c.Facts(rm)
			ok := true
			for _, s := range f.At(cs) {
				if minLenOf(f, s, cs.Common().Args[0], 0) < 3 {
					ok = false
				}
			}
			c.Ob("C17-R1", "ReadMsg passes a buffer of at least 3 bytes to readInt24", c.Position(cs.Pos()), ok, "")
			n++
		}
		c.Extra["bounds_obligations"] = n
	})
	c.Min("C17-R1", 10)

	c.Rule("C17-R1b", "lookups in fixed-size tables of the message layer are in range for every index value a peer can cause", func() {
		// reviewed indexes that are computed by the node itself (never decoded from the wire), one function each
		internal := map[string]string{
			"(*p2p/discover.Table).doRevalidate":     "bucket index produced by nodeToRevalidate (random, modulo the table size)",
			"(*p2p/discover.Table).nodeToRevalidate": "bucket index taken from a random permutation of the bucket indexes",
		}
		pk := map[string]bool{"p2p": true, "p2p/discover": true, "aqua": true, "rlp": true, "p2p/netutil": true, "p2p/enr": true}
		n := 0
		for _, fn := range c.SrcFns {
			if fn.Pkg == nil || !pk[relPkg(fn.Pkg.Pkg.Path())] {
				continue
			}
			var f *Facts
			for _, b := range fn.Blocks {
				for _, ins := range b.Instrs {
					var x, idx ssa.Value
					switch i := ins.(type) {
					case *ssa.IndexAddr:
						x, idx = i.X, i.Index
					case *ssa.Index:
						x, idx = i.X, i.Index
					default:
						continue
					}
					t := x.Type().Underlying()
					if p, ok := t.(*types.Pointer); ok {
						t = p.Elem().Underlying()
					}
					arr, ok := t.(*types.Array)
					if !ok {
						continue
					}
					if _, isC := constInt(idx); isC {
						continue
					}
					n++
					if f == nil {
						f = c.Facts(fn)
					}
					it := f.tr.term(nil, idx, 0)
					cons := fmt.Sprintf("%s: %s[%s] (table of %d)", shortFn(fn), f.tr.term(nil, x, 0), it, arr.Len())
					if shortFn(fn) == "(*p2p/discover.Table).bucket" {
						// index = logdist - bucketMinDistance - 1: in range only above the minimum distance (the remote
						// chooses its node ID, hence the distance); logdist itself is at most the hash width
						okB, w := allHave(f.At(ins), mustRe(`^discover\.logdist\(.*\) > 239$`))
						c.Ob("C17-R1b", cons, c.Position(ins.Pos()), okB && mustRe(`^\(\(discover\.logdist\(.*\) - 239\) - 1\)$`).MatchString(it) && arr.Len() == 17, "guard: "+w)
						continue
					}
					if why, frozen := internal[shortFn(fn)]; frozen {
						c.Info("C17-R1b", cons+" (reviewed: index computed locally)", c.Position(ins.Pos()), why)
						continue
					}
					// (a) the index of a range loop over an array of the same length; (b) an index type that cannot exceed the table
					if strings.HasPrefix(it, "(phi:rangeindex") {
						c.Ob("C17-R1b", cons, c.Position(ins.Pos()), true, "range index")
						continue
					}
					if bt, isB := idx.Type().Underlying().(*types.Basic); isB && (bt.Kind() == types.Uint8 && arr.Len() >= 256) {
						c.Ob("C17-R1b", cons, c.Position(ins.Pos()), true, "index type cannot exceed the table")
						continue
					}
					// (c) a dominating guard idx < K with K <= table length on every path
					ok2, detail := true, ""
					states := f.At(ins)
					if len(states) == 0 {
						ok2, detail = false, "unreachable?"
					}
					for _, st := range states {
						st := st
						found := false
						sit := f.tr.term(st, idx, 0)
						for l := range st.lits {
							for _, pre := range []string{sit + " < ", sit + " <= "} {
								if strings.HasPrefix(l, pre) {
									if k, err := strconv.ParseInt(l[len(pre):], 10, 64); err == nil {
										if strings.HasSuffix(pre, "<= ") {
											k++
										}
										if k <= arr.Len() {
											found = true
										}
									}
								}
							}
						}
						if !found {
							ok2, detail = false, "no dominating guard index < "+fmt.Sprint(arr.Len())+"; literals: "+strings.Join(guardLits(st), "; ")
						}
					}
					c.Ob("C17-R1b", cons, c.Position(ins.Pos()), ok2, detail)
				}
			}
		}
		c.Extra["table_lookups"] = n
	})
	c.Min("C17-R1b", 10)

	c.Rule("C17-R2", "authenticate before use", func() {
		c.MustOnAccept("C17-R2", dp, 3, false, []LitReq{
			{Name: "packet hash matches", Re: `^\[\]byte#0\[:32\] == dyn:crypto\.Keccak256\(\[\[\]byte#0\[32:\]\]\)$`},
			{Name: "signature recovered", Re: `^discover\.recoverNodeID\(dyn:crypto\.Keccak256\(\[\[\]byte#0\[97:\]\]\), \[\]byte#0\[32:97\]\)#1 == nil$`},
			{Name: "minimum packet size", Re: `^len\(\[\]byte#0\) >= 98$`},
		})
		c.MustBefore("C17-R2", dp, `^Stream\.Decode$`, 1, []LitReq{
			{Name: "decoding only after the hash matched", Re: `^\[\]byte#0\[:32\] == dyn:crypto\.Keccak256\(`},
			{Name: "decoding only after the signature was recovered", Re: `^discover\.recoverNodeID\(.*\)#1 == nil$`},
		})
		hp := c.Fn("p2p/discover:(*udp).handlePacket")
		c.MustBefore("C17-R2", hp, `^packet\.handle$`, 1, []LitReq{{Name: "handlers run only on successfully decoded packets", Re: `^discover\.decodePacket\(.*\)#3 == nil$`}})
		// each handler checks expiry first
		for _, t := range []string{"ping", "pong", "findnode", "neighbors"} {
			h := c.Fn("p2p/discover:(*" + t + ").handle")
			c.MustOnAccept("C17-R2", h, -1, false, []LitReq{{Name: t + ".handle rejects expired packets", Re: `^discover\.expired\(` + t + `#0\.Expiration\) == nil$`}})
		}
		// RLPx frames
		c.MustBefore("C17-R2", rm, `^p2p\.readInt24$`, 1, []LitReq{{Name: "frame size is read only after the header MAC matched", Re: `^p2p\.updateMAC\(rlpxFrameRW#0\.ingressMAC, rlpxFrameRW#0\.macCipher, new\(\[32\]byte\)\[:32\]\[:16\]\) == new\(\[32\]byte\)\[:32\]\[16:\]$`}})
		c.MustBefore("C17-R2", rm, `^rlp\.Decode$`, 1, []LitReq{
			{Name: "frame content is decoded only after the frame MAC matched", Re: `^p2p\.updateMAC\(rlpxFrameRW#0\.ingressMAC, rlpxFrameRW#0\.macCipher, rlpxFrameRW#0\.ingressMAC\.Sum\(nil\)\) == new\(\[32\]byte\)\[:32\]\[:16\]$`},
			{Name: "and the header MAC matched", Re: `^p2p\.updateMAC\(.*\[:16\]\) == new\(\[32\]byte\)\[:32\]\[16:\]$`},
		})
		// decrypt (XORKeyStream) calls: header after header MAC, frame after frame MAC
		f := c.Facts(rm)
		for _, cs := range callSites(rm, `^Stream\.XORKeyStream$`) {
			dst := f.tr.term(nil, cs.Common().Args[0], 0)
			re := `^p2p\.updateMAC\(.*\[:16\]\) == new\(\[32\]byte\)\[:32\]\[16:\]$`
			what := "header decrypted only after the header MAC matched"
			if !strings.HasPrefix(dst, "new([32]byte)") {
				re = `^p2p\.updateMAC\(.*\.Sum\(nil\)\) == new\(\[32\]byte\)\[:32\]\[:16\]$`
				what = "frame decrypted only after the frame MAC matched"
			}
			ok, w := allHave(f.At(cs), mustRe(re))
			c.Ob("C17-R2", "ReadMsg: "+what, c.Position(cs.Pos()), ok, w)
		}
	})
	c.Min("C17-R2", 14)

	c.Rule("C17-R3", "size limits before allocation/decoding", func() {
		f := c.Facts(rm)
		// frame buffer size derives from the 24-bit header value only
		for _, b := range rm.Blocks {
			for _, ins := range b.Instrs {
				if ms, ok := ins.(*ssa.MakeSlice); ok {
					t := f.tr.term(nil, ms.Len, 0)
					okk := t == "32" || strings.Contains(t, "p2p.readInt24(")
					if p, isPhi := ms.Len.(*ssa.Phi); isPhi && !okk {
						okk = true
						for _, l := range phiLeaves(p) {
							if !strings.Contains(f.tr.term(nil, l, 0), "p2p.readInt24(") {
								okk = false
							}
						}
					}
					c.Ob("C17-R3", "ReadMsg allocates only the fixed header and the 24-bit sized frame", c.Position(ms.Pos()), okk, "make([]byte, "+t+")")
				}
			}
		}
		ri := c.Fn("p2p:readInt24")
		fr := c.Facts(ri)
		for _, rs := range fr.AllReturns() {
			t := fr.tr.term(rs.State, rs.Ret.Results[0], 0)
			c.Ob("C17-R3", "readInt24 returns a value below 2^24", c.Position(rs.Ret.Pos()), t == "(([]byte#0[2] | ([]byte#0[1] << 8)) | ([]byte#0[0] << 16))", t)
		}
		c.MustBefore("C17-R3", rm, `^snappy\.Decode$`, 1, []LitReq{
			{Name: "snappy payload is decoded only after its declared length passed the 16 MiB limit", Re: `^snappy\.DecodedLen\(.*\)#0 <= 16777215$`},
			{Name: "declared length could be read", Re: `^snappy\.DecodedLen\(.*\)#1 == nil$`},
		})
		c.ConstIs("C17-R3", "p2p:maxUint24", "16777215")
		hm := c.Fn("aqua:(*ProtocolManager).handleMsg")
		c.MustBefore("C17-R3", hm, `^(Msg\.Decode|rlp\.NewStream)$`, 10, []LitReq{
			{Name: "sub-protocol payloads are decoded only if msg.Size <= ProtocolMaxMsgSize", Re: `^(peer#0\.rw\.ReadMsg\(\)#0|var:\w+)\.Size <= 10485760$`},
			{Name: "and the message was read successfully", Re: `^peer#0\.rw\.ReadMsg\(\)#1 == nil$`},
		})
		c.ConstIs("C17-R3", "aqua:ProtocolMaxMsgSize", "10485760")
		fh := c.Facts(hm)
		for _, cs := range callSites(hm, `^rlp\.NewStream$`) {
			a := cs.Common().Args
			c.Ob("C17-R3", "handleMsg limits every stream to the message size", c.Position(cs.Pos()), (strings.HasSuffix(fh.tr.term(nil, a[1], 0), "#0.Size") || mustRe(`^var:\w+\.Size$`).MatchString(fh.tr.term(nil, a[1], 0))), "limit "+fh.tr.term(nil, a[1], 0))
		}
		// base protocol
		ph := c.Fn("p2p:(*Peer).readLoop")
		_ = ph
		for _, name := range []string{"readProtocolHandshake"} {
			fn := c.FnOpt("p2p:" + name)
			if fn == nil {
				continue
			}
			c.MustBefore("C17-R3", fn, `^Msg\.Decode$`, 1, []LitReq{{Name: name + ": handshake size limited before decoding", Re: `\.Size <= 2048$`}})
		}
		// GetBlockHeaders with a peer-chosen skip: the ancestor list of skip+1 hashes is built (and indexed at [skip])
		// only if origin+skip+1 did not wrap around, i.e. the wrapped sum itself is compared with the origin
		hmSkip := c.Fn("aqua:(*ProtocolManager).handleMsg")
		c.MustBefore("C17-R3", hmSkip, `^BlockChain\.GetBlockHashesFromHash$`, 1, []LitReq{
			{Name: "GetBlockHeaders: skip+1 ancestors are materialised only if origin+skip+1 > origin (no uint64 wrap-around)",
				Re: `^(\(\((.*\.Number\.Uint64\(\)) \+ new\(getBlockHeadersData\)\.Skip\) \+ 1\) > .*\.Number\.Uint64\(\)|new\(getBlockHeadersData\)\.Skip < \(18446744073709551615 - .*\.Number\.Uint64\(\)\))$`},
		})
		// the frame codec is switched to snappy only after our own (uncompressed) hello has been written: the store to
		// rw.snappy is dominated by the receive that waits for the background hello writer, or the hello may go out
		// compressed and the remote side drops the connection ("what one side writes is what the other reads")
		phs := c.Fn("p2p:(*rlpx).doProtoHandshake")
		var recvs []ssa.Instruction
		var stores []*ssa.Store
		for _, b := range phs.Blocks {
			for _, ins := range b.Instrs {
				switch x := ins.(type) {
				case *ssa.UnOp:
					if x.Op == token.ARROW {
						recvs = append(recvs, x)
					}
				case *ssa.Store:
					if fa, ok := x.Addr.(*ssa.FieldAddr); ok && fieldName(fa) == "snappy" {
						stores = append(stores, x)
					}
				}
			}
		}
		okSnappy := len(stores) >= 1
		for _, st := range stores {
			dom := false
			for _, r := range recvs {
				if instrDominates(r, st) {
					dom = true
				}
			}
			if !dom {
				okSnappy = false
			}
		}
		c.Ob("C17-R3", "doProtoHandshake enables snappy only after the hello writer has finished", c.FnPos(phs), okSnappy, fmt.Sprintf("%d stores to rw.snappy, %d channel receives", len(stores), len(recvs)))
		// the dialing side derives the session secrets from the remote's ephemeral key: handleAuthResp accepts only if that
		// key parsed (a nil key is dereferenced by secrets() in a goroutine without recover)
		ar := c.Fn("p2p:(*encHandshake).handleAuthResp")
		c.MustOnAccept("C17-R3", ar, -1, false, []LitReq{
			{Name: "handleAuthResp accepts only a parsable ephemeral public key", Re: `^p2p\.importPublicKey\(authRespV4#0\.RandomPubkey\[:\]\)#1 == nil$`},
		})
		// a message code is dispatched to the one protocol whose half-open range [offset, offset+Length) contains it
		gp := c.Fn("p2p:(*Peer).getProto")
		c.MustOnAccept("C17-R3", gp, -1, false, []LitReq{
			{Name: "getProto: code >= offset of the selected protocol", Re: `^uint64#0 >= .*\.offset$`},
			{Name: "getProto: code < offset + Length of the selected protocol (exclusive upper bound)", Re: `^(uint64#0 < \(.*\.offset \+ .*\.Length\)|\(uint64#0 - .*\.offset\) < .*\.Length)$`},
		})
	})
	c.Min("C17-R3", 16)

	c.Rule("C17-R4", "decode errors are never swallowed: no accepting path of a message handler carries a failed decode", func() {
		for _, spec := range []string{"aqua:(*ProtocolManager).handleMsg", "p2p:(*rlpxFrameRW).ReadMsg", "p2p/discover:decodePacket"} {
			fn := c.Fn(spec)
			f := c.FactsFocus(fn, `Decode\(|\.List\(\)|Unmarshal|DecodedLen|ReadAll|ReadFull|== rlp\.EOL|!= rlp\.EOL|== nil$|!= nil$|^nil [!=]=`, false)
			idx := -1
			bad := ""
			n := 0
			for _, rs := range f.AcceptingReturns(idx, false) {
				n++
				for l := range rs.State.lits {
					if mustRe(`(Decode\(.*\)|\.List\(\)#1|DecodedLen\(.*\)#1|ReadAll\(.*\)#1|ReadFull\(.*\)#1) != nil$`).MatchString(l) && !strings.Contains(l, "== rlp.EOL") {
						// the stream loops end with EOL: `err == rlp.EOL` is the only non-nil decode outcome allowed to continue
						if _, eol := hasLit(rs.State, mustRe(`== rlp\.EOL$`)); eol && strings.Contains(l, "msgStream") {
							continue
						}
						if _, eol := hasLit(rs.State, mustRe(`Stream.*\.Decode\(.*\) == rlp\.EOL$`)); eol {
							continue
						}
						bad = "accepting path with " + l
					}
				}
			}
			c.Ob("C17-R4", shortFn(fn)+": no accepting path after a failed read/decode", c.FnPos(fn), bad == "" && n > 0, bad)
		}
	})
	c.Min("C17-R4", 3)

	c.Rule("C17-R5", "frozen list of functions with an explicit panic reachable from the network entry points", func() {
		roots := []*ssa.Function{c.Fn("p2p/discover:(*udp).handlePacket"), rm, c.Fn("p2p:(*Peer).handle"), c.Fn("aqua:(*ProtocolManager).handleMsg"),
			c.Fn("p2p:(*encHandshake).handleAuthMsg"), c.Fn("p2p:(*encHandshake).handleAuthResp"), c.Fn("p2p:readProtocolHandshake")}
		stop := func(f *ssa.Function) bool {
			if f.Pkg == nil {
				return false
			}
			p := relPkg(f.Pkg.Pkg.Path())
			return p == "common/log" || strings.HasPrefix(p, "common/metrics") || p == "aqua/event"
		}
		layer := map[string]bool{"p2p": true, "p2p/discover": true, "aqua": true, "rlp": true, "crypto/ecies": true, "p2p/netutil": true, "crypto": true, "core/types": true}
		all := reachablePanicsOpt(c, roots, stop, true)
		got := map[string]string{}
		for k, v := range all {
			// k is "(*pkg.T).M" or "pkg.F": keep the message-handling layer only
			name := strings.TrimLeft(k, "(*")
			pk := name
			if i := strings.LastIndex(name, "."); i >= 0 {
				pk = name[:i]
			}
			if j := strings.Index(pk, ")"); j >= 0 {
				pk = pk[:j]
			}
			if i := strings.LastIndex(pk, "."); i >= 0 && strings.Contains(pk, "/") == false && !layer[pk] {
				pk = pk[:i]
			}
			for l := range layer {
				if pk == l || strings.HasPrefix(pk, l+".") {
					got[k] = v
				}
			}
		}
		var names []string
		for k := range got {
			names = append(names, k)
		}
		sort.Strings(names)
		c.Extra["reachable_panic_functions"] = names
		for _, nme := range names {
			why, ok := c17FrozenPanics[nme]
			c.Ob("C17-R5", "explicit panic in "+nme+" is a reviewed one", "", ok, why+" | path: "+got[nme])
		}
		c.Ob("C17-R5", "reachable-panic list computed", "", len(names) > 0, fmt.Sprintf("%d functions", len(names)))
	})
	c.Min("C17-R5", 5)

	c.Rule("C17-R6", "no input can wedge a handler by leaking a lock: every mutex acquired in the message-layer packages is released on every non-panic exit", func() {
		f, o := c.LockPairingRule("C17-R6", []string{"p2p", "p2p/discover", "p2p/netutil", "p2p/nat", "aqua", "aqua/fetcher", "aqua/downloader", "rpc", "node"}, nil, map[string]string{})
		c.Extra["lock_pairing_functions"] = f
		c.Extra["lock_pairing_operations"] = o
	})
	c.Min("C17-R6", 20)

	c.Rule("C17-R7", "what is written is what was encoded: the pooled encode buffer behind an outgoing message is recycled only when its reader hit EOF", func() {
		sp := c.Prog.Package(c.Pkg("rlp").Types)
		allowed := map[string]string{"rlp.Encode": "after the value was written out", "rlp.EncodeToBytes": "after the bytes were copied out",
			"(*rlp.encReader).Read": "at EOF", "rlp.EncodeToReader": "on an encoding error, before a reader exists"}
		n := 0
		for _, fn := range c.SrcFns {
			if fn.Pkg != sp {
				continue
			}
			for _, cs := range callSites(fn, `^Pool\.Put$`) {
				if !strings.Contains(c.termOf(fn, cs.Common().Args[0]), "encbufPool") {
					continue
				}
				n++
				why, ok := allowed[shortFn(fn)]
				c.Ob("C17-R7", shortFn(fn)+" may hand an encode buffer back to the pool", c.Position(cs.Pos()), ok, why)
			}
		}
		rd := c.Fn("rlp:(*encReader).Read")
		c.MustBefore("C17-R7", rd, `^Pool\.Put$`, 1, []LitReq{
			{Name: "encReader.Read recycles its buffer only after next() reported that no piece is left (EOF)", Re: `^(encReader#0\.next\(\)|encReader#0\.piece) == nil$`},
			{Name: "the piece tested for EOF is the one next() just returned", Re: `^store:encReader#0\.piece=encReader#0\.next\(\)$`},
		})
		c.Ob("C17-R7", "encode-buffer recycling sites found", "", n >= 3, fmt.Sprintf("%d", n))
	})
	c.Min("C17-R7", 6)
}

var c17FrozenPanics = map[string]string{
	"(*core/types.Block).SetVersion":  "panics only for version 0; handleMsg passes the fork-schedule version (>= 1) of the block's own number",
	"(*core/types.Header).Hash":       "panics on an unversioned header: header-version typestate across the downloader/fetcher queues is NOT decided here (needs heap-sensitive analysis)",
	"crypto.VersionHash":              "panics on an unknown version: same typestate as Header.Hash (not decided)",
	"p2p.newPeerError":                "panics on an error code missing from the local table (programming error, not input dependent)",
	"(*p2p/discover.udp).handleReply": "no explicit panic expected here (kept for stability)",
	"p2p/discover.ListenUDP":          "local configuration",
	"(*p2p/discover.udp).send":        "encoding of a locally built packet failed (not input dependent)",
	"p2p/discover.encodePacket":       "encoding of a locally built packet",
	"p2p.Send":                        "local encoding",
}

func reachablePanicsOpt(c *Ctx, roots []*ssa.Function, stop func(*ssa.Function) bool, skipGo bool) map[string]string {
	g := c.CG()
	reach := g.Reach(roots, ReachOpts{SkipGo: skipGo, Stop: stop})
	out := map[string]string{}
	for fn := range reach {
		if fn.Pkg == nil {
			continue
		}
		for _, b := range fn.Blocks {
			for _, ins := range b.Instrs {
				if pi, ok := ins.(*ssa.Panic); ok && pi.Pos().IsValid() { // synthetic panics of blocking selects have no position
					out[shortFn(fn)] = pathTo(reach, fn)
				}
			}
		}
	}
	return out
}

// c17IsMakeLen: p is used as the length of a make([]byte, p) in fn.
func c17IsMakeLen(fn *ssa.Function, p *ssa.Phi) bool {
	for _, b := range fn.Blocks {
		for _, ins := range b.Instrs {
			if ms, ok := ins.(*ssa.MakeSlice); ok && ms.Len == p {
				return true
			}
		}
	}
	return false
}
