package main

import (
	"fmt"
	"go/constant"
	"go/token"
	"go/types"
	"sort"
	"strings"

	"golang.org/x/tools/go/ssa"
)

// C09 State snapshots revert exactly and the state root commits to content only.

func init() { register("C09", []string{"./..."}, runC09) }

var c09Tracked = map[string]bool{
	"Account.Nonce": true, "Account.Balance": true, "Account.Root": true, "Account.CodeHash": true,
	"stateObject.code": true, "stateObject.cachedStorage": true, "stateObject.dirtyStorage": true, "stateObject.suicided": true,
	"stateObject.deleted": true, "stateObject.data": true, "stateObject.dirtyCode": true, "stateObject.touched": true,
	"StateDB.stateObjects": true, "StateDB.stateObjectsDirty": true, "StateDB.refund": true, "StateDB.logs": true, "StateDB.logSize": true, "StateDB.preimages": true,
}

func c09FieldOf(v ssa.Value) string {
	switch x := v.(type) {
	case *ssa.FieldAddr:
		pt := x.X.Type().Underlying().(*types.Pointer).Elem()
		st := pt.Underlying().(*types.Struct)
		name := "?"
		if n, ok := pt.(*types.Named); ok {
			name = n.Obj().Name()
		}
		// nested: stateObject.data.Balance -> Account.Balance
		return name + "." + st.Field(x.Field).Name()
	case *ssa.UnOp:
		return c09FieldOf(x.X)
	case *ssa.Field:
		st := x.X.Type().Underlying().(*types.Struct)
		name := "?"
		if n, ok := x.X.Type().(*types.Named); ok {
			name = n.Obj().Name()
		}
		return name + "." + st.Field(x.Field).Name()
	}
	return ""
}

type c09Info struct {
	fn       *ssa.Function
	writes   map[string]ssa.Instruction // tracked field -> one writing instruction
	journals map[string]bool            // journal entry types appended
	clears   bool
}

func runC09(c *Ctx) {
	c.Explanation = "Journal-discipline analysis of package core/state computed from go/ssa: every store to a tracked state field (account balance/nonce/code hash/root, code, cached and dirty storage, suicided/deleted/touched flags, object maps, refund, logs, preimages) lies in (i) a journaling mutator that appends, on every path before the store, a journal entry whose undo method restores the same fields, (ii) a raw setter all of whose callers are such mutators or undo methods, (iii) an undo method, or (iv) a function that invalidates the journal or builds a fresh object; every undo method uses every field of its entry on every path (so the previous value really flows back); RevertToSnapshot replays undo from the end down to the snapshot index and truncates; Copy/deepCopy copy every field or the field is in the frozen list; balances are stored as fresh integers (no aliasing of caller-owned big.Ints); map iterations on the commit path are order-insensitive; storage values are RLP-encoded trimmed and zero deletes. Decides the pairing and coverage structure; the values restored and the root function are not evaluated."
	c.NotDecided = []string{"equality of the root with the specification's Merkle-Patricia root for a content (C10 covers the trie's structural rules)", "exact value equality after revert (the rule proves each mutation is paired with an undo entry that writes the same fields from the recorded previous values)"}
	c.Assumptions = []string{"journal entries are only created by composite literals in package core/state", "a StateDB is used by one goroutine at a time"}
	sp := c.Prog.Package(c.Pkg("core/state").Types)
	var fns []*ssa.Function
	for _, fn := range c.SrcFns {
		if fn.Pkg == sp {
			fns = append(fns, fn)
		}
	}
	infos := map[*ssa.Function]*c09Info{}
	for _, fn := range fns {
		in := &c09Info{fn: fn, writes: map[string]ssa.Instruction{}, journals: map[string]bool{}}
		infos[fn] = in
		for _, b := range fn.Blocks {
			for _, ins := range b.Instrs {
				switch i := ins.(type) {
				case *ssa.Store:
					if f := c09FieldOf(i.Addr); c09Tracked[f] {
						in.writes[f] = i
					}
				case *ssa.MapUpdate:
					if f := c09FieldOf(i.Map); c09Tracked[f] {
						in.writes[f] = i
					}
				case *ssa.MakeInterface:
					if strings.HasSuffix(i.Type().String(), "state.journalEntry") {
						in.journals[typeShort(i.X.Type())] = true
					}
				case *ssa.Call:
					if b, ok := i.Call.Value.(*ssa.Builtin); ok && b.Name() == "delete" {
						if f := c09FieldOf(i.Call.Args[0]); c09Tracked[f] {
							in.writes[f] = i
						}
					}
					if cl := i.Call.StaticCallee(); cl != nil && cl.Name() == "clearJournalAndRefund" {
						in.clears = true
					}
				case *ssa.Defer:
					if cl := i.Call.StaticCallee(); cl != nil && cl.Name() == "clearJournalAndRefund" {
						in.clears = true
					}
				}
			}
		}
	}
	g := c.CG()
	// transitive write sets inside the package (through static calls)
	var tw func(fn *ssa.Function, seen map[*ssa.Function]bool) map[string]bool
	tw = func(fn *ssa.Function, seen map[*ssa.Function]bool) map[string]bool {
		out := map[string]bool{}
		if seen[fn] || infos[fn] == nil {
			return out
		}
		seen[fn] = true
		for f := range infos[fn].writes {
			out[f] = true
		}
		for _, e := range g.out[fn] {
			if e.site != nil && e.callee.Pkg == sp && !e.isGo {
				for f := range tw(e.callee, seen) {
					out[f] = true
				}
			}
		}
		return out
	}
	// undo methods by entry type
	undoOf := map[string]*ssa.Function{}
	isUndo := map[*ssa.Function]bool{}
	for _, fn := range fns {
		if fn.Name() == "undo" && fn.Signature.Recv() != nil {
			undoOf[typeShort(fn.Signature.Recv().Type())] = fn
			isUndo[fn] = true
		}
	}
	c.Extra["journal_entry_types"] = keysOfFn(undoOf)

	// frozen classification of journal-free writers (one symbol each, with reason)
	invalidating := map[string]string{
		"(*core/state.StateDB).Finalise":              "end of transaction: clears the journal (clearJournalAndRefund)",
		"(*core/state.StateDB).Commit":                "end of block: defers clearJournalAndRefund",
		"(*core/state.StateDB).Reset":                 "re-initialises the whole StateDB and clears the journal",
		"(*core/state.StateDB).DeleteSuicides":        "legacy finaliser: clears the journal",
		"(*core/state.StateDB).Copy":                  "writes only the fresh copy",
		"(*core/state.stateObject).deepCopy":          "writes only the fresh copy",
		"core/state.New":                              "constructor",
		"core/state.newObject":                        "constructor",
		"(*core/state.StateDB).clearJournalAndRefund": "the journal invalidation itself (journal, validRevisions and refund reset together)",
		"(*core/state.stateObject).updateRoot":        "finalisation helper: called from IntermediateRoot/Commit only (checked)",
		"(*core/state.stateObject).CommitTrie":        "finalisation helper: called from Commit only (checked)",
		"(*core/state.stateObject).updateTrie":        "finalisation helper: flushes dirty storage into the trie; content preserving for reads",
		"(*core/state.StateDB).deleteStateObject":     "finalisation helper: called from Finalise/IntermediateRoot/Commit (checked)",
		"(*core/state.StateDB).updateStateObject":     "finalisation helper (writes the trie only)",
		"(*core/state.stateObject).Code":              "content-preserving cache fill of code from the database",
		"(*core/state.stateObject).GetState":          "content-preserving cache fill of cachedStorage from the trie",
		"(*core/state.StateDB).getStateObject":        "content-preserving cache fill of stateObjects from the trie (via setStateObject)",
		"(*core/state.StateDB).setStateObject":        "raw setter used by getStateObject (cache fill), createObject and resetObjectChange.undo",
		"(*core/state.StateDB).MarkStateObjectDirty":  "dirty-set bookkeeping callback (onDirty); journalled through touchChange/createObjectChange",
		"(*core/state.StateDB).IntermediateRoot":      "calls Finalise first (journal cleared) then finalisation helpers",
		"(*core/state.ManagedState).SetState":         "replaces the whole managed StateDB (pool-side helper, not on the consensus path)",
	}

	c.Rule("C09-R1", "journal-before-mutate with computed undo pairing", func() {
		f4 := func(fn *ssa.Function) string { return shortFn(fn) }
		for _, fn := range fns {
			in := infos[fn]
			if len(in.writes) == 0 {
				continue
			}
			name := f4(fn)
			var ws []string
			for w := range in.writes {
				ws = append(ws, w)
			}
			sort.Strings(ws)
			pos := c.FnPos(fn)
			switch {
			case isUndo[fn]:
				c.Ob("C09-R1", name+" writes "+strings.Join(ws, ",")+": undo method", pos, true, "")
			case len(in.journals) > 0:
				// journaling mutator: the append dominates each tracked store, and the entry's undo restores the fields
				f := c.Facts(fn)
				for w, at := range in.writes {
					okDom, wit := allHave(f.At(at), mustRe(`^called:append\(.*\.journal, \[`))
					var restores []string
					covered := false
					for jt := range in.journals {
						u := undoOf[jt]
						if u == nil {
							continue
						}
						rs := tw(u, map[*ssa.Function]bool{})
						if rs[w] || (w == "stateObject.data" && (rs["Account.Balance"] || rs["Account.Nonce"])) {
							covered = true
						}
						restores = append(restores, jt)
					}
					c.Ob("C09-R1", fmt.Sprintf("%s: store to %s is journalled first and an appended entry's undo restores it", name, w), c.Position(at.Pos()), okDom && covered,
						fmt.Sprintf("append precedes store on all paths: %v (%s); entries appended: %v", okDom, wit, restores))
				}
			case invalidating[name] != "":
				c.Ob("C09-R1", name+" writes "+strings.Join(ws, ",")+" without journalling: reviewed journal-free writer", pos, true, invalidating[name])
			default:
				// raw setter: all callers must be journaling mutators whose entry restores these fields, or undo methods
				var callers []*ssa.Function
				for _, cl := range g.in[fn] {
					if cl.Synthetic == "" {
						callers = append(callers, cl)
					}
				}
				ok := len(callers) > 0
				var why []string
				for _, caller := range callers {
					ci := infos[caller]
					cname := f4(caller)
					if caller.Synthetic != "" {
						continue // promoted-method wrapper
					}
					// calls on an object under construction (fresh from newObject/createObject/deepCopy) need no journal entry of
					// their own: the whole-object create/reset entry (or nothing, for private copies) covers them
					fresh := true
					nsite := 0
					for _, e := range g.out[caller] {
						if e.callee != fn || e.site == nil || len(e.site.Common().Args) == 0 {
							continue
						}
						nsite++
						rt := c.termOf(caller, e.site.Common().Args[0])
						if !strings.HasPrefix(rt, "state.newObject(") && !strings.Contains(rt, ".createObject(") && !strings.Contains(rt, ".deepCopy(") {
							fresh = false
						}
					}
					if fresh && nsite > 0 {
						continue
					}
					switch {
					case isUndo[caller]:
					case ci != nil && len(ci.journals) > 0:
						// the journal append precedes the call on all paths
						cf := c.Facts(caller)
						for _, e := range g.out[caller] {
							if e.callee != fn || e.site == nil {
								continue
							}
							good, _ := allHave(cf.At(e.site), mustRe(`^called:append\(.*\.journal, \[`))
							cov := false
							for jt := range ci.journals {
								if u := undoOf[jt]; u != nil {
									rs := tw(u, map[*ssa.Function]bool{})
									all := true
									for w := range in.writes {
										if !rs[w] {
											all = false
										}
									}
									if all {
										cov = true
									}
								}
							}
							if !good || !cov {
								ok = false
								why = append(why, fmt.Sprintf("%s calls it: journal append precedes=%v, undo restores the fields=%v", cname, good, cov))
							}
						}
					case invalidating[cname] != "":
					default:
						ok = false
						why = append(why, cname+" calls it without journalling")
					}
				}
				if len(callers) == 0 {
					why = append(why, "no callers: an exported/unused journal-free writer")
				}
				c.Ob("C09-R1", name+" writes "+strings.Join(ws, ",")+": raw setter reached only through journalling mutators / undo", pos, ok, strings.Join(why, "; "))
			}
		}
		// the finalisation helpers are only called from the finalisers
		finalisers := map[string]bool{"(*core/state.StateDB).Finalise": true, "(*core/state.StateDB).Commit": true, "(*core/state.StateDB).IntermediateRoot": true,
			"(*core/state.StateDB).DeleteSuicides": true, "(*core/state.stateObject).updateRoot": true, "(*core/state.stateObject).CommitTrie": true, "(*core/state.stateObject).updateTrie": true,
			"(*core/state.StateDB).updateStateObject": true}
		for _, h := range []string{"(*stateObject).updateRoot", "(*stateObject).CommitTrie", "(*StateDB).deleteStateObject", "(*StateDB).updateStateObject", "(*stateObject).updateTrie"} {
			hf := c.Fn("core/state:" + h)
			for _, caller := range g.in[hf] {
				if caller.Synthetic != "" {
					continue
				}
				if shortFn(caller) == "(*core/state.StateDB).StorageTrie" {
					c.Info("C09-R1", h+" called from StorageTrie on a private deepCopy", c.FnPos(caller), "operates on a copy, not on tracked state")
					continue
				}
				c.Ob("C09-R1", h+" is called only from finalisers: "+shortFn(caller), c.FnPos(caller), finalisers[shortFn(caller)], "")
			}
		}
	})
	c.Min("C09-R1", 40)

	c.Rule("C09-R1b", "every undo method uses every field of its journal entry on every path (the recorded previous value flows back)", func() {
		exempt := map[string]string{
			"suicideChange": `getStateObject\(.*\) == nil$`,
			"touchChange":   `^(touchChange#0\.prev|touchChange#0\.account == state\.ripemd)$`,
		}
		for jt, u := range undoOf {
			st, ok := u.Signature.Recv().Type().Underlying().(*types.Struct)
			if !ok {
				continue
			}
			f := c.Facts(u)
			for i := 0; i < st.NumFields(); i++ {
				fld := st.Field(i).Name()
				isBool := isBoolType(st.Field(i).Type())
				term := jt + "#0." + fld
				ok := true
				detail := ""
				n := 0
				for _, rs := range f.AllReturns() {
					if ex := exempt[jt]; ex != "" {
						if _, has := hasLit(rs.State, mustRe(ex)); has {
							continue
						}
					}
					n++
					used := false
					for l := range rs.State.lits {
						if strings.HasPrefix(l, "called:") && strings.Contains(l, term) {
							used = true
						}
					}
					if !used {
						// stores
						for _, b := range u.Blocks {
							for _, ins := range b.Instrs {
								if s, isStore := ins.(*ssa.Store); isStore && strings.Contains(f.tr.term(nil, s.Val, 0), term) {
									// the store must lie on this path: approximate by dominance of the return
									if instrDominates(s, rs.Ret) {
										used = true
									}
								}
							}
						}
					}
					if !used && isBool {
						// a flag may steer the restoration through a branch condition
						for l := range rs.State.lits {
							if !strings.HasPrefix(l, "call") && strings.Contains(l, term) {
								used = true
							}
						}
					}
					if !used {
						ok = false
						detail = "a path of undo does not pass " + term + " to any setter/store; literals: " + strings.Join(guardLits(rs.State), "; ")
					}
				}
				c.Ob("C09-R1b", jt+".undo uses field "+fld+" on every path", c.FnPos(u), ok && n > 0, detail)
			}
		}
	})
	c.Min("C09-R1b", 18)

	c.Rule("C09-R2", "revert shape: undo is replayed from the end of the journal down to the snapshot index, then journal and revisions are truncated", func() {
		rv := c.Fn("core/state:(*StateDB).RevertToSnapshot")
		f := c.Facts(rv)
		// loop: i starts at len(journal)-1, decrements, guard i >= snapshot
		// the loop index is the value indexing the journal at the undo call (identified by role, not by name)
		var phi *ssa.Phi
		for _, s := range callSites(rv, `^journalEntry\.undo$`) {
			if _, idx := indexBase(s.Common().Value); idx != nil {
				if p, ok := idx.(*ssa.Phi); ok {
					phi = p
				}
			}
		}
		okLoop := false
		detail := ""
		if phi != nil && len(phi.Edges) == 2 {
			a, b := f.tr.term(nil, phi.Edges[0], 0), f.tr.term(nil, phi.Edges[1], 0)
			okLoop = a == "(len(StateDB#0.journal) - 1)" && b == "("+f.tr.term(nil, phi, 0)+" - 1)"
			detail = "i := " + a + "; step " + b
		}
		c.Ob("C09-R2", "RevertToSnapshot: loop runs i = len(journal)-1 downwards", c.FnPos(rv), okLoop, detail)
		c.MustBefore("C09-R2", rv, `^journalEntry\.undo$`, 1, []LitReq{
			{Name: "undo is applied to journal[i] for i >= snapshot index", Re: `^` + PH + ` >= StateDB#0\.validRevisions\[.*\]\.journalIndex$`},
		})
		for _, s := range callSites(rv, `^journalEntry\.undo$`) {
			t := f.tr.term(nil, s.Common().Value, 0)
			c.Ob("C09-R2", "RevertToSnapshot: the entry undone is journal[i]", c.Position(s.Pos()), phi != nil && t == "StateDB#0.journal["+f.tr.term(nil, phi, 0)+"]", "receiver "+t)
		}
		c.storeIs("C09-R2", rv, "journal", `^StateDB#0\.journal\[:StateDB#0\.validRevisions\[.*\]\.journalIndex\]$`, "journal truncated to the snapshot index")
		c.storeIs("C09-R2", rv, "validRevisions", `^StateDB#0\.validRevisions\[:.*\]$`, "later revisions dropped")
		sn := c.Fn("core/state:(*StateDB).Snapshot")
		fs := c.Facts(sn)
		okS := false
		for _, rs := range fs.AllReturns() {
			if _, has := hasLit(rs.State, mustRe(`^called:append\(StateDB#0\.validRevisions, \[.*\]\)$`)); has {
				okS = true
			}
		}
		c.Ob("C09-R2", "Snapshot records a revision", c.FnPos(sn), okS, "")
		// the revision stores len(journal)
		found := false
		for _, b := range sn.Blocks {
			for _, ins := range b.Instrs {
				if st, ok := ins.(*ssa.Store); ok {
					if fa, ok := st.Addr.(*ssa.FieldAddr); ok && fieldName(fa) == "journalIndex" {
						found = fs.tr.term(nil, st.Val, 0) == "len(StateDB#0.journal)"
					}
				}
			}
		}
		c.Ob("C09-R2", "Snapshot's revision records len(journal)", c.FnPos(sn), found, "")
	})
	c.Min("C09-R2", 7)

	c.Rule("C09-R3", "copy completeness: Copy and deepCopy carry every field over, or the field is in the frozen list with a reason", func() {
		c09CopyRule(c, "core/state:(*StateDB).Copy", "core/state:StateDB", map[string]string{
			"journal": "snapshots of the original cannot be applied to the copy", "validRevisions": "same", "nextRevisionId": "same",
			"thash": "per-transaction scratch set by Prepare", "bhash": "same", "txIndex": "same", "dbErr": "error memo of the original", "lock": "a mutex is never copied",
		})
		c09CopyRule(c, "core/state:(*stateObject).deepCopy", "core/state:stateObject", map[string]string{
			"touched": "only meaningful together with the journal (touchChange)", "onDirty": "re-bound to the copy's dirty tracker by newObject",
			"dbErr": "error memo of the original", "addrHash": "derived from address in newObject", "address": "set by newObject", "data": "set by newObject (Account copied by value)", "db": "set by newObject",
			"originStorage": "n/a",
		})
		// balance integers are stored as fresh copies
		for _, m := range []string{"AddBalance", "SubBalance"} {
			fn := c.Fn("core/state:(*stateObject)." + m)
			for _, s := range callSites(fn, `^stateObject\.SetBalance$`) {
				t := c.termOf(fn, s.Common().Args[1])
				c.Ob("C09-R3", "stateObject."+m+" stores a freshly allocated balance (no aliasing of caller-owned integers)", c.Position(s.Pos()),
					strings.HasPrefix(t, "new(Int)"), "SetBalance("+t+")")
			}
			if len(callSites(fn, `^stateObject\.SetBalance$`)) != 1 {
				c.Ob("C09-R3", "stateObject."+m+" funnels into one SetBalance", c.FnPos(fn), false, "")
			}
		}
		na := c.Fn("core/state:newObject")
		okNil := false
		for _, b := range na.Blocks {
			for _, ins := range b.Instrs {
				if st, ok := ins.(*ssa.Store); ok && c09FieldOf(st.Addr) == "Account.Balance" {
					okNil = strings.HasPrefix(c.termOf(na, st.Val), "new(Int)")
				}
			}
		}
		c.Ob("C09-R3", "newObject replaces a nil balance by a fresh zero", c.FnPos(na), okNil, "")
	})
	c.Min("C09-R3", 20)

	c.Rule("C09-R4", "history independence: map iteration on the commit path is order-insensitive; storage encoding is canonical; tries are keyed by hashes", func() {
		for _, spec := range []string{"core/state:(*stateObject).updateTrie", "core/state:(*StateDB).Finalise", "core/state:(*StateDB).Commit", "core/state:(*StateDB).Copy",
			"core/state:(Storage).Copy", "core/state:(*StateDB).IntermediateRoot", "core/state:(*StateDB).DeleteSuicides"} {
			fn := c.FnOpt(spec)
			if fn == nil {
				c.Ob("C09-R4", spec+" exists", "", false, "")
				continue
			}
			c.MapRangeRule("C09-R4", fn)
		}
		ut := c.Fn("core/state:(*stateObject).updateTrie")
		c.MustBefore("C09-R4", ut, `^Trie\.TryDelete$`, 1, []LitReq{{Name: "zero storage values are deleted from the trie", Re: `== zero\(Hash\)$`}})
		c.MustBefore("C09-R4", ut, `^Trie\.TryUpdate$`, 1, []LitReq{{Name: "non-zero storage values are written", Re: `!= zero\(Hash\)$`}})
		for _, s := range callSites(ut, `^Trie\.TryUpdate$`) {
			t := c.termOf(ut, s.Common().Args[1])
			c.Ob("C09-R4", "storage value is RLP(trim-left-zeros(value))", c.Position(s.Pos()), strings.HasPrefix(t, `rlp.EncodeToBytes(bytes.TrimLeft(`) && strings.Contains(t, `"\x00"`), "value "+t)
		}
		// the state database hands out secure (hashed-key) tries
		for _, m := range []string{"OpenTrie", "OpenStorageTrie"} {
			fn := c.Fn("core/state:(*cachingDB)." + m)
			ok := len(callSites(fn, `^trie\.NewSecure$`)) >= 1
			c.Ob("C09-R4", "cachingDB."+m+" opens a SecureTrie (keys hashed)", c.FnPos(fn), ok, "")
		}
		// reopening a committed root: the recent-tries cache may only serve a trie that still hashes to the requested
		// root (the committing StateDB keeps mutating the very object that was pushed), and always as a copy -
		// unless the cache stores private copies in the first place
		ot := c.Fn("core/state:(*cachingDB).OpenTrie")
		fo := c.Facts(ot)
		pushesCopy := false
		if pt := c.FnOpt("core/state:(*cachingDB).pushTrie"); pt != nil {
			pushesCopy = true
			n := 0
			for _, caller := range c.SrcFns {
				for _, cs := range callSitesOf(caller, pt) {
					n++
					for _, a := range cs.Common().Args[1:] {
						if strings.Contains(a.Type().String(), "SecureTrie") && methodRecv(a, "Copy") == nil {
							pushesCopy = false
						}
					}
				}
			}
			if n == 0 {
				pushesCopy = false
			}
		}
		nhit := 0
		for _, rs := range fo.AcceptingReturns(-1, false) {
			served := ""
			for l := range rs.State.lits {
				if strings.HasPrefix(l, "store:") && strings.Contains(l, ".SecureTrie=") {
					served = l[strings.Index(l, "=")+1:]
				}
			}
			if served == "" || strings.HasPrefix(served, "trie.NewSecure(") {
				continue
			}
			nhit++
			isCopy := strings.HasSuffix(served, ".Copy()")
			src := strings.TrimSuffix(served, ".Copy()")
			validated := rs.State.lits[src+".Hash() == Hash#0"]
			c.Ob("C09-R4", "cachingDB.OpenTrie serves a cached trie only as a copy and only if it (still) hashes to the requested root", c.Position(rs.Ret.Pos()),
				isCopy && (validated || pushesCopy), "serves "+served+"; guard literals: "+strings.Join(guardLits(rs.State), "; "))
		}
		c.Ob("C09-R4", "cachingDB.OpenTrie cache-hit path found", c.FnPos(ot), nhit >= 1, fmt.Sprintf("%d", nhit))
	})
	c.Min("C09-R4", 14)

	c.Rule("C09-R5", "dirty-tracking protocol: an object is in the dirty set exactly when its onDirty callback has fired (is nil)", func() {
		sp := c.Prog.Package(c.Pkg("core/state").Types)
		mark := c.Fn("core/state:(*StateDB).MarkStateObjectDirty")
		isField := func(v ssa.Value, name string) *ssa.FieldAddr {
			if u, ok := v.(*ssa.UnOp); ok {
				v = u.X
			}
			if fa, ok := v.(*ssa.FieldAddr); ok && fieldName(fa) == name {
				return fa
			}
			return nil
		}
		nFire, nDel, nIns, nDirect := 0, 0, 0, 0
		for _, fn := range c.SrcFns {
			if fn.Pkg != sp {
				continue
			}
			// (a) marking goes through the callback only (which disarms it): no direct call of MarkStateObjectDirty
			for _, cs := range callSitesOf(fn, mark) {
				if fn.Synthetic != "" {
					continue
				}
				nDirect++
				c.Ob("C09-R5", shortFn(fn)+" marks an object dirty directly, leaving its callback armed (touch() then records prevDirty=false for a dirty object)", c.Position(cs.Pos()), false, "")
			}
			for _, b := range fn.Blocks {
				for i, ins := range b.Instrs {
					switch x := ins.(type) {
					case *ssa.Store:
						// (b) disarming (onDirty = nil) happens only right after the callback was invoked
						fa, isFA := x.Addr.(*ssa.FieldAddr)
						if !isFA || fieldName(fa) != "onDirty" || !isNilConst(x.Val) {
							continue
						}
						nFire++
						fired := false
						for _, prev := range b.Instrs[:i] {
							if call, isCall := prev.(*ssa.Call); isCall && call.Call.StaticCallee() == nil && !call.Call.IsInvoke() {
								if f2 := isField(call.Call.Value, "onDirty"); f2 != nil && f2.X == fa.X {
									fired = true
								}
							}
						}
						c.Ob("C09-R5", shortFn(fn)+": the callback is disarmed only after it was invoked (marked dirty)", c.Position(x.Pos()), fired, "")
					case *ssa.MapUpdate:
						if isField(x.Map, "stateObjectsDirty") == nil {
							continue
						}
						nIns++
						ok, why := fn == mark, ""
						if shortFn(fn) == "(*core/state.StateDB).Copy" {
							// the copy inserts its objects as dirty: they must be created disarmed
							ok = true
							for _, cs := range callSites(fn, `^stateObject\.deepCopy$`) {
								if !isNilConst(cs.Common().Args[2]) {
									ok, why = false, "copied objects are inserted as dirty but carry an armed callback: "+c.termOf(fn, cs.Common().Args[2])
								}
							}
						}
						c.Ob("C09-R5", shortFn(fn)+": objects enter the dirty set only through the callback (or are created disarmed)", c.Position(x.Pos()), ok, why)
					case *ssa.Call:
						bi, isB := x.Call.Value.(*ssa.Builtin)
						if !isB || bi.Name() != "delete" || isField(x.Call.Args[0], "stateObjectsDirty") == nil {
							continue
						}
						// (d) leaving the dirty set: the object is dropped from the cache or its callback is re-armed
						nDel++
						ok := false
						for _, other := range b.Instrs {
							switch y := other.(type) {
							case *ssa.Call:
								if b2, isB2 := y.Call.Value.(*ssa.Builtin); isB2 && b2.Name() == "delete" && isField(y.Call.Args[0], "stateObjects") != nil {
									ok = true
								}
							case *ssa.Store:
								if fa, isFA := y.Addr.(*ssa.FieldAddr); isFA && fieldName(fa) == "onDirty" && !isNilConst(y.Val) {
									ok = true
								}
							}
						}
						c.Ob("C09-R5", shortFn(fn)+": an object leaving the dirty set is dropped from the cache or gets its callback re-armed", c.Position(x.Pos()), ok,
							"otherwise later writes to the object are never marked dirty again and are lost at the next commit")
					}
				}
			}
		}
		c.Ob("C09-R5", "dirty-tracking sites found", "", nFire >= 6 && nDel >= 4 && nIns >= 2, fmt.Sprintf("%d fire/disarm sites, %d deletions, %d insertions, %d direct marks", nFire, nDel, nIns, nDirect))
	})
	c.Min("C09-R5", 12)

	c.Rule("C09-R6", "flush marks: a storage slot or code that differs from the committed trie stays marked until it is flushed", func() {
		// The live reads come from cachedStorage / code, the root and the reopened state from what updateTrie / Commit
		// flush, and they flush only what dirtyStorage / dirtyCode name. So a write to the cache that is not mirrored
		// in the marks (or a mark removed before the flush) makes root and reopened state depend on history.
		mapField := func(v ssa.Value) (string, ssa.Value) {
			if u, ok := v.(*ssa.UnOp); ok && u.Op == token.MUL {
				if fa, ok := u.X.(*ssa.FieldAddr); ok {
					return fieldName(fa), fa.X
				}
			}
			return "", nil
		}
		fillers := map[string]string{"(*core/state.stateObject).GetState": "cache fill with the value just read from the committed trie"}
		wholeField := map[string]bool{"core/state.newObject": true, "(*core/state.stateObject).deepCopy": true}
		nCache, nDel, nCode := 0, 0, 0
		for _, fn := range fns {
			name := shortFn(fn)
			var retBlocks []*ssa.BasicBlock
			for _, b := range fn.Blocks {
				if len(b.Instrs) > 0 {
					if _, ok := b.Instrs[len(b.Instrs)-1].(*ssa.Return); ok {
						retBlocks = append(retBlocks, b)
					}
				}
			}
			for _, b := range fn.Blocks {
				for _, ins := range b.Instrs {
					switch x := ins.(type) {
					case *ssa.MapUpdate:
						fld, base := mapField(x.Map)
						if fld != "cachedStorage" {
							continue
						}
						nCache++
						if why, ok := fillers[name]; ok {
							c.Ob("C09-R6", name+": cachedStorage written without a dirty mark: reviewed cache fill", c.Position(x.Pos()), true, why)
							continue
						}
						// the mirror lies on every path through the cache write: same block, a dominating block,
						// or a block no path from the write to a return avoids
						mirrored := false
						for _, b2 := range fn.Blocks {
							for _, ins2 := range b2.Instrs {
								y, ok := ins2.(*ssa.MapUpdate)
								if !ok {
									continue
								}
								if f2, base2 := mapField(y.Map); f2 != "dirtyStorage" || base2 != base || y.Key != x.Key || y.Value != x.Value {
									continue
								}
								switch {
								case b2 == b, b2.Dominates(b):
									mirrored = true
								default:
									escapes := false
									for _, rb := range retBlocks {
										if rb != b2 && reaches(b, rb, b2) {
											escapes = true
										}
									}
									if !escapes && len(retBlocks) > 0 {
										mirrored = true
									}
								}
							}
						}
						c.Ob("C09-R6", name+": a write to cachedStorage is mirrored in dirtyStorage (same key, same value, same path)", c.Position(x.Pos()), mirrored, "")
					case *ssa.Call:
						if bi, ok := x.Call.Value.(*ssa.Builtin); ok && bi.Name() == "delete" && len(x.Call.Args) == 2 {
							if fld, _ := mapField(x.Call.Args[0]); fld == "dirtyStorage" {
								nDel++
								c.Ob("C09-R6", name+": a dirty-storage mark is removed only by the flush (updateTrie)", c.Position(x.Pos()), name == "(*core/state.stateObject).updateTrie", "")
							}
						}
					case *ssa.Store:
						fa, ok := x.Addr.(*ssa.FieldAddr)
						if !ok || typeShort(fa.X.Type()) != "stateObject" {
							continue
						}
						switch fieldName(fa) {
						case "dirtyStorage":
							c.Ob("C09-R6", name+": the dirty-storage set is replaced as a whole only when an object is built or copied", c.Position(x.Pos()), wholeField[name], "")
						case "dirtyCode":
							nCode++
							k, isConst := x.Val.(*ssa.Const)
							switch {
							case isConst && k.Value != nil && constant.BoolVal(k.Value):
								dom := len(retBlocks) > 0
								for _, rb := range retBlocks {
									if !b.Dominates(rb) {
										dom = false
									}
								}
								_, onRecv := fa.X.(*ssa.Parameter)
								c.Ob("C09-R6", name+": dirtyCode is set on every path of the code setter", c.Position(x.Pos()), dom && onRecv, "")
							case isConst:
								c.Ob("C09-R6", name+": dirtyCode is cleared only by Commit (after the code was written, C04-R2)", c.Position(x.Pos()), name == "(*core/state.StateDB).Commit", "")
							default:
								fld, _ := mapField(x.Val)
								c.Ob("C09-R6", name+": dirtyCode takes a computed value only as a copy of another object's flag", c.Position(x.Pos()), wholeField[name] && fld == "dirtyCode", c.termOf(fn, x.Val))
							}
						case "code":
							// a code setter on the receiver also raises the flag (cache fill in Code() and copies exempt)
							if _, onRecv := fa.X.(*ssa.Parameter); onRecv && name != "(*core/state.stateObject).Code" {
								c.Ob("C09-R6", name+": storing the receiver's code raises dirtyCode in the same function", c.Position(x.Pos()), writesField(fn, "dirtyCode"), "")
							}
						}
					}
				}
			}
		}
		c.Ob("C09-R6", "flush-mark sites found", "", nCache >= 2 && nDel >= 1 && nCode >= 3, fmt.Sprintf("%d cache writes, %d mark removals, %d dirtyCode stores", nCache, nDel, nCode))
	})
	c.Min("C09-R6", 8)

	c.Rule("C09-R7", "a journal entry records the live value: each prev* field is read from the state it will restore, at journaling time", func() {
		// frozen table (entry type . field -> accepted renderings), one line per field, confirmed by reading
		want := map[string]string{
			"balanceChange.prev":        `^new\(Int\)\.Set\(stateObject#0\.data\.Balance\)$`,
			"nonceChange.prev":          `^stateObject#0\.data\.Nonce$`,
			"codeChange.prevhash":       `^stateObject#0\.CodeHash\(\)$`,
			"codeChange.prevcode":       `^stateObject#0\.Code\(stateObject#0\.db\.db\)$`,
			"storageChange.prevalue":    `^stateObject#0\.GetState\(Database#0, Hash#0\)$`,
			"suicideChange.prev":        `^StateDB#0\.getStateObject\(Address#0\)\.suicided$`,
			"suicideChange.prevbalance": `^new\(Int\)\.Set\(StateDB#0\.getStateObject\(Address#0\)\.Balance\(\)\)$`,
			"refundChange.prev":         `^StateDB#0\.refund$`,
			"touchChange.prev":          `^stateObject#0\.touched$`,
			"touchChange.prevDirty":     `^\(?(stateObject#0\.onDirty == nil|nil == stateObject#0\.onDirty)\)?$`,
			"resetObjectChange.prev":    `^StateDB#0\.getStateObject\(Address#0\)$`,
		}
		seen := map[string]bool{}
		for _, fn := range fns {
			if isUndo[fn] {
				continue
			}
			for _, b := range fn.Blocks {
				for _, ins := range b.Instrs {
					st, ok := ins.(*ssa.Store)
					if !ok {
						continue
					}
					fa, ok := st.Addr.(*ssa.FieldAddr)
					if !ok || !strings.HasPrefix(fieldName(fa), "prev") {
						continue
					}
					ty := typeShort(fa.X.Type())
					if undoOf[ty] == nil {
						continue
					}
					key := ty + "." + fieldName(fa)
					t := c.termOf(fn, st.Val)
					re, known := want[key]
					seen[key] = true
					c.Ob("C09-R7", shortFn(fn)+": "+key+" is the live value at journaling time", c.Position(st.Pos()), known && mustRe(re).MatchString(t), "recorded: "+t)
				}
			}
		}
		c.Ob("C09-R7", "journal entries with previous values found", "", len(seen) >= 9, fmt.Sprintf("%v", keysOfBool(seen)))
	})
	c.Min("C09-R7", 9)

	c.Rule("C09-R8", "an account leaves the trie at a boundary only if it self-destructed or was touched (dirty) and is empty under EIP-158 deletion", func() {
		// an empty account that was merely read must stay: deleting it makes the root depend on which accounts happened
		// to be loaded into the cache (history), not on content
		sui := `^[^!].*\.suicided$`
		for _, n := range []string{"Finalise", "Commit"} {
			fn := c.Fn("core/state:(*StateDB)." + n)
			c.MustBefore("C09-R8", fn, `^StateDB\.deleteStateObject$`, 1, []LitReq{
				{Name: "deleted without self-destruct only under deleteEmptyObjects", Unless: sui, Re: `^bool#0$`},
				{Name: "deleted without self-destruct only if empty", Unless: sui, Re: `^[^!].*\.empty\(\)$`},
				{Name: "deleted without self-destruct only if dirty in this period", Unless: sui,
					Re: `^(StateDB#0\.stateObjectsDirty\[.*\]#1|StateDB#0\.stateObjects\[next\(range\(StateDB#0\.stateObjectsDirty\)\)#1\]\.empty\(\))$`},
			})
		}
	})
	c.Min("C09-R8", 6)
}

func keysOfFn(m map[string]*ssa.Function) []string {
	var out []string
	for k := range m {
		out = append(out, k)
	}
	sort.Strings(out)
	return out
}

// c09CopyRule: every field of the struct is assigned in the copy function (composite literal key or store) or exempt.
func c09CopyRule(c *Ctx, fnSpec, typeSpec string, exempt map[string]string) {
	fn := c.Fn(fnSpec)
	st := c.Type(typeSpec).Underlying().(*types.Struct)
	assigned := map[string]bool{}
	for _, b := range fn.Blocks {
		for _, ins := range b.Instrs {
			if s, ok := ins.(*ssa.Store); ok {
				if fa, ok := s.Addr.(*ssa.FieldAddr); ok {
					pt := fa.X.Type().Underlying().(*types.Pointer).Elem()
					if types.Identical(pt.Underlying(), st) {
						// only stores into the *new* object count: base is an allocation or a constructor result, not the receiver
						if _, isParam := fa.X.(*ssa.Parameter); !isParam {
							assigned[fieldName(fa)] = true
						}
					}
				}
			}
		}
	}
	for i := 0; i < st.NumFields(); i++ {
		n := st.Field(i).Name()
		_, ex := exempt[n]
		c.Ob("C09-R3", fmt.Sprintf("%s: field %s is copied or exempt", shortFn(fn), n), c.Position(st.Field(i).Pos()), assigned[n] || ex,
			fmt.Sprintf("assigned=%v exempt reason=%q", assigned[n], exempt[n]))
	}
}
