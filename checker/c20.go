package main

import (
	"fmt"
	"sort"
	"strings"

	"golang.org/x/tools/go/ssa"
)

// C20 Keystore encryption round-trips and rejects wrong passphrases and tampering.

func init() { register("C20", []string{"./..."}, runC20) }

func runC20(c *Ctx) {
	c.Explanation = "Ordering, writer/reader agreement and input-coverage rules for the passphrase keystore: in decryptKeyV3 and decryptKeyV1 the cipher call is reached only after the MAC keccak(derivedKey[16:32] || ciphertext) matched; EncryptKey and the decryptors agree on key split, cipher name, scrypt constants, version and 32-byte key padding, and both feed the passphrase bytes unmodified into the KDF; the address of a decrypted key is derived from the decrypted private key, never read from the file; every input of the plaintext computation must be an input of the MAC or be re-validated afterwards - the IV is not (known finding F8: inherent to the Web3 secret-storage format), while GetKey re-checks the derived address against the requested account, and every KeyStore operation except Import obtains keys through that check. Decides structure; strength of KDF/cipher and round-trip equality for all keys are not decided."
	c.NotDecided = []string{"strength of scrypt/pbkdf2/AES/keccak", "exact round-trip for all keys and passphrases (the structural agreement of writer and reader is decided)", "panics on type-confused JSON (KDFParams type assertions): outside the single-character alteration model"}
	c.Assumptions = []string{"crypto.ToECDSAUnsafe/PubkeyToAddress are correct", "hex decoding is injective"}
	ks := "aqua/accounts/keystore"

	c.Rule("C20-R1", "MAC before decrypt, both key-file versions", func() {
		for _, v := range []struct{ fn, cipher, typ string }{{"decryptKeyV3", `^keystore\.aesCTRXOR$`, "encryptedKeyJSONV3"}, {"decryptKeyV1", `^keystore\.aesCBCDecrypt$`, "encryptedKeyJSONV1"}} {
			fn := c.Fn(ks + ":" + v.fn)
			dk := `keystore\.getKDFKey\(` + v.typ + `#0\.Crypto, string#0\)#0`
			c.MustBefore("C20-R1", fn, v.cipher, 1, []LitReq{
				{Name: "MAC over derivedKey[16:32] and the ciphertext equals the stored MAC", Re: `^dyn:crypto\.Keccak256\(\[` + dk + `\[16:32\], hex\.DecodeString\(` + v.typ + `#0\.Crypto\.CipherText\)#0\]\) == hex\.DecodeString\(` + v.typ + `#0\.Crypto\.MAC\)#0$`},
				{Name: "key derivation succeeded", Re: `^keystore\.getKDFKey\(.*\)#1 == nil$`},
			})
			// accepting returns deliver the cipher's output
			f := c.Facts(fn)
			n := 0
			for _, rs := range f.AcceptingReturns(-1, false) {
				n++
				t := f.tr.term(rs.State, rs.Ret.Results[0], 0)
				c.Ob("C20-R1", v.fn+" returns the plaintext of the MAC-checked ciphertext", c.Position(rs.Ret.Pos()), strings.HasPrefix(t, "keystore.aes") && strings.HasSuffix(t, "#0"), "returns "+t)
			}
			if n == 0 {
				c.Ob("C20-R1", v.fn+" has an accepting return", c.FnPos(fn), false, "")
			}
		}
	})
	c.Min("C20-R1", 6)

	c.Rule("C20-R2", "writer/reader agreement", func() {
		ek := c.Fn(ks + ":EncryptKey")
		f := c.Facts(ek)
		dk := `scrypt.Key(string#0, randentropy.GetEntropyCSPRNG(32), int#0, 8, int#1, 32)#0`
		for _, cs := range callSites(ek, `^scrypt\.Key$`) {
			a := cs.Common().Args
			got := fmt.Sprintf("scrypt.Key(%s, %s, %s, %s, %s, %s)", f.tr.term(nil, a[0], 0), f.tr.term(nil, a[1], 0), f.tr.term(nil, a[2], 0), f.tr.term(nil, a[3], 0), f.tr.term(nil, a[4], 0), f.tr.term(nil, a[5], 0))
			c.Ob("C20-R2", "EncryptKey derives the key from the unmodified passphrase bytes, a 32-byte random salt, r=8, dkLen=32", c.Position(cs.Pos()), got+"#0" == dk, got)
		}
		for _, cs := range callSites(ek, `^keystore\.aesCTRXOR$`) {
			a := cs.Common().Args
			k, d := f.tr.term(nil, a[0], 0), f.tr.term(nil, a[1], 0)
			c.Ob("C20-R2", "EncryptKey encrypts the 32-byte padded private scalar with derivedKey[:16]", c.Position(cs.Pos()),
				k == dk+"[:16]" && d == "math.PaddedBigBytes(Key#0.PrivateKey.ToECDSA().D, 32)", "aesCTRXOR("+k+", "+d+", iv)")
		}
		for _, cs := range callSites(ek, `^dyn:crypto\.Keccak256$`) {
			t := f.tr.term(nil, cs.Common().Args[0], 0)
			c.Ob("C20-R2", "EncryptKey MACs derivedKey[16:32] || ciphertext", c.Position(cs.Pos()), strings.HasPrefix(t, "["+dk+"[16:32], keystore.aesCTRXOR("), t)
		}
		// constants written into the file
		lits := map[string]bool{}
		for _, b := range ek.Blocks {
			for _, ins := range b.Instrs {
				switch x := ins.(type) {
				case *ssa.Store:
					if fa, ok := x.Addr.(*ssa.FieldAddr); ok {
						lits[fieldName(fa)+"="+f.tr.term(nil, x.Val, 0)] = true
					}
				case *ssa.MapUpdate:
					lits["map["+f.tr.term(nil, x.Key, 0)+"]="+f.tr.term(nil, x.Value, 0)] = true
				}
			}
		}
		for _, want := range []string{`Cipher="aes-128-ctr"`, `KDF="scrypt"`, `Version=3`, `map["r"]=8`, `map["dklen"]=32`, `map["n"]=int#0`, `map["p"]=int#1`} {
			c.Ob("C20-R2", "EncryptKey writes "+want, c.FnPos(ek), lits[want], "")
		}
		c.ConstIs("C20-R2", ks+":scryptR", "8")
		c.ConstIs("C20-R2", ks+":scryptDKLen", "32")
		c.ConstIs("C20-R2", ks+":version", "3")
		// reader: cipher name and version checked, key split identical
		d3 := c.Fn(ks + ":decryptKeyV3")
		c.MustOnAccept("C20-R2", d3, -1, false, []LitReq{
			{Name: "version 3 required", Re: `^encryptedKeyJSONV3#0\.Version == 3$`},
			{Name: "cipher aes-128-ctr required", Re: `^encryptedKeyJSONV3#0\.Crypto\.Cipher == "aes-128-ctr"$`},
		})
		for _, cs := range callSites(d3, `^keystore\.aesCTRXOR$`) {
			k := c.termOf(d3, cs.Common().Args[0])
			c.Ob("C20-R2", "decryptKeyV3 decrypts with derivedKey[:16]", c.Position(cs.Pos()), strings.HasSuffix(k, "#0[:16]"), k)
		}
		// the KDF reader uses the unmodified passphrase bytes and the stored parameters
		gk := c.Fn(ks + ":getKDFKey")
		fg := c.Facts(gk)
		for _, cs := range callSites(gk, `^(scrypt|pbkdf2)\.Key$`) {
			a := cs.Common().Args
			pw := fg.tr.term(nil, a[0], 0)
			salt := fg.tr.term(nil, a[1], 0)
			c.Ob("C20-R2", "getKDFKey feeds the unmodified passphrase bytes and the stored salt into "+calleeName(cs.Common()), c.Position(cs.Pos()),
				pw == "string#0" && strings.HasPrefix(salt, `hex.DecodeString(cryptoJSON#0.KDFParams["salt"]`), "password="+pw+" salt="+salt)
		}
		for _, cs := range callSites(gk, `^scrypt\.Key$`) {
			a := cs.Common().Args
			var ps []string
			for _, x := range a[2:] {
				ps = append(ps, fg.tr.term(nil, x, 0))
			}
			want := `keystore.ensureInt(cryptoJSON#0.KDFParams["n"]) keystore.ensureInt(cryptoJSON#0.KDFParams["r"]) keystore.ensureInt(cryptoJSON#0.KDFParams["p"]) keystore.ensureInt(cryptoJSON#0.KDFParams["dklen"])`
			c.Ob("C20-R2", "getKDFKey passes the stored n, r, p, dklen in that order", c.Position(cs.Pos()), strings.Join(ps, " ") == want, strings.Join(ps, " "))
		}
		// key bytes -> key: all 32 bytes
		dec := c.Fn(ks + ":DecryptKey")
		for _, cs := range callSites(dec, `^crypto\.ToECDSAUnsafe$`) {
			t := c.termOf(dec, cs.Common().Args[0])
			c.Ob("C20-R2", "DecryptKey builds the key from the whole decrypted plaintext", c.Position(cs.Pos()), c20AllFromDecrypt(c, dec, cs.Common().Args[0]), t)
		}
		// supporting code of the round trip: key files are written whole (an overwrite that does not truncate leaves the
		// tail of the old file behind), and the version-1 padding is removed by exactly the announced pad length
		wk := c.Fn(ks + ":writeKeyFile")
		nw := 0
		for _, cs := range callSites(wk, `^(os|ioutil)\.(WriteFile|OpenFile|Create)$`) {
			nw++
			okW := strings.HasSuffix(calleeName(cs.Common()), ".WriteFile") || strings.HasSuffix(calleeName(cs.Common()), ".Create")
			if strings.HasSuffix(calleeName(cs.Common()), ".OpenFile") {
				if fl, isC := constInt(cs.Common().Args[1]); isC {
					okW = fl&0x200 != 0 || fl&0x80 != 0 // O_TRUNC or O_EXCL
				}
			}
			c.Ob("C20-R2", "writeKeyFile replaces the whole file (WriteFile, Create, or OpenFile with O_TRUNC/O_EXCL)", c.Position(cs.Pos()), okW, calleeName(cs.Common()))
		}
		c.Ob("C20-R2", "writeKeyFile writes the key file", c.FnPos(wk), nw == 1, fmt.Sprintf("%d file-opening calls", nw))
		up := c.Fn(ks + ":pkcs7Unpad")
		fup := c.Facts(up)
		nu := 0
		for _, rs := range fup.AllReturns() {
			t := fup.tr.term(rs.State, rs.Ret.Results[0], 0)
			if t == "nil" {
				continue
			}
			nu++
			pad := "[]byte#0[(len([]byte#0) - 1)]"
			c.Ob("C20-R2", "pkcs7Unpad removes exactly the announced number of pad bytes", c.Position(rs.Ret.Pos()),
				t == "[]byte#0[:(len([]byte#0) - "+pad+")]" && rs.State.lits[pad+" <= 16"] && rs.State.lits[pad+" != 0"], "returns "+t)
		}
		c.Ob("C20-R2", "pkcs7Unpad has one accepting form", c.FnPos(up), nu == 1, fmt.Sprintf("%d", nu))
	})
	c.Min("C20-R2", 22)

	c.Rule("C20-R3", "everything that determines the plaintext is authenticated by the MAC or re-validated", func() {
		for _, v := range []struct{ fn, cipher string }{{"decryptKeyV3", `^keystore\.aesCTRXOR$`}, {"decryptKeyV1", `^keystore\.aesCBCDecrypt$`}} {
			fn := c.Fn(ks + ":" + v.fn)
			f := c.Facts(fn)
			var macIn, ptIn []string
			for _, cs := range callSites(fn, `^dyn:crypto\.Keccak256$`) {
				t := f.tr.term(nil, cs.Common().Args[0], 0)
				if strings.Contains(t, "[16:32]") {
					macIn = splitTop(strings.TrimSuffix(strings.TrimPrefix(t, "["), "]"))
				}
			}
			for _, cs := range callSites(fn, v.cipher) {
				for _, a := range cs.Common().Args {
					ptIn = append(ptIn, f.tr.term(nil, a, 0))
				}
			}
			base := func(t string) string {
				// the file field an input comes from
				for _, k := range []string{"CipherText", "CipherParams.IV", "getKDFKey"} {
					if strings.Contains(t, k) {
						return k
					}
				}
				return t
			}
			covered := map[string]bool{}
			for _, m := range macIn {
				covered[base(m)] = true
			}
			for _, p := range ptIn {
				b := base(p)
				what := map[string]string{"CipherText": "ciphertext", "CipherParams.IV": "IV", "getKDFKey": "derived key (salt, KDF parameters, passphrase)"}[b]
				if what == "" {
					what = b
				}
				c.Ob("C20-R3", v.fn+": plaintext input "+what+" is covered by the MAC", c.FnPos(fn), covered[b], "MAC inputs: "+strings.Join(macIn, " | "))
			}
		}
		// the address of a decrypted key is derived from the decrypted key, not read from the file
		dec := c.Fn(ks + ":DecryptKey")
		f := c.Facts(dec)
		n := 0
		for _, rs := range f.AcceptingReturns(-1, false) {
			n++
			_, ok := hasLit(rs.State, mustRe(`^store:new\(Key\)\.Address=crypto\.PubkeyToAddress\(crypto\.ToECDSAUnsafe\(keystore\.decryptKeyV[13]\(.*\)#0\)\.PubKey\(\)\)$`))
			_, okPK := hasLit(rs.State, mustRe(`^store:new\(Key\)\.PrivateKey=crypto\.ToECDSAUnsafe\(keystore\.decryptKeyV[13]\(.*\)#0\)$`))
			c.Ob("C20-R3", "DecryptKey: Key.Address is derived from the decrypted private key", c.Position(rs.Ret.Pos()), ok && okPK, "")
		}
		c.Ob("C20-R3", "DecryptKey has accepting returns for both versions", c.FnPos(dec), n >= 2, "")
	})
	c.Min("C20-R3", 8)

	c.Rule("C20-R4", "address binding: a key is handed out only if its derived address equals the requested account", func() {
		gk := c.Fn(ks + ":(keyStorePassphrase).GetKey")
		c.MustOnAccept("C20-R4", gk, -1, false, []LitReq{
			{Name: "decryption succeeded", Re: `^keystore\.DecryptKey\(.*, string#1\)#1 == nil$`},
			{Name: "derived address equals the requested address", Re: `^keystore\.DecryptKey\(.*\)#0\.Address == Address#0$`},
		})
		// who calls DecryptKey directly (bypassing the address check)
		dec := c.Fn(ks + ":DecryptKey")
		var callers []string
		for _, cl := range c.CG().in[dec] {
			if cl.Synthetic == "" {
				callers = append(callers, shortFn(cl))
			}
		}
		sort.Strings(callers)
		c.Extra["DecryptKey_callers"] = callers
		allowed := map[string]string{
			"(aqua/accounts/keystore.keyStorePassphrase).GetKey": "checks the address (above)",
			"(*aqua/accounts/keystore.KeyStore).Import":          "imports a foreign key file: the account is created from the derived address (the IV weakness F8 is observable here)",
			"aqua/accounts/abi/bind.NewTransactor":               "builds a signer from a user-supplied key file: uses the derived address",
		}
		for _, cl := range callers {
			_, ok := allowed[cl]
			c.Ob("C20-R4", "DecryptKey caller "+cl+" is reviewed", "", ok, allowed[cl])
		}
		// KeyStore operations obtain keys through getDecryptedKey -> storage.GetKey
		gd := c.Fn(ks + ":(*KeyStore).getDecryptedKey")
		okG := len(callSites(gd, `^keyStore\.GetKey$`)) == 1 && len(callSites(gd, `^keystore\.DecryptKey$`)) == 0
		c.Ob("C20-R4", "KeyStore.getDecryptedKey reads keys through storage.GetKey (address-checked)", c.FnPos(gd), okG, "")
		for _, m := range []string{"TimedUnlock", "Export", "Update", "SignHashWithPassphrase", "SignTxWithPassphrase"} {
			fn := c.Fn(ks + ":(*KeyStore)." + m)
			c.Ob("C20-R4", "KeyStore."+m+" obtains the key through getDecryptedKey", c.FnPos(fn),
				len(callSites(fn, `^KeyStore\.getDecryptedKey$`)) >= 1 && len(callSites(fn, `^keystore\.DecryptKey$`)) == 0, "")
		}
	})
	c.Min("C20-R4", 10)
}

// c20AllFromDecrypt: every value that can reach v (through phis) is the plaintext returned by decryptKeyV1/V3.
func c20AllFromDecrypt(c *Ctx, fn *ssa.Function, v ssa.Value) bool {
	leaves := phiLeaves(v)
	if len(leaves) == 0 {
		return false
	}
	for _, l := range leaves {
		if !strings.Contains(c.termOf(fn, l), "decryptKeyV") {
			return false
		}
	}
	return true
}
