package main

import (
	"fmt"
	"strings"

	"golang.org/x/tools/go/ssa"
)

// C15 The pool's pending transactions are always executable, in order and bounded.

func init() { register("C15", []string{"./..."}, runC15) }

func runC15(c *Ctx) {
	c.Explanation = "Lock-set, guard and value-flow rules for the transaction pool: every access to the pool's shared state (pending, queue, all, priced, beats, currentState, pendingState, currentMaxGas, gasPrice, locals) happens with TxPool.mu held in the accessing function or at every transitive call site (writes under the exclusive lock); validateTx carries every admission literal of the statement on its accepting paths; a same-nonce replacement is accepted only with a strictly higher price that also meets the percentage bump, and every accepted insert raises the list's cost/gas caps that Filter short-circuits on; the affordability filter removes cost > balance or gas > limit; every slice of transactions removed from a list is consumed by code that unindexes or re-queues them; reset assigns the new state before demoting and promoting, re-injects exactly TxDifference(discarded, included) and measures reorg depth symmetrically. Decides lock discipline and guard structure on all paths; gap-freeness and limits as run-time invariants under arbitrary schedules are not decided."
	c.NotDecided = []string{"gap-free nonce runs and global/per-account limits as run-time invariants", "behaviour under concurrency beyond lock discipline"}
	c.Assumptions = []string{"txSortedMap operations are correct", "state.ManagedState mirrors the current state nonces"}

	c.Rule("C15-R1", "guarded-by: pool state is accessed only under TxPool.mu (writes exclusively)", func() {
		n := c.GuardedBy("C15-R1", guardSpec{Type: "core:TxPool", Lock: "mu", WriteExcl: true, Mutators: true,
			Fields: []string{"pending", "queue", "all", "priced", "beats", "currentState", "pendingState", "currentMaxGas", "gasPrice"},
			Exempt: map[string]string{
				"core.NewTxPool": "constructor: the pool is not shared yet",
			}}, nil)
		c.Extra["guarded_accesses"] = n
	})
	c.Min("C15-R1", 100)

	c.Rule("C15-R1b", "the pool lock (and every other mutex of package core) is released on every non-panic exit", func() {
		f, o := c.LockPairingRule("C15-R1b", []string{"core"}, nil, map[string]string{})
		c.Extra["lock_pairing_functions"] = f
		c.Extra["lock_pairing_operations"] = o
	})
	c.Min("C15-R1b", 20)

	c.Rule("C15-R2", "admission, replacement and affordability guards", func() {
		vt := c.Fn("core:(*TxPool).validateTx")
		from := `types\.Sender\(TxPool#0\.signer, Transaction#0\)#0`
		c.MustOnAccept("C15-R2", vt, -1, false, []LitReq{
			{Name: "size <= 32 KiB", Re: `^Transaction#0\.Size\(\) <= 32768$`},
			{Name: "value >= 0", Re: `^Transaction#0\.Value\(\) >= 0$`},
			{Name: "gas <= block gas limit", Re: `^TxPool#0\.currentMaxGas >= Transaction#0\.Gas\(\)$`},
			{Name: "sender recoverable", Re: `^types\.Sender\(TxPool#0\.signer, Transaction#0\)#1 == nil$`},
			{Name: "price >= pool minimum unless local", Re: `^(TxPool#0\.gasPrice <= Transaction#0\.GasPrice\(\)|bool#0|TxPool#0\.locals\.contains\(` + from + `\))$`},
			{Name: "nonce >= state nonce", Re: `^TxPool#0\.currentState\.GetNonce\(` + from + `\) <= Transaction#0\.Nonce\(\)$`},
			{Name: "balance >= cost", Re: `^TxPool#0\.currentState\.GetBalance\(` + from + `\) >= Transaction#0\.Cost\(\)$`},
			{Name: "intrinsic gas computable", Re: `^core\.IntrinsicGas\(Transaction#0\.Data\(\), \(Transaction#0\.To\(\) == nil\), TxPool#0\.homestead\)#1 == nil$`},
			{Name: "gas >= intrinsic gas", Re: `^Transaction#0\.Gas\(\) >= core\.IntrinsicGas\(.*\)#0$`},
		})
		ad := c.Fn("core:(*txList).Add")
		old := `txList#0\.txs\.Get\(Transaction#0\.Nonce\(\)\)`
		c.MustOnAccept("C15-R2", ad, 0, true, []LitReq{
			{Name: "replacement only with a strictly higher price", Unless: `^` + old + ` == nil$`, Re: `^` + old + `\.GasPrice\(\) < Transaction#0\.GasPrice\(\)$`},
			{Name: "replacement only if price >= old*(100+bump)/100", Unless: `^` + old + ` == nil$`,
				Re: `^new\(Int\)\.Div\(new\(Int\)~2\.Mul\(` + old + `\.GasPrice\(\), big\.NewInt\(\(100 \+ uint64#0\)\)\), big\.NewInt\(100\)\) <= Transaction#0\.GasPrice\(\)$`},
			{Name: "the transaction is stored", Re: `^called:txList#0\.txs\.Put\(Transaction#0\)$`},
			{Name: "cost cap covers the accepted transaction (Filter short-circuits on it)", Re: `^(txList#0\.costcap >= Transaction#0\.Cost\(\)|store:txList#0\.costcap=Transaction#0\.Cost\(\))$`},
			{Name: "gas cap covers the accepted transaction", Re: `^(txList#0\.gascap >= Transaction#0\.Gas\(\)|store:txList#0\.gascap=Transaction#0\.Gas\(\))$`},
		})
		fl := c.Fn("core:(*txList).Filter")
		c.MustOnAccept("C15-R2", fl, 0, false, []LitReq{
			{Name: "short-circuit only when both caps are within the limits", Unless: `^called:txList#0\.txs\.Filter\(`, Re: `^txList#0\.costcap <= Int#0$`},
			{Name: "short-circuit only when the gas cap is within the limit", Unless: `^called:txList#0\.txs\.Filter\(`, Re: `^txList#0\.gascap <= uint64#0$`},
		})
		// the filter predicate: cost > costLimit || gas > gasLimit
		var pred *ssa.Function
		for _, a := range fl.AnonFuncs {
			if len(callSites(a, `^Transaction\.Cost$`)) > 0 {
				pred = a
			}
		}
		if pred == nil {
			c.Ob("C15-R2", "txList.Filter has a cost/gas predicate", c.FnPos(fl), false, "")
		} else {
			c.MustOnAccept("C15-R2", pred, 0, false, []LitReq{
				{Name: "a transaction is kept only if cost <= balance", Re: `^Transaction#0\.Cost\(\) <= fv:Int#0$`},
				{Name: "a transaction is kept only if gas <= limit", Re: `^Transaction#0\.Gas\(\) <= fv:uint64#0$`},
			})
		}
		// lowered caps are the thresholds
		c.storeIs("C15-R2", fl, "gascap", `^uint64#0$`, "Filter lowers gascap to the limit")
		// limits hold for non-local senders: the `local` flag is true only for transactions submitted through the
		// local API (AddLocal/AddLocals); every internal re-submission (reorg re-injection) is remote
		adders := map[string]int{"(*core.TxPool).addTx": 2, "(*core.TxPool).addTxs": 2, "(*core.TxPool).addTxsLocked": 2, "(*core.TxPool).add": 2}
		forward := map[string]bool{"(*core.TxPool).addTx": true, "(*core.TxPool).addTxs": true, "(*core.TxPool).addTxsLocked": true}
		localAPI := map[string]bool{"(*core.TxPool).AddLocal": true, "(*core.TxPool).AddLocals": true}
		nl := 0
		for _, caller := range c.SrcFns {
			if caller.Synthetic != "" {
				continue
			}
			for _, b := range caller.Blocks {
				for _, ins := range b.Instrs {
					ci, isCall := ins.(ssa.CallInstruction)
					if !isCall || ci.Common().StaticCallee() == nil {
						continue
					}
					idx, isAdder := adders[shortFn(ci.Common().StaticCallee())]
					if !isAdder {
						continue
					}
					nl++
					a := ci.Common().Args[idx]
					t := c.termOf(caller, a)
					ok := t == "false" || (t == "bool#0" && forward[shortFn(caller)]) || (localAPI[shortFn(caller)] && t == "!TxPool#0.config.NoLocals")
					c.Ob("C15-R2", shortFn(caller)+": a transaction is treated as local only when it came through AddLocal/AddLocals", c.Position(ci.Pos()), ok, "local = "+t)
				}
			}
		}
		c.Ob("C15-R2", "call sites of the internal add functions found", "", nl >= 7, fmt.Sprintf("%d", nl))
		// affordability is judged with Transaction.Cost: it is gasPrice*gasLimit + value in arbitrary precision on one
		// straight path (a machine-word fast path can wrap), and the managed pending nonce really is the nonce written
		cost := c.Fn("core/types:(*Transaction).Cost")
		muls, addsC := callSites(cost, `^Int\.Mul$`), callSites(cost, `^Int\.Add$`)
		okCost := len(cost.Blocks) == 1 && len(muls) == 1 && len(addsC) == 1
		dCost := fmt.Sprintf("%d basic blocks, %d Mul, %d Add", len(cost.Blocks), len(muls), len(addsC))
		if okCost {
			m, a := muls[0].Common().Args, addsC[0].Common().Args
			okCost = c.termOf(cost, m[1]) == "Transaction#0.data.Price" && strings.Contains(c.termOf(cost, m[2]), ".SetUint64(Transaction#0.data.GasLimit)") &&
				c.termOf(cost, a[2]) == "Transaction#0.data.Amount"
			dCost = "Mul(" + c.termOf(cost, m[1]) + ", " + c.termOf(cost, m[2]) + "); Add(_, " + c.termOf(cost, a[2]) + ")"
		}
		c.Ob("C15-R2", "Transaction.Cost = Price*GasLimit + Amount in big integers, without a narrower fast path", c.FnPos(cost), okCost, dCost)
		msn := c.Fn("core/state:(*ManagedState).SetNonce")
		fms := c.Facts(msn)
		var allRet []*pstate
		for _, r := range fms.AllReturns() {
			allRet = append(allRet, r.State)
		}
		c.mustStates("C15-R2", msn, "return", allRet, []LitReq{
			{Name: "ManagedState.SetNonce writes the nonce into the state object on every path (the tracked window restarts from it)", Re: `^called:ManagedState#0\.StateDB\.GetOrNewStateObject\(Address#0\)\.SetNonce\(uint64#0\)$`},
		})
	})
	c.Min("C15-R2", 28)

	c.Rule("C15-R3", "every slice of removed transactions is consumed (unindexed or re-queued)", func() {
		tp := c.Pkg("core")
		_ = tp
		n := 0
		for _, fn := range c.SrcFns {
			if fn.Pkg == nil || relPkg(fn.Pkg.Pkg.Path()) != "core" || !strings.Contains(shortFn(fn), "TxPool") {
				continue
			}
			for _, cs := range callSites(fn, `^txList\.(Forward|Filter|Cap|Ready|Remove)$`) {
				call, ok := cs.(*ssa.Call)
				if !ok {
					continue
				}
				name := calleeName(cs.Common())
				// each result that is a Transactions slice must have a use that ranges/iterates or passes it on
				used := func(v ssa.Value) bool {
					if v.Referrers() == nil {
						return false
					}
					for _, r := range *v.Referrers() {
						switch r.(type) {
						case *ssa.DebugRef:
						default:
							return true
						}
					}
					return false
				}
				res := call.Call.Signature().Results()
				for i := 0; i < res.Len(); i++ {
					if typeShort(res.At(i).Type()) != "Transactions" {
						continue
					}
					n++
					ok := false
					if res.Len() == 1 {
						ok = used(call)
					} else if call.Referrers() != nil {
						for _, r := range *call.Referrers() {
							if ex, isEx := r.(*ssa.Extract); isEx && ex.Index == i && used(ex) {
								ok = true
							}
						}
					}
					cons := fmt.Sprintf("%s: removed transactions returned by %s (result %d) are consumed", shortFn(fn), name, i)
					if !ok && shortFn(fn) == "(*core.TxPool).promoteExecutables" && name == "txList.Filter" && i == 1 {
						c.Info("C15-R3", cons+" (frozen exception)", c.Position(cs.Pos()), "queue lists are created non-strict (newTxList(false)): Filter never returns invalidated transactions for them")
						continue
					}
					if !ok && shortFn(fn) == "(*core.TxPool).removeTx" && name == "txList.Remove" {
						c.Info("C15-R3", cons+" (frozen exception)", c.Position(cs.Pos()), "queue case of removeTx: the transaction was already deleted from pool.all; a non-strict list invalidates nothing")
						continue
					}
					c.Ob("C15-R3", cons, c.Position(cs.Pos()), ok, "")
				}
			}
		}
		c.Extra["removed_slices"] = n
		// removing a pending transaction rewinds the pending-state nonce to it, on every path (also when the
		// account's pending list became empty), so the next promotion starts at the gap
		rm := c.Fn("core:(*TxPool).removeTx")
		frm := c.Facts(rm)
		var removed []*pstate
		for _, rs := range frm.AllReturns() {
			if _, was := hasLit(rs.State, mustRe(`^TxPool#0\.pending\[.*\]\.Remove\(.*\)#0$`)); was {
				removed = append(removed, rs.State)
			}
		}
		c.mustStates("C15-R3", rm, "return after removing a pending transaction", removed, []LitReq{
			{Name: "removeTx rewinds the pending nonce to the removed transaction's nonce when it was ahead of it",
				Unless: `^TxPool#0\.pendingState\.GetNonce\(.*\) <= .*\.Nonce\(\)$`,
				Re:     `^called:TxPool#0\.pendingState\.SetNonce\(types\.Sender\(.*\)#0, .*\.Nonce\(\)\)$`},
		})
		if len(removed) < 2 {
			c.Ob("C15-R3", "removeTx has the pending-removal paths (list emptied / not emptied)", c.FnPos(rm), false, fmt.Sprintf("%d", len(removed)))
		}
		// the followers invalidated by the removal are moved to the queue on every such path - also when the removed
		// transaction was the first of the list and the list became empty (finding F12)
		c.mustStates("C15-R3", rm, "return after removing a pending transaction", removed, []LitReq{
			{Name: "removeTx re-queues every transaction invalidated by the removal, whether or not the pending list became empty",
				Re: `^\(phi:rangeindex(~\d+)? \+ 1\) >= len\(TxPool#0\.pending\[.*\]\.Remove\(.*\)#1\)$`},
		})
		c.MustLoopBack("C15-R3", rm, `^TxPool\.enqueueTx$`, []LitReq{
			{Name: "each invalidated follower is enqueued", Re: `^call:TxPool\.enqueueTx$`},
		})
		// add(): the "does it replace a pending transaction" decision reads the pending list after the pool-full
		// eviction, never before it: the eviction may remove an earlier transaction of the same sender and move the
		// very transaction being replaced into the queue (it would then be pending and queued at once, behind a gap)
		ad := c.Fn("core:(*TxPool).add")
		ovs, rms := callSites(ad, `^txList\.Overlaps$`), callSitesOf(ad, rm)
		adds := callSites(ad, `^txList\.Add$`)
		okFresh := len(ovs) >= 1 && len(rms) >= 1 && len(adds) >= 1
		nDec := 0
		for _, ov := range ovs {
			// only the probe whose result decides the replacement (flows into a branch that guards list.Add)
			decides := false
			for _, a := range adds {
				if flowsToGuardOf(ov.Value(), a) {
					decides = true
				}
			}
			if !decides {
				continue
			}
			nDec++
			for _, r := range rms {
				if ov.Block() == r.Block() {
					if instrDominates(ov, r) {
						okFresh = false
					}
				} else if reaches(ov.Block(), r.Block(), nil) {
					okFresh = false
				}
			}
		}
		c.Ob("C15-R3", "add: the pending-overlap decision is taken after every eviction (no removeTx can run between Overlaps and the insert)", c.FnPos(ad), okFresh && nDec >= 1, fmt.Sprintf("%d Overlaps sites (%d deciding the replacement), %d removeTx sites", len(ovs), nDec, len(rms)))
	})
	c.Min("C15-R3", 14)

	c.Rule("C15-R4", "reset pipeline: state first, then demote, then promote; reorg re-injection is TxDifference(discarded, included) with a symmetric depth limit", func() {
		rs := c.Fn("core:(*TxPool).reset")
		f := c.Facts(rs)
		c.MustBefore("C15-R4", rs, `^TxPool\.demoteUnexecutables$`, 1, []LitReq{
			{Name: "current state replaced by the new head's state", Re: `^store:TxPool#0\.currentState=TxPool#0\.chain\.StateAt\(.*\.Root\)#0$`},
			{Name: "pending state rebuilt on it", Re: `^store:TxPool#0\.pendingState=state\.ManageState\(TxPool#0\.chain\.StateAt\(.*\)#0\)$`},
			{Name: "gas limit of the new head", Re: `^store:TxPool#0\.currentMaxGas=.*\.GasLimit$`},
			{Name: "state of the new head could be opened", Re: `^TxPool#0\.chain\.StateAt\(.*\)#1 == nil$`},
		})
		c.AllDominatedBy("C15-R4", rs, `^TxPool\.demoteUnexecutables$`, `^TxPool\.promoteExecutables$`, 1, "unexecutable transactions are demoted before queued ones are promoted")
		// the accumulators are identified by what flows into them: transactions of blocks reached from the old head
		// (parameter #1) are "discarded", those reached from the new head (parameter #2) are "included"
		vc := newValueClasses(rs)
		sideOf := func(v ssa.Value) int {
			side := 0
			for _, l := range phiLeaves(v) {
				if call, ok := l.(*ssa.Call); ok && strings.HasSuffix(calleeName(&call.Call), ".GetBlock") && len(call.Call.Args) >= 2 {
					t := f.tr.term(nil, call.Call.Args[len(call.Call.Args)-2], 0)
					switch {
					case strings.HasPrefix(t, "Header#0.Hash()"):
						side |= 1
					case strings.HasPrefix(t, "Header#1.Hash()"):
						side |= 2
					}
				}
			}
			return side
		}
		var disc, incl []ssa.Value
		for _, cs := range callSites(rs, `^append$`) {
			call, ok := cs.(*ssa.Call)
			if !ok || len(call.Call.Args) < 2 {
				continue
			}
			if recv := methodRecv(call.Call.Args[1], "Transactions"); recv != nil {
				switch sideOf(recv) {
				case 1:
					disc = append(disc, call)
				case 2:
					incl = append(incl, call)
				}
			}
		}
		inAny := func(v ssa.Value, set []ssa.Value) bool {
			for _, x := range set {
				if vc.same(v, x) {
					return true
				}
			}
			return false
		}
		isDiff := func(v ssa.Value) bool {
			call, ok := v.(*ssa.Call)
			return ok && calleeName(&call.Call) == "types.TxDifference" && inAny(call.Call.Args[0], disc) && inAny(call.Call.Args[1], incl) && !inAny(call.Call.Args[0], incl)
		}
		for _, cs := range callSites(rs, `^TxPool\.addTxsLocked$`) {
			t := f.tr.term(nil, cs.Common().Args[1], 0)
			okInj := true
			for _, l := range phiLeaves(cs.Common().Args[1]) {
				if !isNilConst(l) && !isDiff(l) {
					okInj = false
				}
			}
			c.Ob("C15-R4", "reset re-injects nothing or TxDifference(discarded, included)", c.Position(cs.Pos()), okInj, "addTxsLocked("+t+")")
			c.Ob("C15-R4", "re-injection happens after the state switch and before demotion", c.Position(cs.Pos()),
				len(callSites(rs, `^TxPool\.demoteUnexecutables$`)) == 1 && reaches(cs.Block(), callSites(rs, `^TxPool\.demoteUnexecutables$`)[0].Block(), nil), "")
		}
		c.Ob("C15-R4", "both walk directions collect transactions (old side twice, new side twice)", c.FnPos(rs), len(disc) == 2 && len(incl) == 2, fmt.Sprintf("discarded %d, included %d", len(disc), len(incl)))
		// the walk that collects the dropped/added transactions runs only for shallow reorgs, measured symmetrically
		for _, cs := range callSites(rs, `^types\.TxDifference$`) {
			ok, w := allHave(f.At(cs), mustRe(`^math\.Abs\(\(Header#0\.Number\.Uint64\(\) - Header#1\.Number\.Uint64\(\)\)\) <= 64$`))
			ok2, _ := allHave(f.At(cs), mustRe(`^Header#0\.Hash\(\) != Header#1\.ParentHash$`))
			c.Ob("C15-R4", "reorg depth is |old - new| <= 64 (symmetric: shorter and longer new chains alike)", c.Position(cs.Pos()), ok && ok2, w)
		}
	})
	c.Min("C15-R4", 9)
}

// flowsToGuardOf: v reaches (through phis, negations and boolean operators) the condition of a branch whose taken
// side dominates instruction target.
func flowsToGuardOf(v ssa.Value, target ssa.Instruction) bool {
	if v == nil {
		return false
	}
	seen := map[ssa.Value]bool{}
	var walk func(x ssa.Value) bool
	walk = func(x ssa.Value) bool {
		if seen[x] {
			return false
		}
		seen[x] = true
		refs := x.Referrers()
		if refs == nil {
			return false
		}
		for _, r := range *refs {
			switch y := r.(type) {
			case *ssa.If:
				for _, s := range y.Block().Succs {
					if len(s.Preds) == 1 && s.Dominates(target.Block()) {
						return true
					}
				}
			case *ssa.Phi:
				if walk(y) {
					return true
				}
			case *ssa.UnOp:
				if walk(y) {
					return true
				}
			case *ssa.BinOp:
				if walk(y) {
					return true
				}
			}
		}
		return false
	}
	return walk(v)
}
