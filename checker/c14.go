package main

import (
	"go/token"
	"fmt"
	"go/types"
	"sort"
	"strings"

	"golang.org/x/tools/go/ssa"
)

// C14 A proof-of-work seal is accepted exactly when it meets the target.

func init() { register("C14", []string{"./..."}, runC14) }

func runC14(c *Ctx) {
	c.Explanation = "Sibling-agreement, guard and table rules for the seal: the verifier (VerifySeal), the miner (mine) and Block.MinerHash build the proof-of-work input identically (40-byte seed = seal-free header hash followed by the little-endian nonce, hashed by crypto.VersionHash with the header's version; zero mix digest for versions >= 2), both compute target = 2^256 / difficulty, the verifier rejects exactly when result > target and the miner accepts exactly when result <= target; VerifySeal rejects non-positive difficulty and any header whose mix digest differs from the expected one on every accepting path, for every version; the version returned by the fork schedule ({1,2,3,4}: HF9->4, HF8->3, HF5->2, else 1, in that order) is covered by VersionHash, whose cases 2/3/4 reach argon2.IDKey with time 1, threads 1, key length 32 and memory 1/16/32 KiB; every store to Header.Version in the module takes its value from the fork-schedule oracle, another header's version, or a setter parameter. Decides structure and constants; the hash functions themselves are not evaluated."
	c.NotDecided = []string{"the hash functions (keccak, argon2id, ethash) themselves", "header-version typestate across heap-allocated queues (would need a pointer analysis that is not available)"}
	c.Assumptions = []string{"fake/shared engine modes are test and delegation paths (exempt)", "golang.org/x/crypto/argon2 implements Argon2id"}

	vs := c.Fn("consensus/aquahash:(*Aquahash).VerifySeal")
	mine := c.Fn("consensus/aquahash:(*Aquahash).mine")
	mh := c.Fn("core/types:(*Block).MinerHash")

	c.Rule("C14-R1", "verifier, miner and MinerHash build the PoW input identically; complementary target tests; digest and difficulty guards", func() {
		fake := `^(Aquahash#0\.config\.PowMode == [34]|Aquahash#0\.shared != nil)$`
		c.MustOnAccept("C14-R1", vs, -1, false, []LitReq{
			{Name: "difficulty is positive", Unless: fake, Re: `^Header#0\.Difficulty > 0$`},
			{Name: "mix digest equals the expected digest (every version)", Unless: fake, Re: `^Header#0\.MixDigest\[:\] == (new\(\[32\]byte\)\[:32\]|.*ethashdag\.VerifySeal\(.*\)#1)$`},
			{Name: "result <= 2^256 / difficulty", Unless: fake, Re: `^new\(Int\)(~\d+)?\.SetBytes\(.*\) <= new\(Int\)(~\d+)?\.Div\(aquahash\.maxUint256, Header#0\.Difficulty\)$`},
			{Name: "block number below the epoch table limit", Unless: fake, Re: `^\(Header#0\.Number\.Uint64\(\) / 30000\) < 2048$`},
		})
		// digest/result selection per version
		// the two selected values are identified by their role: the digest is what is compared with MixDigest, the
		// result is what is converted to an integer and compared with the target
		ff := c.FactsFocus(vs, `Header#0\.Version`, true, "type:[]byte")
		var resPhi, digPhi *ssa.Phi
		for _, cs := range callSites(vs, `^bytes\.Equal$`) {
			for _, a := range cs.Common().Args {
				if p, ok := a.(*ssa.Phi); ok {
					digPhi = p
				}
			}
		}
		for _, cs := range callSites(vs, `^Int\.SetBytes$`) {
			if p, ok := cs.Common().Args[1].(*ssa.Phi); ok {
				resPhi = p
			}
		}
		rows := ff.PhiTableOf(resPhi)
		drows := ff.PhiTableOf(digPhi)
		okArgon, okEth := false, false
		for _, r := range rows {
			switch {
			case r.Val == "crypto.VersionHash(Header#0.Version, [new([40]byte)[:40]])":
				okArgon = r.State.lits["Header#0.Version != 1"] && r.State.lits["Header#0.Version != 0"]
			case strings.Contains(r.Val, "ethashdag.VerifySeal("):
				okEth = r.State.lits["Header#0.Version == 1"]
			}
		}
		c.Ob("C14-R1", "VerifySeal: version 1 uses the ethash DAG, every other known version hashes the 40-byte seed with VersionHash(version)", c.FnPos(vs), okArgon && okEth && len(rows) == 2, fmt.Sprintf("%d result selections", len(rows)))
		okDig := len(drows) == 2
		for _, r := range drows {
			if r.Val != "new([32]byte)[:32]" && !strings.Contains(r.Val, "ethashdag.VerifySeal(") {
				okDig = false
			}
		}
		c.Ob("C14-R1", "VerifySeal: expected digest is the DAG digest for version 1 and the zero digest otherwise", c.FnPos(vs), okDig, "")
		// seed construction agreement
		type seedSite struct {
			fn                  *ssa.Function
			who, hash, nonce, v string
		}
		for _, s := range []seedSite{
			{vs, "VerifySeal", "Header#0.HashNoNonce().Bytes()", "Header#0.Nonce.Uint64()", "Header#0.Version"},
			{mine, "mine", "Block#0.Header().HashNoNonce().Bytes()", c14SealedNonce(c, mine), "HeaderVersion#0"},
			{mh, "MinerHash", "Block#0.header.HashNoNonce().Bytes()", "binary.BigEndian.Uint64(Block#0.header.Nonce[:])", "Block#0.header.Version"},
		} {
			f := c.Facts(s.fn)
			var copyOK, putOK, hashOK, lenOK bool
			for _, cs := range callSites(s.fn, `^copy$`) {
				a := cs.Common().Args
				copyOK = f.tr.term(nil, a[0], 0) == "new([40]byte)[:40]" && f.tr.term(nil, a[1], 0) == s.hash
			}
			for _, cs := range callSites(s.fn, `^littleEndian\.PutUint64$|^ByteOrder\.PutUint64$|PutUint64$`) {
				a := cs.Common().Args
				dst := f.tr.term(nil, a[len(a)-2], 0)
				src := f.tr.term(nil, a[len(a)-1], 0)
				putOK = dst == "new([40]byte)[:40][32:]" && strings.HasPrefix(src, s.nonce) && strings.Contains(calleeName(cs.Common()), "ittleEndian")
			}
			for _, cs := range callSites(s.fn, `^crypto\.VersionHash$`) {
				a := cs.Common().Args
				v := f.tr.term(nil, a[0], 0)
				d := f.tr.term(nil, a[1], 0)
				hashOK = (v == s.v || strings.HasSuffix(v, ".Version")) && d == "[new([40]byte)[:40]]"
			}
			for _, b := range s.fn.Blocks {
				for _, ins := range b.Instrs {
					if al, ok := ins.(*ssa.Alloc); ok && typeShort(al.Type()) == "[40]byte" {
						lenOK = true
					}
				}
			}
			c.Ob("C14-R1", s.who+": seed = 40 bytes: copy(seed, HashNoNonce), LittleEndian.PutUint64(seed[32:], nonce), VersionHash(version, seed)", c.FnPos(s.fn),
				copyOK && putOK && hashOK && lenOK, fmt.Sprintf("copy=%v put=%v hash=%v len40=%v", copyOK, putOK, hashOK, lenOK))
		}
		// miner accepts iff result <= target, with the same target
		fm := c.Facts(mine)
		for _, cs := range callSites(mine, `^Block\.WithSeal$`) {
			ok, w := allHave(fm.At(cs), mustRe(`^new\(Int\)(~\d+)?\.SetBytes\(.*\) <= new\(Int\)(~\d+)?\.Div\(aquahash\.maxUint256, Block#0\.Header\(\)\.Difficulty\)$`))
			c.Ob("C14-R1", "mine: a seal is reported only when result <= 2^256 / difficulty", c.Position(cs.Pos()), ok, w)
		}
		// on every path that reports a seal the returned header's mix digest was just set to what VerifySeal expects:
		// the ethash digest of this nonce for version 1, the zero digest for the argon2id versions (a header that
		// keeps the digest it came with is rejected by the node's own verifier)
		var sealStates []*pstate
		for _, cs := range callSites(mine, `^Block\.WithSeal$`) {
			sealStates = append(sealStates, fm.At(cs)...)
		}
		hdr := `types\.CopyHeader\(Block#0\.Header\(\)\)`
		c.mustStates("C14-R1", mine, "report of a found seal", sealStates, []LitReq{
			{Name: "the sealed header's mix digest is set on every reporting path (ethash digest / zero digest)", Re: `^store:` + hdr + `\.MixDigest=common\.BytesToHash\((new\(\[32\]byte\)\[:32\]|dyn:ethashdag\.HashimotoFull\(.*, ` + PH + `\)#0)\)$`},
			{Name: "the sealed header's nonce is the nonce just tried", Re: `^store:` + hdr + `\.Nonce=types\.EncodeNonce\(` + PH + `\)$`},
		})
		if len(callSites(mine, `^Block\.WithSeal$`)) == 0 {
			c.Ob("C14-R1", "mine reports found seals", c.FnPos(mine), false, "")
		}
		// the sealed header carries the nonce tried and the digest computed
		okNonce, okMix := false, false
		for _, b := range mine.Blocks {
			for _, ins := range b.Instrs {
				if st, ok := ins.(*ssa.Store); ok {
					if fa, ok := st.Addr.(*ssa.FieldAddr); ok {
						switch fieldName(fa) {
						case "Nonce":
							okNonce = mustRe(`^types\.EncodeNonce\(` + PH + `\)$`).MatchString(fm.tr.term(nil, st.Val, 0))
						case "MixDigest":
							okMix = mustRe(`^common\.BytesToHash\(` + PH + `\)$`).MatchString(fm.tr.term(nil, st.Val, 0))
						}
					}
				}
			}
		}
		c.Ob("C14-R1", "mine: the sealed header carries the tried nonce and the computed digest", c.FnPos(mine), okNonce && okMix, "")
		init := c18InitCall(c, "consensus/aquahash", "maxUint256")
		c.Ob("C14-R1", "maxUint256 = 1 << 256", c.Position(c.Global("consensus/aquahash:maxUint256").Pos()), init == "new(big.Int).SetUint64(1).Lsh(new(big.Int).SetUint64(1), 256)", init)
		c.GlobalNeverReassigned("C14-R1", "consensus/aquahash:maxUint256")
		// no in-place mutation of maxUint256: Div receiver is fresh
		for _, fn := range []*ssa.Function{vs, mine} {
			for _, cs := range callSites(fn, `^Int\.Div$`) {
				t := c.termOf(fn, cs.Common().Args[0])
				c.Ob("C14-R1", shortFn(fn)+": target is computed into a fresh integer", c.Position(cs.Pos()), strings.HasPrefix(t, "new(Int)"), "receiver "+t)
			}
		}
		// version 1: the miner hashes over the full dataset, the verifier over the cache; they agree only if every row
		// of the dataset was generated. The generator splits the rows into per-thread segments of `batch` rows:
		// batch * threads must cover all rows for every row count and thread count (evaluated symbolically on a grid)
		gd := c.Fn("consensus/aquahash/ethashdag:generateDataset")
		var seg *ssa.Function
		for _, a := range gd.AnonFuncs {
			if len(callSites(a, `^ethashdag\.generateDatasetItem$`)) > 0 {
				seg = a
			}
		}
		if seg == nil {
			c.Ob("C14-R1", "generateDataset segment worker found", c.FnPos(gd), false, "")
		} else {
			// batch: the value added to `first` to form the segment limit
			var batch ssa.Value
			for _, b := range seg.Blocks {
				for _, ins := range b.Instrs {
					if bo, ok := ins.(*ssa.BinOp); ok && bo.Op == token.MUL {
						if _, isPar := bo.X.(*ssa.Convert); isPar || true {
							// first := uint32(id) * batch
							if cv, ok := bo.X.(*ssa.Convert); ok {
								if _, isParam := cv.X.(*ssa.Parameter); isParam {
									batch = bo.Y
								}
							}
						}
					}
				}
			}
			okCover, dCover := batch != nil, "segment size expression not found (first := id * batch)"
			if batch != nil {
				var fvSize, fvThreads ssa.Value
				for _, fv := range seg.FreeVars {
					switch typeShort(fv.Type()) {
					case "uint64":
						fvSize = fv
					case "int":
						fvThreads = fv
					}
				}
				okCover, dCover = fvSize != nil && fvThreads != nil, "captured size/threads not found"
				for rows := int64(1); okCover && rows <= 400; rows++ {
					for th := int64(1); th <= 64; th++ {
						v, ok := fxEvalInt(batch, map[ssa.Value]int64{fvSize: rows * 64, fvThreads: th})
						if !ok {
							okCover, dCover = false, "segment size is not an arithmetic expression over size and threads"
							break
						}
						if v*th < rows {
							okCover, dCover = false, fmt.Sprintf("%d rows on %d threads: segments of %d rows cover only %d", rows, th, v, v*th)
							break
						}
					}
				}
			}
			c.Ob("C14-R1", "generateDataset: the per-thread segments cover every dataset row (ceiling division)", c.FnPos(seg), okCover, dCover)
		}
	})
	c.Min("C14-R1", 14)

	c.Rule("C14-R2", "version exhaustiveness: fork schedule -> VersionHash cases -> KnownVersion; hash dispatch", func() {
		gv := c.Fn("params:(*ChainConfig).GetBlockVersion")
		f := c.Facts(gv)
		n := 0
		vals := map[string]bool{}
		for _, rs := range f.AllReturns() {
			res := f.tr.term(rs.State, rs.Ret.Results[0], 0)
			want := "1"
			switch {
			case rs.State.lits["ChainConfig#0.IsHF(9, Int#0)"]:
				want = "4"
			case rs.State.lits["!ChainConfig#0.IsHF(9, Int#0)"] && rs.State.lits["ChainConfig#0.IsHF(8, Int#0)"]:
				want = "3"
			case rs.State.lits["!ChainConfig#0.IsHF(9, Int#0)"] && rs.State.lits["!ChainConfig#0.IsHF(8, Int#0)"] && rs.State.lits["ChainConfig#0.IsHF(5, Int#0)"]:
				want = "2"
			case rs.State.lits["!ChainConfig#0.IsHF(9, Int#0)"] && rs.State.lits["!ChainConfig#0.IsHF(8, Int#0)"] && rs.State.lits["!ChainConfig#0.IsHF(5, Int#0)"]:
				want = "1"
			default:
				want = "?"
			}
			n++
			vals[res] = true
			c.Ob("C14-R2", "GetBlockVersion returns "+want+" under {"+strings.Join(guardLits(rs.State), ", ")+"}", c.Position(rs.Ret.Pos()), res == want, "returns "+res)
		}
		c.Ob("C14-R2", "GetBlockVersion has the four cases", c.FnPos(gv), n == 4 && len(vals) == 4, fmt.Sprintf("%d returns, values %v", n, keysOf(vals)))
		// IsHF consults the schedule entry of that fork
		ih := c.Fn("params:(*ChainConfig).IsHF")
		fi := c.Facts(ih)
		okIs := true
		for _, rs := range fi.AllReturns() {
			res := fi.tr.term(rs.State, rs.Ret.Results[0], 0)
			if res != "false" && res != "params.isForked(ChainConfig#0.HF[int#0], Int#0)" {
				okIs = false
			}
		}
		c.Ob("C14-R2", "IsHF(hf, n) = isForked(HF[hf], n)", c.FnPos(ih), okIs, "")
		// VersionHash cases
		vh := c.Fn("crypto:VersionHash")
		fv := c.Facts(vh)
		want := map[string]string{"1": "crypto.Keccak256", "2": "crypto.Argon2idA", "3": "crypto.Argon2idB", "4": "crypto.Argon2idC"}
		seen := map[string]bool{}
		for _, rs := range fv.AllReturns() {
			res := fv.tr.term(rs.State, rs.Ret.Results[0], 0)
			for v, fnn := range want {
				if rs.State.lits["byte#0 == "+v] || rs.State.lits["uint8#0 == "+v] {
					seen[v] = true
					c.Ob("C14-R2", "VersionHash("+v+") = "+fnn, c.Position(rs.Ret.Pos()), strings.HasPrefix(res, fnn+"(") || strings.HasPrefix(res, "dyn:"+fnn+"("), "returns "+res)
				}
			}
		}
		for v := range want {
			if !seen[v] {
				c.Ob("C14-R2", "VersionHash has a case for version "+v, c.FnPos(vh), false, "")
			}
		}
		c.ConstIs("C14-R2", "crypto:KnownVersion", "4")
		// rlpHash: 0/1 -> keccak, else VersionHash(version)
		rh := c.Fn("core/types:rlpHash")
		fr := c.Facts(rh)
		for _, cs := range callSites(rh, `^crypto\.VersionHash$`) {
			ok, w := allHave(fr.At(cs), mustRe(`^(byte|uint8)#0 != 1$`))
			ok0, _ := allHave(fr.At(cs), mustRe(`^(byte|uint8)#0 != 0$`))
			c.Ob("C14-R2", "rlpHash uses VersionHash(version) exactly for versions other than 0 and 1", c.Position(cs.Pos()), ok && ok0 && strings.HasSuffix(c.termOf(rh, cs.Common().Args[0]), "#0"), w)
		}
		// ... and computes it on every such path: a memo in front of it would have to be keyed by the version as well
		// (the version is not part of the encoded bytes), so today every non-ethash return has just run VersionHash
		var slow []*pstate
		for _, r := range fr.AllReturns() {
			_, n1 := hasLit(r.State, mustRe(`^(byte|uint8)#0 != 1$`))
			_, n0 := hasLit(r.State, mustRe(`^(byte|uint8)#0 != 0$`))
			if n0 && n1 {
				slow = append(slow, r.State)
			}
		}
		c.mustStates("C14-R2", rh, "return for a version other than 0 and 1", slow, []LitReq{
			{Name: "rlpHash derives the result from VersionHash(version, encoding) on every path (no version-blind memo)", Re: `^called:crypto\.VersionHash\((byte|uint8)#0, .*\)$`},
		})
		if len(slow) == 0 {
			c.Ob("C14-R2", "rlpHash has the argon2id path", c.FnPos(rh), false, "")
		}
		// Header.Hash uses the header's own version
		hh := c.Fn("core/types:(*Header).Hash")
		for _, cs := range callSites(hh, `^types\.rlpHash$`) {
			t := c.termOf(hh, cs.Common().Args[0])
			c.Ob("C14-R2", "Header.Hash hashes with the header's own version", c.Position(cs.Pos()), t == "Header#0.Version", "version argument "+t)
		}
		// mine refuses unknown versions
		c.MustBefore("C14-R2", mine, `^crypto\.VersionHash$`, 1, []LitReq{
			{Name: "miner only hashes with a known, set version", Re: `^Block#0\.Header\(\)\.Version <= 4$`},
			{Name: "miner never hashes version 0", Re: `^Block#0\.Header\(\)\.Version != 0$`},
		})
	})
	c.Min("C14-R2", 14)

	c.Rule("C14-R3", "argon2id parameters: time 1, threads 1, key length 32, memory 1/16/32 KiB", func() {
		for name, mem := range map[string]string{"Argon2idA": "1", "Argon2idB": "16", "Argon2idC": "32"} {
			fn := c.Fn("crypto:" + name)
			sites := callSites(fn, `^argon2\.IDKey$`)
			if len(sites) != 1 {
				c.Ob("C14-R3", name+" calls argon2.IDKey once", c.FnPos(fn), false, "")
				continue
			}
			a := sites[0].Common().Args
			t := func(i int) string { return c.termOf(fn, a[i]) }
			ok := t(1) == "nil" && t(2) == "1" && t(3) == mem && t(4) == "1" && t(5) == "32"
			c.Ob("C14-R3", fmt.Sprintf("%s = argon2.IDKey(data, nil, time=1, memory=%s KiB, threads=1, keyLen=32)", name, mem), c.Position(sites[0].Pos()), ok,
				fmt.Sprintf("salt=%s time=%s memory=%s threads=%s keyLen=%s", t(1), t(2), t(3), t(4), t(5)))
			// the password is the concatenation of all data slices
			wr := callSites(fn, `^Buffer\.Write$`)
			c.Ob("C14-R3", name+" hashes the concatenation of its inputs", c.FnPos(fn), len(wr) == 1 && strings.HasSuffix(t(0), ".Bytes()"), "")
		}
	})
	c.Min("C14-R3", 6)

	c.Rule("C14-R4", "version provenance: Header.Version is only ever set from the fork-schedule oracle, another header, or a setter parameter", func() {
		c14Provenance(c)
	})
	c.Min("C14-R4", 20)

	// "the version is determined solely by height" also for uncles: the verifier (and the miner) hash and verify an
	// uncle under the version of the uncle's own number (C13-R2), shared here
	c.Borrow("C13", runC13, map[string]string{"C13-R2": "C14-R3"})
}

func c14Provenance(c *Ctx) {
	hv := c.Field("core/types:Header.Version")
	g := c.CG()
	oracle := func(v ssa.Value) (bool, string) {
		for i := 0; i < 6; i++ {
			switch x := v.(type) {
			case *ssa.Convert:
				v = x.X
				continue
			case *ssa.ChangeType:
				v = x.X
				continue
			}
			break
		}
		switch x := v.(type) {
		case *ssa.Call:
			name := calleeName(&x.Call)
			if strings.HasSuffix(name, ".GetBlockVersion") || strings.HasSuffix(name, ".GetHeaderVersion") {
				return true, "oracle " + name
			}
			if strings.HasSuffix(name, ".Version") && !x.Call.IsInvoke() {
				return true, "accessor " + name
			}
			if name == "" || strings.HasPrefix(name, "dyn:") {
				return true, "function-valued version rule (resolved by the call graph to a GetBlockVersion wrapper)"
			}
		case *ssa.UnOp:
			if fa, ok := x.X.(*ssa.FieldAddr); ok {
				st := fa.X.Type().Underlying().(*types.Pointer).Elem().Underlying().(*types.Struct)
				if st.Field(fa.Field) == hv {
					return true, "another header's Version"
				}
				if st.Field(fa.Field).Name() == "Version" {
					return true, "decoded Version field of " + typeShort(fa.X.Type())
				}
			}
		case *ssa.Field:
			st := x.X.Type().Underlying().(*types.Struct)
			if st.Field(x.Field).Name() == "Version" {
				return true, "Version field of a value"
			}
		}
		return false, ""
	}
	var sites []string
	var paramOK func(fn *ssa.Function, p *ssa.Parameter, depth int) (bool, string)
	paramOK = func(fn *ssa.Function, p *ssa.Parameter, depth int) (bool, string) {
		if depth > 3 {
			return false, "setter chain deeper than 3"
		}
		idx := -1
		for i, q := range fn.Params {
			if q == p {
				idx = i
			}
		}
		n := 0
		for _, caller := range g.in[fn] {
			if caller.Synthetic != "" {
				// promoted-method wrapper: look through it
				okw, why := paramOK(caller, caller.Params[min(idx, len(caller.Params)-1)], depth)
				if !okw {
					return false, why
				}
				continue
			}
			for _, e := range g.out[caller] {
				if e.callee != fn || e.site == nil {
					continue
				}
				n++
				args := e.site.Common().Args
				if e.site.Common().IsInvoke() || idx >= len(args) {
					continue
				}
				a := args[idx]
				if ok, _ := oracle(a); ok {
					continue
				}
				if q, isParam := stripConv(a).(*ssa.Parameter); isParam {
					if ok, why := paramOK(caller, q, depth+1); !ok {
						return false, why
					}
					continue
				}
				if fv := freeVarBinding(caller, stripConv(a)); fv != nil {
					if ok, _ := oracle(fv); ok {
						continue
					}
				}
				if phi, isPhi := stripConv(a).(*ssa.Phi); isPhi {
					all := true
					for _, ed := range phi.Edges {
						if ok, _ := oracle(ed); !ok {
							if _, isP := stripConv(ed).(*ssa.Parameter); !isP {
								all = false
							}
						}
					}
					if all {
						continue
					}
				}
				return false, fmt.Sprintf("%s passes %s", shortFn(caller), newTermRenderer(caller).term(nil, a, 0))
			}
		}
		return true, fmt.Sprintf("%d call sites pass an oracle value", n)
	}
	for _, fn := range c.SrcFns {
		if fn.Pkg == nil {
			continue
		}
		rp := relPkg(fn.Pkg.Pkg.Path())
		for _, b := range fn.Blocks {
			for _, ins := range b.Instrs {
				st, ok := ins.(*ssa.Store)
				if !ok {
					continue
				}
				fa, ok := st.Addr.(*ssa.FieldAddr)
				if !ok {
					continue
				}
				s := fa.X.Type().Underlying().(*types.Pointer).Elem().Underlying().(*types.Struct)
				if s.Field(fa.Field) != hv {
					continue
				}
				name := shortFn(fn)
				sites = append(sites, name)
				tr := newTermRenderer(fn)
				val := tr.term(nil, st.Val, 0)
				cons := name + ": Header.Version = " + val
				if strings.HasPrefix(rp, "cmd/") {
					c.Info("C14-R4", cons+" (stand-alone tool, not part of the node)", c.Position(st.Pos()), "")
					continue
				}
				if name == "(*core/types.Header).UnmarshalJSON" {
					c.Info("C14-R4", cons+" (generated JSON decoder: frozen exception)", c.Position(st.Pos()), "the JSON form carries the version chosen by the encoder's schedule")
					continue
				}
				if ok, why := oracle(st.Val); ok {
					c.Ob("C14-R4", cons, c.Position(st.Pos()), true, why)
					continue
				}
				if p, isParam := stripConv(st.Val).(*ssa.Parameter); isParam {
					ok, why := paramOK(fn, p, 0)
					c.Ob("C14-R4", cons+" (setter parameter)", c.Position(st.Pos()), ok, why)
					continue
				}
				if phi, isPhi := stripConv(st.Val).(*ssa.Phi); isPhi {
					all := true
					for _, ed := range phi.Edges {
						if ok, _ := oracle(ed); !ok {
							all = false
						}
					}
					c.Ob("C14-R4", cons, c.Position(st.Pos()), all, "phi of oracle values")
					continue
				}
				c.Ob("C14-R4", cons, c.Position(st.Pos()), false, "value does not come from the fork-schedule oracle, another header or a setter parameter")
			}
		}
	}
	sort.Strings(sites)
	c.Extra["header_version_store_sites"] = sites
}

func stripConv(v ssa.Value) ssa.Value {
	for i := 0; i < 6; i++ {
		switch x := v.(type) {
		case *ssa.Convert:
			v = x.X
			continue
		case *ssa.ChangeType:
			v = x.X
			continue
		}
		break
	}
	return v
}

// freeVarBinding: for a (load of a) free variable of closure fn, the value bound in the parent (through single-store cells).
func freeVarBinding(fn *ssa.Function, v ssa.Value) ssa.Value {
	if u, ok := v.(*ssa.UnOp); ok {
		v = u.X
	}
	fv, ok := v.(*ssa.FreeVar)
	if !ok || fn.Parent() == nil {
		return nil
	}
	idx := -1
	for i, f := range fn.FreeVars {
		if f == fv {
			idx = i
		}
	}
	for _, b := range fn.Parent().Blocks {
		for _, ins := range b.Instrs {
			if mc, ok := ins.(*ssa.MakeClosure); ok && mc.Fn == fn && idx >= 0 && idx < len(mc.Bindings) {
				bv := mc.Bindings[idx]
				if a, ok := bv.(*ssa.Alloc); ok {
					if sv := singleStoredValue(a); sv != nil {
						return stripConv(sv)
					}
				}
				return stripConv(bv)
			}
		}
	}
	return nil
}

// c14SealedNonce: the term of the nonce the miner writes into the sealed header (types.EncodeNonce(x)): the hash input
// must be built from that very value.
func c14SealedNonce(c *Ctx, mine *ssa.Function) string {
	for _, cs := range callSites(mine, `^types\.EncodeNonce$`) {
		return c.termOf(mine, cs.Common().Args[0])
	}
	return "?"
}
