// Engine `lockset`: acquire/release pairing of sync.Mutex/RWMutex (and channel tokens) on every non-panic exit.
package main

import (
	"fmt"
	"go/token"
	"go/types"
	"sort"
	"strings"

	"golang.org/x/tools/go/ssa"
)

type lockOp struct {
	lock string
	kind string // Lock RLock Unlock RUnlock
	pos  token.Pos
}

func lockOpOf(tr *termRenderer, c *ssa.CallCommon, pos token.Pos) (lockOp, bool) {
	fn := c.StaticCallee()
	if fn == nil || fn.Pkg == nil || fn.Pkg.Pkg.Path() != "sync" {
		return lockOp{}, false
	}
	n := fn.Name()
	if n != "Lock" && n != "Unlock" && n != "RLock" && n != "RUnlock" {
		return lockOp{}, false
	}
	r := fn.Signature.Recv()
	if r == nil || !strings.Contains(r.Type().String(), "Mutex") {
		return lockOp{}, false
	}
	return lockOp{tr.term(nil, c.Args[0], 0), n, pos}, true
}

type lockState struct {
	held map[string]int
	df   []lockOp
}

func (s lockState) clone() lockState {
	n := lockState{held: map[string]int{}, df: append([]lockOp(nil), s.df...)}
	for k, v := range s.held {
		n.held[k] = v
	}
	return n
}

func (s lockState) key() string {
	var ks []string
	for k, v := range s.held {
		if v != 0 {
			ks = append(ks, fmt.Sprintf("%s=%d", k, v))
		}
	}
	sort.Strings(ks)
	var d []string
	for _, o := range s.df {
		d = append(d, o.kind+" "+o.lock)
	}
	return strings.Join(ks, ",") + "|" + strings.Join(d, ";")
}

func applyLock(held map[string]int, o lockOp) {
	switch o.kind {
	case "Lock":
		held[o.lock]++
	case "Unlock":
		held[o.lock]--
	case "RLock":
		held[o.lock+" (read)"]++
	case "RUnlock":
		held[o.lock+" (read)"]--
	}
}

// LockLeak is one return reached with an unbalanced lock set.
type LockLeak struct {
	Fn   *ssa.Function
	Ret  ssa.Instruction
	Held string
}

// tokenChans: channel-typed struct fields used as 1-token semaphores (receive = acquire, send = release).
type lockCfg struct {
	tokenFields map[*types.Var]bool
}

// LockPairing analyses one function; it returns the number of lock operations seen and the leaks.
func lockPairing(fn *ssa.Function, cfg *lockCfg) (int, []LockLeak) {
	n, leaks, _ := lockAnalysis(fn, cfg, false)
	return n, leaks
}

// lockAnalysis additionally returns, for every instruction, the locks held on *all* paths reaching it.
func lockAnalysis(fn *ssa.Function, cfg *lockCfg, wantHeld bool) (int, []LockLeak, map[ssa.Instruction]map[string]bool) {
	if len(fn.Blocks) == 0 {
		return 0, nil, nil
	}
	held := map[ssa.Instruction]map[string]bool{}
	record := func(ins ssa.Instruction, cur map[string]int) {
		if !wantHeld {
			return
		}
		now := map[string]bool{}
		for k, v := range cur {
			if v > 0 {
				now[k] = true
			}
		}
		if prev, ok := held[ins]; ok {
			for k := range prev {
				if !now[k] {
					delete(prev, k)
				}
			}
		} else {
			held[ins] = now
		}
	}
	// token acquisition through select: edge (block, succ index) -> acquire
	type edgeKey struct {
		b *ssa.BasicBlock
		i int
	}
	edgeOps := map[edgeKey]lockOp{}
	tr := newTermRenderer(fn)
	tr.singleStore = true
	nops := 0
	opOf := func(ins ssa.Instruction) (lockOp, bool) {
		switch i := ins.(type) {
		case *ssa.Call:
			return lockOpOf(tr, &i.Call, i.Pos())
		case *ssa.UnOp:
			if i.Op == token.ARROW && cfg != nil {
				if fv := fieldVarOf(i.X); fv != nil && cfg.tokenFields[fv] {
					return lockOp{tr.term(nil, i.X, 0), "Lock", i.Pos()}, true
				}
			}
		case *ssa.Send:
			if cfg != nil {
				if fv := fieldVarOf(i.Chan); fv != nil && cfg.tokenFields[fv] {
					return lockOp{tr.term(nil, i.Chan, 0), "Unlock", i.Pos()}, true
				}
			}
		}
		return lockOp{}, false
	}
	for _, b := range fn.Blocks {
		for _, ins := range b.Instrs {
			if _, ok := opOf(ins); ok {
				nops++
			}
			if d, ok := ins.(*ssa.Defer); ok {
				if _, ok := lockOpOf(tr, &d.Call, d.Pos()); ok {
					nops++
				}
			}
		}
	}
	if cfg != nil {
		trr := tr
		for _, b := range fn.Blocks {
			ifi, ok := b.Instrs[len(b.Instrs)-1].(*ssa.If)
			if !ok {
				continue
			}
			bo, ok := ifi.Cond.(*ssa.BinOp)
			if !ok || bo.Op != token.EQL {
				continue
			}
			ex, ok := bo.X.(*ssa.Extract)
			if !ok || ex.Index != 0 {
				continue
			}
			sel, ok := ex.Tuple.(*ssa.Select)
			if !ok {
				continue
			}
			k, ok := constInt(bo.Y)
			if !ok || int(k) >= len(sel.States) {
				continue
			}
			st := sel.States[k]
			if st.Dir == types.RecvOnly {
				if fv := fieldVarOf(st.Chan); fv != nil && cfg.tokenFields[fv] {
					edgeOps[edgeKey{b, 0}] = lockOp{trr.term(nil, st.Chan, 0), "Lock", st.Pos}
					nops++
				}
			}
		}
	}
	if nops == 0 && !wantHeld {
		return 0, nil, nil
	}
	in := map[*ssa.BasicBlock]map[string]lockState{}
	work := []*ssa.BasicBlock{fn.Blocks[0]}
	in[fn.Blocks[0]] = map[string]lockState{"|": {held: map[string]int{}}}
	done := map[string]bool{}
	var leaks []LockLeak
	seenLeak := map[string]bool{}
	for len(work) > 0 {
		b := work[0]
		work = work[1:]
		for k, x := range in[b] {
			dk := fmt.Sprintf("%d|%s", b.Index, k)
			if done[dk] {
				continue
			}
			done[dk] = true
			cur := x.clone()
			panics := false
			for _, ins := range b.Instrs {
				record(ins, cur.held)
				if o, ok := opOf(ins); ok {
					applyLock(cur.held, o)
					continue
				}
				switch i := ins.(type) {
				case *ssa.Defer:
					if o, ok := lockOpOf(tr, &i.Call, i.Pos()); ok {
						cur.df = append(cur.df, o)
					} else if mc, ok := i.Call.Value.(*ssa.MakeClosure); ok {
						if cf, ok := mc.Fn.(*ssa.Function); ok {
							ctr := newTermRenderer(cf)
							for _, cb := range cf.Blocks {
								for _, ci := range cb.Instrs {
									if cc, ok := ci.(*ssa.Call); ok {
										if o, ok := lockOpOf(ctr, &cc.Call, cc.Pos()); ok {
											// free variables of the closure refer to the parent's values: map by binding
											o.lock = rebindFreeVars(o.lock, cf, mc, tr)
											cur.df = append(cur.df, o)
										}
									}
								}
							}
						}
					}
				case *ssa.Panic:
					panics = true
				case *ssa.Return:
					fin := map[string]int{}
					for k, v := range cur.held {
						fin[k] = v
					}
					for _, o := range cur.df {
						applyLock(fin, o)
					}
					var hs []string
					for k, v := range fin {
						if v != 0 {
							hs = append(hs, fmt.Sprintf("%s x%d", k, v))
						}
					}
					if len(hs) > 0 {
						sort.Strings(hs)
						lk := fmt.Sprintf("%d|%s", i.Pos(), strings.Join(hs, ","))
						if !seenLeak[lk] {
							seenLeak[lk] = true
							leaks = append(leaks, LockLeak{fn, i, strings.Join(hs, ", ")})
						}
					}
				}
			}
			if panics {
				continue
			}
			for si, succ := range b.Succs {
				if in[succ] == nil {
					in[succ] = map[string]lockState{}
				}
				nxt := cur.clone()
				if o, ok := edgeOps[edgeKey{b, si}]; ok {
					applyLock(nxt.held, o)
				}
				kk := nxt.key()
				if _, ok := in[succ][kk]; !ok && len(in[succ]) < 32 {
					in[succ][kk] = nxt
					work = append(work, succ)
				}
			}
		}
	}
	return nops, leaks, held
}

func fieldVarOf(v ssa.Value) *types.Var {
	for i := 0; i < 3; i++ {
		switch x := v.(type) {
		case *ssa.UnOp:
			if x.Op == token.MUL {
				v = x.X
				continue
			}
		case *ssa.FieldAddr:
			st := x.X.Type().Underlying().(*types.Pointer).Elem().Underlying().(*types.Struct)
			return st.Field(x.Field)
		case *ssa.Field:
			st := x.X.Type().Underlying().(*types.Struct)
			return st.Field(x.Field)
		}
		break
	}
	return nil
}

// rebindFreeVars rewrites "fv:name" prefixes in a lock term of closure cf into the parent's term for the bound value.
func rebindFreeVars(term string, cf *ssa.Function, mc *ssa.MakeClosure, parent *termRenderer) string {
	for i, fv := range cf.FreeVars {
		p := "fv:" + fv.Name()
		if strings.HasPrefix(term, p) && i < len(mc.Bindings) {
			return parent.term(nil, mc.Bindings[i], 0) + term[len(p):]
		}
	}
	return term
}

// LockPairingRule applies lockPairing to every source function of the given packages.
// exceptions: function short name -> reason (one symbol each).
func (c *Ctx) LockPairingRule(rule string, pkgs []string, cfg *lockCfg, exceptions map[string]string) (funcs, ops int) {
	want := map[string]bool{}
	for _, p := range pkgs {
		want[modPath+"/"+p] = true
	}
	for _, fn := range c.SrcFns {
		if fn.Pkg == nil || !want[fn.Pkg.Pkg.Path()] {
			continue
		}
		n, leaks := lockPairing(fn, cfg)
		if n == 0 {
			continue
		}
		funcs++
		ops += n
		name := shortFn(fn)
		if len(leaks) == 0 {
			c.Ob(rule, name+": every acquire is released on every non-panic exit", c.FnPos(fn), true, fmt.Sprintf("%d lock operations", n))
			continue
		}
		for _, l := range leaks {
			if why, ok := exceptions[name]; ok {
				c.Info(rule, name+": frozen exception", c.Position(l.Ret.Pos()), why+" (reported: "+l.Held+")")
				continue
			}
			pos := c.Position(l.Ret.Pos())
			if pos == "" {
				pos = c.FnPos(fn)
			}
			c.Ob(rule, name+": every acquire is released on every non-panic exit", pos, false,
				"returns with unbalanced lock set {"+l.Held+"}")
		}
	}
	return
}

// ---- guarded-by ------------------------------------------------------------------------------------------------

type guardSpec struct {
	Type      string            // "aqua/event:Feed"
	Lock      string            // lock field name ("mu", "sendLock")
	Fields    []string          // guarded field names
	WriteExcl bool              // writes need the exclusive lock (RWMutex)
	Exempt    map[string]string // function short name -> reason (constructors, init under sync.Once, ...)
	Mutators  bool              // a call of a receiver-mutating method on a value reached through a guarded field counts as a write of that field
}

// mutatesReceiver: fn (a module function) stores through its first parameter: a Store / MapUpdate / delete whose
// target is reached from parameter 0 by field, index, element and load steps, or a static call handing such a value
// as first argument to a function that does. Lazily initialised caches (`if m.cache == nil { m.cache = ... }`) are
// writes like any other: two readers racing through them corrupt the structure.
func (c *Ctx) mutatesReceiver(fn *ssa.Function, seen map[*ssa.Function]bool) bool {
	if c.mutMemo == nil {
		c.mutMemo = map[*ssa.Function]bool{}
	}
	if r, ok := c.mutMemo[fn]; ok {
		return r
	}
	if seen[fn] || len(fn.Params) == 0 || len(fn.Blocks) == 0 {
		return false
	}
	seen[fn] = true
	derived := derivedFrom(fn.Params[0])
	res := false
	for _, b := range fn.Blocks {
		for _, ins := range b.Instrs {
			switch x := ins.(type) {
			case *ssa.Store:
				if derived[x.Addr] {
					res = true
				}
			case *ssa.MapUpdate:
				if derived[x.Map] {
					res = true
				}
			case ssa.CallInstruction:
				cc := x.Common()
				if bi, ok := cc.Value.(*ssa.Builtin); ok {
					if bi.Name() == "delete" && len(cc.Args) > 0 && derived[cc.Args[0]] {
						res = true
					}
					continue
				}
				if f := cc.StaticCallee(); f != nil && len(cc.Args) > 0 && derived[cc.Args[0]] && f.Pkg != nil && strings.HasPrefix(f.Pkg.Pkg.Path(), modPath) {
					if c.mutatesReceiver(f, seen) {
						res = true
					}
				}
			}
		}
	}
	c.mutMemo[fn] = res
	return res
}

// derivedFrom: values reached from root by field, index, element, load, map lookup and range-iteration steps.
func derivedFrom(root ssa.Value) map[ssa.Value]bool {
	out := map[ssa.Value]bool{root: true}
	work := []ssa.Value{root}
	for len(work) > 0 {
		v := work[len(work)-1]
		work = work[:len(work)-1]
		refs := v.Referrers()
		if refs == nil {
			continue
		}
		for _, r := range *refs {
			var nv ssa.Value
			switch x := r.(type) {
			case *ssa.FieldAddr:
				if x.X == v {
					nv = x
				}
			case *ssa.Field:
				if x.X == v {
					nv = x
				}
			case *ssa.IndexAddr:
				if x.X == v {
					nv = x
				}
			case *ssa.UnOp:
				if x.Op == token.MUL && x.X == v {
					nv = x
				}
			case *ssa.Lookup:
				if x.X == v {
					nv = x
				}
			case *ssa.Range:
				if x.X == v {
					nv = x
				}
			case *ssa.Next:
				if x.Iter == v {
					nv = x
				}
			case *ssa.Extract:
				if x.Tuple == v {
					nv = x
				}
			}
			if nv != nil && !out[nv] {
				out[nv] = true
				work = append(work, nv)
			}
		}
	}
	return out
}

type heldCache struct {
	m map[*ssa.Function]map[ssa.Instruction]map[string]bool
}

func (h *heldCache) get(fn *ssa.Function, cfg *lockCfg) map[ssa.Instruction]map[string]bool {
	if h.m == nil {
		h.m = map[*ssa.Function]map[ssa.Instruction]map[string]bool{}
	}
	if r, ok := h.m[fn]; ok {
		return r
	}
	_, _, held := lockAnalysis(fn, cfg, true)
	h.m[fn] = held
	return held
}

// GuardedBy checks that every access to the guarded fields happens with the lock of the same object held, either in
// the accessing function or (transitively, depth <= 4) at every one of its call sites.
func (c *Ctx) GuardedBy(rule string, gs guardSpec, cfg *lockCfg) int {
	named := c.Type(gs.Type)
	st := named.Underlying().(*types.Struct)
	guarded := map[*types.Var]bool{}
	for i := 0; i < st.NumFields(); i++ {
		for _, f := range gs.Fields {
			if st.Field(i).Name() == f {
				guarded[st.Field(i)] = true
			}
		}
	}
	if len(guarded) != len(gs.Fields) {
		panic(anchorErr{"guarded fields of " + gs.Type + " not all found"})
	}
	hc := &heldCache{}
	g := c.CG()
	checked := 0
	// requirement: function fn needs lock on object `base` (a term of fn) held at entry
	type req struct {
		fn   *ssa.Function
		base string
		excl bool
	}
	var holdsAtEntry func(r req, depth int, seen map[string]bool) (bool, string)
	holdsAt := func(fn *ssa.Function, ins ssa.Instruction, base string, excl bool) bool {
		held := hc.get(fn, cfg)[ins]
		if held[base+"."+gs.Lock] {
			return true
		}
		if !excl && held[base+"."+gs.Lock+" (read)"] {
			return true
		}
		return false
	}
	holdsAtEntry = func(r req, depth int, seen map[string]bool) (bool, string) {
		name := shortFn(r.fn)
		if _, ok := gs.Exempt[name]; ok {
			return true, ""
		}
		k := name + "|" + r.base
		if seen[k] {
			return true, "" // recursion: assume (checked at the outer entry)
		}
		seen[k] = true
		if depth > 5 {
			return false, "call chain deeper than 5 without the lock: " + name
		}
		// map base term to a parameter/freevar index of r.fn
		pidx, isParam, rest := baseParam(r.fn, r.base)
		if !isParam {
			return false, name + " accesses the field through " + r.base + " without holding " + gs.Lock
		}
		callers := 0
		for _, caller := range g.in[r.fn] {
			for _, e := range g.out[caller] {
				if e.callee != r.fn {
					continue
				}
				callers++
				if e.isGo {
					return false, fmt.Sprintf("%s is started as a goroutine from %s and touches the field without %s", name, shortFn(caller), gs.Lock)
				}
				if e.site == nil {
					// function value taken (closure creation / method value): treat the creation point as the call
					ins, argTerm := closureBinding(caller, r.fn, pidx)
					if ins == nil {
						return false, fmt.Sprintf("%s escapes as a function value in %s", name, shortFn(caller))
					}
					if _, isGo := ins.(*ssa.Go); isGo {
						return false, fmt.Sprintf("%s runs as a goroutine of %s without %s", name, shortFn(caller), gs.Lock)
					}
					cb := argTerm + rest
					if holdsAt(caller, ins, cb, r.excl) {
						continue
					}
					if ok, why := holdsAtEntry(req{caller, cb, r.excl}, depth+1, seen); !ok {
						return false, why
					}
					continue
				}
				args := e.site.Common().Args
				if e.site.Common().IsInvoke() || pidx >= len(args) {
					return false, fmt.Sprintf("%s called dynamically from %s", name, shortFn(caller))
				}
				ctr := newTermRenderer(caller)
				ctr.singleStore = true
				cb := ctr.term(nil, args[pidx], 0) + rest
				if holdsAt(caller, e.site, cb, r.excl) {
					continue
				}
				if ok, why := holdsAtEntry(req{caller, cb, r.excl}, depth+1, seen); !ok {
					return false, why + " <- " + name
				}
			}
		}
		if callers == 0 {
			return false, name + " touches the field without " + gs.Lock + " and has no caller that holds it (entry point)"
		}
		return true, ""
	}
	for _, fn := range c.SrcFns {
		tr := newTermRenderer(fn)
		tr.singleStore = true
		for _, b := range fn.Blocks {
			for _, ins := range b.Instrs {
				fa, ok := ins.(*ssa.FieldAddr)
				if !ok {
					continue
				}
				pst, ok := fa.X.Type().Underlying().(*types.Pointer).Elem().Underlying().(*types.Struct)
				if !ok || !guarded[pst.Field(fa.Field)] {
					continue
				}
				write := false
				if refs := fa.Referrers(); refs != nil {
					for _, r := range *refs {
						switch x := r.(type) {
						case *ssa.Store:
							if x.Addr == fa {
								write = true
							}
						case *ssa.MapUpdate:
							write = true
						}
					}
				}
				// map updates / deletes on a loaded map value also mutate
				if refs := fa.Referrers(); refs != nil {
					for _, r := range *refs {
						if ld, ok := r.(*ssa.UnOp); ok && ld.Op == token.MUL && ld.Referrers() != nil {
							for _, rr := range *ld.Referrers() {
								if mu, ok := rr.(*ssa.MapUpdate); ok && mu.Map == ld {
									write = true
								}
								if call, ok := rr.(*ssa.Call); ok {
									if bi, ok := call.Call.Value.(*ssa.Builtin); ok && bi.Name() == "delete" && len(call.Call.Args) > 0 && call.Call.Args[0] == ld {
										write = true
									}
								}
							}
						}
					}
				}
				mutCall := ""
				if gs.Mutators && !write {
					der := derivedFrom(fa)
					for v := range der {
						refs := v.Referrers()
						if refs == nil {
							continue
						}
						for _, r := range *refs {
							if ci, ok := r.(ssa.CallInstruction); ok {
								cc := ci.Common()
								if f := cc.StaticCallee(); f != nil && len(cc.Args) > 0 && cc.Args[0] == v && f.Pkg != nil && strings.HasPrefix(f.Pkg.Pkg.Path(), modPath) && c.mutatesReceiver(f, map[*ssa.Function]bool{}) {
									write = true
									mutCall = shortFn(f)
								}
							}
						}
					}
				}
				excl := write && gs.WriteExcl
				if !gs.WriteExcl {
					excl = false
				}
				base := tr.term(nil, fa.X, 0)
				name := shortFn(fn)
				checked++
				acc := "read"
				if write {
					acc = "write"
				}
				if mutCall != "" {
					acc = "write (through " + mutCall + ")"
				}
				cons := fmt.Sprintf("%s: %s of %s.%s under %s", name, acc, typeShort(named), pst.Field(fa.Field).Name(), gs.Lock)
				if why, ok := gs.Exempt[name]; ok {
					c.Info(rule, cons+" (frozen exception)", c.Position(fa.Pos()), why)
					continue
				}
				if _, isAlloc := fa.X.(*ssa.Alloc); isAlloc {
					c.Ob(rule, cons, c.Position(fa.Pos()), true, "object under construction (fresh allocation)")
					continue
				}
				if holdsAt(fn, ins, base, excl) {
					c.Ob(rule, cons, c.Position(fa.Pos()), true, "lock held in the accessing function")
					continue
				}
				ok, why := holdsAtEntry(req{fn, base, excl}, 0, map[string]bool{})
				if ok {
					why = "lock held at every (transitive) call site"
				}
				c.Ob(rule, cons, c.Position(fa.Pos()), ok, why)
			}
		}
	}
	return checked
}

// baseParam splits a term like "TxPool#0.x" / "fv:pool.y" into the parameter (or free variable) index and the rest.
func baseParam(fn *ssa.Function, base string) (int, bool, string) {
	tr := newTermRenderer(fn)
	tr.singleStore = true
	for i, p := range fn.Params {
		ps := tr.paramStr[p]
		if base == ps || strings.HasPrefix(base, ps+".") {
			return i, true, base[len(ps):]
		}
	}
	for i, fv := range fn.FreeVars {
		ps := "fv:" + fv.Name()
		if base == ps || strings.HasPrefix(base, ps+".") {
			return len(fn.Params) + i, true, base[len(ps):]
		}
	}
	return 0, false, ""
}

// closureBinding finds, in caller, the instruction creating a closure/bound method of fn and the term bound to
// fn's parameter/free variable number pidx.
func closureBinding(caller, fn *ssa.Function, pidx int) (ssa.Instruction, string) {
	tr := newTermRenderer(caller)
	tr.singleStore = true
	for _, b := range caller.Blocks {
		for _, ins := range b.Instrs {
			mc, ok := ins.(*ssa.MakeClosure)
			if !ok || mc.Fn != fn {
				continue
			}
			fi := pidx - len(fn.Params)
			if fi < 0 || fi >= len(mc.Bindings) {
				return nil, ""
			}
			// where is the closure used? if by a go statement report that instruction
			var use ssa.Instruction = mc
			if refs := mc.Referrers(); refs != nil {
				for _, r := range *refs {
					if g, ok := r.(*ssa.Go); ok {
						use = g
					}
				}
			}
			v := mc.Bindings[fi]
			return use, tr.term(nil, v, 0)
		}
	}
	return nil, ""
}
