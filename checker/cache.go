// Engine `cache`: read-through caches (lru.Cache fields filled on a miss). A clause such as "header, body, receipts and
// total difficulty are retrievable" or "the same result with warm or cold caches" silently relies on every such cache
// being filled only with what was actually loaded, under the key it was looked up with.
package main

import (
	"fmt"
	"strings"

	"golang.org/x/tools/go/ssa"
)

// CacheReadThroughRule checks every function of the given packages that both looks up (Get) and fills (Add) the same
// lru.Cache field: (a) the fill key is the lookup key, (b) the fill happens only on paths where the load produced a
// value (not nil / no error / not the "missing" sentinel). Returns the number of read-through functions found.
func (c *Ctx) CacheReadThroughRule(rule string, pkgs map[string]bool) int {
	n := 0
	for _, fn := range c.SrcFns {
		if fn.Pkg == nil || !pkgs[relPkg(fn.Pkg.Pkg.Path())] || fn.Synthetic != "" {
			continue
		}
		gets := map[string][]ssa.CallInstruction{}
		adds := map[string][]ssa.CallInstruction{}
		var f *Facts
		for _, cs := range callSites(fn, `^Cache\.(Get|Add)$`) {
			if f == nil {
				f = c.Facts(fn)
			}
			cache := f.tr.term(nil, cs.Common().Args[0], 0)
			if strings.HasSuffix(calleeName(cs.Common()), ".Get") {
				gets[cache] = append(gets[cache], cs)
			} else {
				adds[cache] = append(adds[cache], cs)
			}
		}
		for cache, as := range adds {
			gs := gets[cache]
			if len(gs) == 0 {
				continue // write-only in this function (e.g. insertion paths): not a read-through
			}
			n++
			keyGet := f.tr.term(nil, gs[0].Common().Args[1], 0)
			for _, a := range as {
				keyAdd := f.tr.term(nil, a.Common().Args[1], 0)
				val := f.tr.term(nil, a.Common().Args[2], 0)
				load := cacheLoadTerm(val)
				// the fill key is the lookup key, or is derived from the loaded value itself (its own hash)
				okKey := keyAdd == keyGet || strings.HasPrefix(keyAdd, load+".")
				// (b) the loaded value is known good on every path reaching the fill
				okVal, why := true, ""
				for _, st := range f.At(a) {
					good := false
					for l := range st.lits {
						if !strings.Contains(l, load) {
							continue
						}
						if strings.HasSuffix(l, " != nil") && !strings.Contains(l, "#1 != nil") || strings.HasSuffix(l, "#1 == nil") ||
							strings.HasSuffix(l, " != 18446744073709551615") || strings.HasSuffix(l, " != zero(Hash)") || strings.HasSuffix(l, ") > 0") || strings.HasSuffix(l, ") != 0") {
							good = true
						}
					}
					if !good {
						okVal, why = false, "a path fills the cache without having checked the loaded value: "+strings.Join(guardLits(st), "; ")
					}
				}
				c.Ob(rule, fmt.Sprintf("%s: cache %s is filled under its lookup key, only with a value that was actually loaded", shortFn(fn), cache[strings.LastIndex(cache, ".")+1:]),
					c.Position(a.Pos()), okKey && okVal, fmt.Sprintf("Get(%s) ... Add(%s, %s); %s", keyGet, keyAdd, val, why))
			}
		}
	}
	return n
}

// cacheLoadTerm: the call term inside a cached value term (the value itself, or the argument of len(...), or the
// tuple the value was extracted from).
func cacheLoadTerm(val string) string {
	v := val
	if strings.HasPrefix(v, "len(") && strings.HasSuffix(v, ")") {
		v = v[4 : len(v)-1]
	}
	if i := strings.LastIndex(v, ")#"); i > 0 && i+3 >= len(v) {
		v = v[:i+1]
	}
	return v
}
