// Engine `guards`/`order`: bounded path-sensitive forward must-dataflow over go/ssa.
//
// For a function it computes, at every program point, a small set of disjoint path states; each state is the set
// of *literals* (normalised atomic branch conditions, plus "call:<callee>" events) that hold on every path
// summarised by that state. A rule then asks: does every state at point P contain a literal matching L?
//
// Soundness direction: literals are only ever dropped (intersection when more than maxStates states meet, back
// edges cut, bindings killed at loop heads), never invented, so "L holds on all paths to P" is never claimed
// wrongly, under the stated assumption that memory read through field/pointer terms is not written between the
// guard and P (terms are syntactic access paths).
package main

import (
	"fmt"
	"go/constant"
	"go/token"
	"go/types"
	"regexp"
	"sort"
	"strings"

	"golang.org/x/tools/go/ssa"
)

const maxStates = 48

type pstate struct {
	lits map[string]bool
	bind map[ssa.Value]ssa.Value
	k    string // cached key, valid once the state is stored in Facts.in
}

func newPState() *pstate { return &pstate{lits: map[string]bool{}, bind: map[ssa.Value]ssa.Value{}} }

func (s *pstate) clone() *pstate {
	n := &pstate{lits: make(map[string]bool, len(s.lits)+4), bind: make(map[ssa.Value]ssa.Value, len(s.bind)+2)}
	for k := range s.lits {
		n.lits[k] = true
	}
	for k, v := range s.bind {
		n.bind[k] = v
	}
	return n
}

func (s *pstate) key() string {
	ls := make([]string, 0, len(s.lits))
	for k := range s.lits {
		ls = append(ls, k)
	}
	sort.Strings(ls)
	bs := make([]string, 0, len(s.bind))
	for k, v := range s.bind {
		bs = append(bs, k.Name()+"="+v.Name()+v.String())
	}
	sort.Strings(bs)
	return strings.Join(ls, "\x00") + "\x01" + strings.Join(bs, "\x00")
}

func (s *pstate) Lits() []string {
	ls := make([]string, 0, len(s.lits))
	for k := range s.lits {
		ls = append(ls, k)
	}
	sort.Strings(ls)
	return ls
}

func intersect(a, b *pstate) *pstate {
	n := newPState()
	for k := range a.lits {
		if b.lits[k] {
			n.lits[k] = true
		}
	}
	for k, v := range a.bind {
		if b.bind[k] == v {
			n.bind[k] = v
		}
	}
	return n
}

// Facts is the per-function analysis result.
type Facts struct {
	fn       *ssa.Function
	in       map[*ssa.BasicBlock][]*pstate
	cells    map[*ssa.Alloc]bool
	loopHead map[*ssa.BasicBlock]bool
	storedIn map[*ssa.BasicBlock][]*ssa.Alloc // loop head -> cells stored inside the loop
	merged   bool                             // state cap hit somewhere (precision lost, still sound)
	tr       *termRenderer
	focus    *regexp.Regexp // when set, only literals matching it are tracked (keeps the state space small)
	dropBind bool           // when set, only bool/error-typed phi and cell bindings (and those named in bindKeep) are tracked
	bindKeep map[string]bool
	cap      int
}

func (f *Facts) keepLit(l string) bool { return f.focus == nil || f.focus.MatchString(l) }

func (f *Facts) keepBind(v ssa.Value) bool {
	if !f.dropBind {
		return true
	}
	t := v.Type()
	name := ""
	if a, ok := v.(*ssa.Alloc); ok {
		t = a.Type().Underlying().(*types.Pointer).Elem()
		name = a.Comment
	}
	if p, ok := v.(*ssa.Phi); ok {
		name = p.Comment
	}
	if f.bindKeep[name] {
		return true
	}
	// name-independent selection: "type:<type>" keeps every phi/cell of that type
	if len(f.bindKeep) > 0 && f.bindKeep["type:"+typeShort(t)] {
		return true
	}
	return isBoolType(t) || isErrorType(t)
}

// FactsFocus computes path facts tracking only literals that match focus (a projection: sound, and immune to state
// explosion caused by irrelevant branches).
func (c *Ctx) FactsFocus(fn *ssa.Function, focus string, dropBind bool, keep ...string) *Facts {
	key := fmt.Sprintf("%p|%s|%v|%v", fn, focus, dropBind, keep)
	if f, ok := focusCache[key]; ok {
		return f
	}
	f := computeFactsOpt(fn, regexp.MustCompile(focus), dropBind, keep...)
	focusCache[key] = f
	return f
}

var focusCache = map[string]*Facts{}

var factsCache = map[*ssa.Function]*Facts{}

func (c *Ctx) Facts(fn *ssa.Function) *Facts {
	if f, ok := factsCache[fn]; ok {
		return f
	}
	f := computeFacts(fn)
	factsCache[fn] = f
	return f
}

func computeFacts(fn *ssa.Function) *Facts { return computeFactsOpt(fn, nil, false) }

func computeFactsOpt(fn *ssa.Function, focus *regexp.Regexp, dropBind bool, keep ...string) *Facts {
	f := &Facts{fn: fn, focus: focus, dropBind: dropBind, bindKeep: map[string]bool{}, in: map[*ssa.BasicBlock][]*pstate{}, cells: map[*ssa.Alloc]bool{},
		loopHead: map[*ssa.BasicBlock]bool{}, storedIn: map[*ssa.BasicBlock][]*ssa.Alloc{}, tr: newTermRenderer(fn)}
	for _, k := range keep {
		f.bindKeep[k] = true
	}
	f.cap = maxStates
	if focus != nil {
		f.cap = 1024
	}
	if len(fn.Blocks) == 0 {
		return f
	}
	// trackable cells: allocs used only as load/store addresses
	for _, b := range fn.Blocks {
		for _, ins := range b.Instrs {
			if a, ok := ins.(*ssa.Alloc); ok && cellTrackable(a) {
				f.cells[a] = true
			}
		}
	}
	// back edges
	isBack := func(u, v *ssa.BasicBlock) bool { return v.Dominates(u) }
	for _, b := range fn.Blocks {
		for _, s := range b.Succs {
			if isBack(b, s) {
				f.loopHead[s] = true
			}
		}
	}
	for h := range f.loopHead {
		seen := map[*ssa.Alloc]bool{}
		for _, b := range fn.Blocks {
			if !h.Dominates(b) {
				continue
			}
			for _, ins := range b.Instrs {
				if st, ok := ins.(*ssa.Store); ok {
					if a, ok := st.Addr.(*ssa.Alloc); ok && f.cells[a] && !seen[a] {
						seen[a] = true
						f.storedIn[h] = append(f.storedIn[h], a)
					}
				}
			}
		}
	}
	// reverse postorder over forward edges
	order := rpo(fn)
	f.in[fn.Blocks[0]] = []*pstate{newPState()}
	for _, b := range order {
		ins := f.in[b]
		if len(ins) == 0 {
			continue
		}
		if f.loopHead[b] {
			for _, s := range ins {
				for _, a := range f.storedIn[b] {
					delete(s.bind, a)
				}
				for _, i := range b.Instrs {
					if p, ok := i.(*ssa.Phi); ok {
						delete(s.bind, p)
					} else {
						break
					}
				}
			}
		}
		for _, s := range ins {
			cur := s.clone()
			f.transferBlock(b, cur, nil)
			f.propagate(b, cur, isBack)
		}
	}
	return f
}

func cellTrackable(a *ssa.Alloc) bool {
	refs := a.Referrers()
	if refs == nil {
		return false
	}
	for _, r := range *refs {
		switch x := r.(type) {
		case *ssa.Store:
			if x.Addr != a {
				return false
			}
		case *ssa.UnOp:
			if x.Op != token.MUL {
				return false
			}
		case *ssa.DebugRef:
		case *ssa.MakeClosure:
			// captured by a closure that only reads it: the enclosing function stays the only writer
			if !closureOnlyReads(x, a) {
				return false
			}
		default:
			return false
		}
	}
	return true
}

// closureOnlyReads: every free variable of the closure bound to cell a is used only as a load address.
func closureOnlyReads(mc *ssa.MakeClosure, a *ssa.Alloc) bool {
	fn, ok := mc.Fn.(*ssa.Function)
	if !ok {
		return false
	}
	for i, b := range mc.Bindings {
		if b != a {
			continue
		}
		if i >= len(fn.FreeVars) {
			return false
		}
		refs := fn.FreeVars[i].Referrers()
		if refs == nil {
			return false
		}
		for _, r := range *refs {
			switch x := r.(type) {
			case *ssa.UnOp:
				if x.Op != token.MUL {
					return false
				}
			case *ssa.DebugRef:
			default:
				return false
			}
		}
	}
	return true
}

func rpo(fn *ssa.Function) []*ssa.BasicBlock {
	seen := map[*ssa.BasicBlock]bool{}
	var post []*ssa.BasicBlock
	var visit func(b *ssa.BasicBlock)
	visit = func(b *ssa.BasicBlock) {
		seen[b] = true
		for _, s := range b.Succs {
			if !seen[s] {
				visit(s)
			}
		}
		post = append(post, b)
	}
	visit(fn.Blocks[0])
	for i, j := 0, len(post)-1; i < j; i, j = i+1, j-1 {
		post[i], post[j] = post[j], post[i]
	}
	return post
}

// transferBlock applies the instructions of b to cur, stopping before `stop` if non-nil. Returns true if stopped.
func (f *Facts) transferBlock(b *ssa.BasicBlock, cur *pstate, stop ssa.Instruction) bool {
	for _, ins := range b.Instrs {
		if ins == stop {
			return true
		}
		switch x := ins.(type) {
		case *ssa.Store:
			if a, ok := x.Addr.(*ssa.Alloc); ok && f.cells[a] && f.keepBind(a) {
				cur.bind[a] = resolve(cur, x.Val)
			}
			if _, ok := x.Addr.(*ssa.FieldAddr); ok {
				if l := "store:" + f.tr.term(cur, x.Addr, 0) + "=" + f.tr.term(cur, x.Val, 0); f.keepLit(l) {
					cur.lits[l] = true
				}
			}
		case *ssa.UnOp:
			if x.Op == token.MUL {
				if a, ok := x.X.(*ssa.Alloc); ok && f.cells[a] {
					if v, ok := cur.bind[a]; ok {
						cur.bind[x] = v
					}
				}
			}
			if x.Op == token.ARROW {
				if l := "recv:" + f.tr.term(cur, x.X, 0); f.keepLit(l) {
					cur.lits[l] = true
				}
			}
		case *ssa.Call:
			f.addCallFacts(cur, &x.Call, "call:")
		case *ssa.Defer:
			f.addCallFacts(cur, &x.Call, "defer:")
		case *ssa.Go:
			f.addCallFacts(cur, &x.Call, "go:")
		}
	}
	return false
}

func (f *Facts) addCallFacts(cur *pstate, cc *ssa.CallCommon, prefix string) {
	name := calleeName(cc)
	if name == "" {
		name = "dyn:" + f.tr.term(cur, cc.Value, 0)
	}
	if f.keepLit(prefix + name) {
		cur.lits[prefix+name] = true
	}
	if prefix == "call:" {
		if l := "called:" + f.tr.callTerm(cur, cc, 0); f.keepLit(l) {
			cur.lits[l] = true
		}
	}
}

// calleeName gives a stable name for the callee: "pkg.Func", "(*pkg.T).M" -> "T.M", interface invoke -> "I.M".
func calleeName(cc *ssa.CallCommon) string {
	if cc.IsInvoke() {
		return typeShort(cc.Value.Type()) + "." + cc.Method.Name()
	}
	if b, ok := cc.Value.(*ssa.Builtin); ok {
		return b.Name()
	}
	if fn := cc.StaticCallee(); fn != nil {
		return funcShort(fn)
	}
	return ""
}

func funcShort(fn *ssa.Function) string {
	if fn.Signature.Recv() != nil {
		return typeShort(fn.Signature.Recv().Type()) + "." + fn.Name()
	}
	if fn.Pkg != nil {
		return fn.Pkg.Pkg.Name() + "." + fn.Name()
	}
	if fn.Parent() != nil {
		return funcShort(fn.Parent()) + "$" + fn.Name()
	}
	// instantiated generic or synthetic
	if o := fn.Object(); o != nil && o.Pkg() != nil {
		return o.Pkg().Name() + "." + o.Name()
	}
	return fn.Name()
}

func typeShort(t types.Type) string {
	switch x := t.(type) {
	case *types.Pointer:
		return typeShort(x.Elem())
	case *types.Named:
		return x.Obj().Name()
	case *types.Alias:
		return x.Obj().Name()
	case *types.Slice:
		return "[]" + typeShort(x.Elem())
	case *types.Array:
		return fmt.Sprintf("[%d]%s", x.Len(), typeShort(x.Elem()))
	case *types.Basic:
		return x.Name()
	case *types.Map:
		return "map[" + typeShort(x.Key()) + "]" + typeShort(x.Elem())
	case *types.Interface:
		return "iface"
	case *types.Signature:
		return "func"
	}
	return "T"
}

func (f *Facts) propagate(b *ssa.BasicBlock, cur *pstate, isBack func(u, v *ssa.BasicBlock) bool) {
	if len(b.Instrs) == 0 {
		return
	}
	last := b.Instrs[len(b.Instrs)-1]
	push := func(succ *ssa.BasicBlock, s *pstate) {
		if isBack(b, succ) {
			return
		}
		// bind phis of succ for this edge
		idx := -1
		for i, p := range succ.Preds {
			if p == b {
				idx = i
			}
		}
		for _, i := range succ.Instrs {
			p, ok := i.(*ssa.Phi)
			if !ok {
				break
			}
			if idx >= 0 && idx < len(p.Edges) && f.keepBind(p) {
				s.bind[p] = resolve(s, p.Edges[idx])
			}
		}
		f.addState(succ, s)
	}
	switch t := last.(type) {
	case *ssa.If:
		cond := resolve(cur, t.Cond)
		if k, ok := cond.(*ssa.Const); ok && k.Value != nil && k.Value.Kind() == constant.Bool {
			if constant.BoolVal(k.Value) {
				push(b.Succs[0], cur.clone())
			} else {
				push(b.Succs[1], cur.clone())
			}
			return
		}
		if bo, ok := cond.(*ssa.BinOp); ok {
			if _, isCmp := flipOp[bo.Op]; isCmp {
				a, ok1 := constInt(resolve(cur, bo.X))
				bb, ok2 := constInt(resolve(cur, bo.Y))
				if ok1 && ok2 {
					if evalCmp(bo.Op, a, bb) {
						push(b.Succs[0], cur.clone())
					} else {
						push(b.Succs[1], cur.clone())
					}
					return
				}
				// an address-of / allocation compared with nil is never equal
				{
					x, y := resolve(cur, bo.X), resolve(cur, bo.Y)
					if isNilConst(y) && addrNonNil(x) || isNilConst(x) && addrNonNil(y) {
						if bo.Op == token.EQL {
							push(b.Succs[1], cur.clone())
							return
						} else if bo.Op == token.NEQ {
							push(b.Succs[0], cur.clone())
							return
						}
					}
				}
				// nil compared with nil (an error variable that is the constant nil on this path)
				if xk, okx := resolve(cur, bo.X).(*ssa.Const); okx && xk.Value == nil && isNillable(xk.Type()) {
					if yk, oky := resolve(cur, bo.Y).(*ssa.Const); oky && yk.Value == nil && isNillable(yk.Type()) {
						if bo.Op == token.EQL {
							push(b.Succs[0], cur.clone())
							return
						} else if bo.Op == token.NEQ {
							push(b.Succs[1], cur.clone())
							return
						}
					}
				}
			}
		}
		for si, succ := range b.Succs {
			s := cur.clone()
			for _, l := range f.tr.literals(s, cond, si == 0) {
				if f.keepLit(l) {
					s.lits[l] = true
				}
			}
			// contradiction pruning: a state holding both L and its negation is infeasible
			if f.infeasible(s, cond, si == 0) {
				continue
			}
			push(succ, s)
		}
	case *ssa.Jump:
		push(b.Succs[0], cur.clone())
	}
}

func isNilConst(v ssa.Value) bool {
	k, ok := v.(*ssa.Const)
	return ok && k.Value == nil && isNillable(k.Type())
}

// addrNonNil: values that are never nil by construction (element/field addresses, allocations).
func addrNonNil(v ssa.Value) bool {
	switch v.(type) {
	case *ssa.IndexAddr, *ssa.Alloc, *ssa.MakeSlice, *ssa.MakeMap, *ssa.MakeChan, *ssa.MakeClosure, *ssa.MakeInterface, *ssa.Function:
		return true
	}
	return false
}

func (f *Facts) infeasible(s *pstate, cond ssa.Value, pol bool) bool {
	for _, l := range f.tr.literals(s, cond, !pol) {
		if s.lits[l] {
			return true
		}
	}
	return false
}

func (f *Facts) addState(b *ssa.BasicBlock, s *pstate) {
	k := s.key()
	s.k = k
	for _, o := range f.in[b] {
		if o.k == k {
			return
		}
	}
	f.in[b] = append(f.in[b], s)
	for len(f.in[b]) > f.cap {
		// merge the two most similar states (keeps as many literals as possible; still a sound under-approximation)
		st := f.in[b]
		bi, bj, best := 0, 1, -1
		for i := 0; i < len(st); i++ {
			for j := i + 1; j < len(st); j++ {
				n := 0
				for k := range st[i].lits {
					if st[j].lits[k] {
						n++
					}
				}
				// prefer pairs that lose the fewest literals
				score := 2*n - len(st[i].lits) - len(st[j].lits)
				if best == -1 || score > best-1000000 && score+1000000 > best {
					if best == -1 || score+1000000 > best {
						best, bi, bj = score+1000000, i, j
					}
				}
			}
		}
		m := intersect(st[bi], st[bj])
		var out []*pstate
		for i, o := range st {
			if i != bi && i != bj {
				out = append(out, o)
			}
		}
		dup := false
		mk := m.key()
		m.k = mk
		for _, o := range out {
			if o.k == mk {
				dup = true
			}
		}
		if !dup {
			out = append(out, m)
		}
		f.in[b] = out
		f.merged = true
	}
}

func resolve(s *pstate, v ssa.Value) ssa.Value {
	for i := 0; i < 8; i++ {
		n, ok := s.bind[v]
		if !ok || n == v {
			return v
		}
		v = n
	}
	return v
}

// At returns the path states holding immediately before instruction ins.
func (f *Facts) At(ins ssa.Instruction) []*pstate {
	b := ins.Block()
	var out []*pstate
	for _, s := range f.in[b] {
		cur := s.clone()
		f.transferBlock(b, cur, ins)
		out = append(out, cur)
	}
	return out
}

// ReturnState is a path state at a return together with the return instruction.
type ReturnState struct {
	Ret   *ssa.Return
	State *pstate
}

// AcceptingReturns yields the states at every return on which result #idx may have the accepting value:
// for error results "nil", for bool results `want`. When the returned value is not a constant the literal
// that makes it accepting is added to the state (so `return f(x)` is accepting exactly under `f(x) == nil`).
// idx < 0 selects the last result.
func (f *Facts) AcceptingReturns(idx int, wantBool bool) []ReturnState {
	var out []ReturnState
	for _, b := range f.fn.Blocks {
		if len(b.Instrs) == 0 {
			continue
		}
		ret, ok := b.Instrs[len(b.Instrs)-1].(*ssa.Return)
		if !ok || len(ret.Results) == 0 {
			if ok && len(ret.Results) == 0 {
				for _, s := range f.At(ret) {
					out = append(out, ReturnState{ret, s})
				}
			}
			continue
		}
		i := idx
		if i < 0 {
			i = len(ret.Results) - 1
		}
		for _, s := range f.At(ret) {
			v := resolve(s, ret.Results[i])
			if k, ok := v.(*ssa.Const); ok {
				if k.Value == nil { // nil
					if !isBoolType(k.Type()) {
						out = append(out, ReturnState{ret, s})
					}
					continue
				}
				if k.Value.Kind() == constant.Bool {
					if constant.BoolVal(k.Value) == wantBool {
						out = append(out, ReturnState{ret, s})
					}
					continue
				}
				// other constant: accepting unless it is an error (never)
				out = append(out, ReturnState{ret, s})
				continue
			}
			if mi, ok := v.(*ssa.MakeInterface); ok && isErrorType(ret.Results[i].Type()) {
				_ = mi // a concrete non-nil error value
				continue
			}
			if neverNilError(v) || sentinelError(v) {
				continue
			}
			if arg := nilPreservedArg(v); arg != nil {
				// return wrap(err): nil only when err is nil
				a := resolve(s, arg)
				if neverNilError(a) || sentinelError(a) {
					continue
				}
				if _, isMI := a.(*ssa.MakeInterface); isMI {
					continue
				}
				if at := f.tr.term(s, a, 0); s.lits[at+" != nil"] {
					continue
				}
			}
			if isBoolType(v.Type()) {
				if f.infeasible(s, v, wantBool) {
					continue
				}
				for _, l := range f.tr.literals(s, v, wantBool) {
					s.lits[l] = true
				}
				out = append(out, ReturnState{ret, s})
				continue
			}
			if isErrorType(v.Type()) || isNillable(v.Type()) {
				t := f.tr.term(s, v, 0)
				if s.lits[t+" != nil"] {
					continue // rejecting path
				}
				s.lits[t+" == nil"] = true
				s.lits["nil == "+t] = true
				out = append(out, ReturnState{ret, s})
				continue
			}
			out = append(out, ReturnState{ret, s})
		}
	}
	return out
}

func isBoolType(t types.Type) bool {
	b, ok := t.Underlying().(*types.Basic)
	return ok && b.Info()&types.IsBoolean != 0
}

func isErrorType(t types.Type) bool {
	return types.Identical(t, types.Universe.Lookup("error").Type())
}

func isNillable(t types.Type) bool {
	switch t.Underlying().(type) {
	case *types.Pointer, *types.Interface, *types.Slice, *types.Map, *types.Chan, *types.Signature:
		return true
	}
	return false
}

// AllReturns yields states at every return.
func (f *Facts) AllReturns() []ReturnState {
	var out []ReturnState
	for _, b := range f.fn.Blocks {
		if len(b.Instrs) == 0 {
			continue
		}
		if ret, ok := b.Instrs[len(b.Instrs)-1].(*ssa.Return); ok {
			for _, s := range f.At(ret) {
				out = append(out, ReturnState{ret, s})
			}
		}
	}
	return out
}

// Calls returns the call instructions (call/defer/go) of fn whose callee name matches re.
func (f *Facts) Calls(re *regexp.Regexp) []ssa.CallInstruction {
	var out []ssa.CallInstruction
	for _, b := range f.fn.Blocks {
		for _, ins := range b.Instrs {
			if ci, ok := ins.(ssa.CallInstruction); ok {
				n := calleeName(ci.Common())
				if n == "" {
					n = "dyn:" + f.tr.term(nil, ci.Common().Value, 0)
				}
				if re.MatchString(n) {
					out = append(out, ci)
				}
			}
		}
	}
	return out
}

// hasLit reports whether state s contains a literal matching re.
func hasLit(s *pstate, re *regexp.Regexp) (string, bool) {
	for l := range s.lits {
		if re.MatchString(l) {
			return l, true
		}
	}
	return "", false
}

// allHave: every state has a literal matching re. Returns a witness literal, or the literal list of a failing state.
func allHave(states []*pstate, re *regexp.Regexp) (bool, string) {
	w := ""
	for _, s := range states {
		l, ok := hasLit(s, re)
		if !ok {
			return false, strings.Join(guardLits(s), "; ")
		}
		w = l
	}
	return true, w
}

func guardLits(s *pstate) []string {
	var out []string
	for _, l := range s.Lits() {
		if strings.HasPrefix(l, "call:") || strings.HasPrefix(l, "called:") || strings.HasPrefix(l, "defer:") || strings.HasPrefix(l, "go:") || strings.HasPrefix(l, "recv:") || strings.HasPrefix(l, "store:") {
			continue
		}
		out = append(out, l)
	}
	return out
}

// ---- term rendering ------------------------------------------------------------------------------------------

type termRenderer struct {
	fn       *ssa.Function
	paramStr map[*ssa.Parameter]string
	allocOrd map[*ssa.Alloc]int
	// singleStore: render an Alloc that is stored exactly once (captured parameter copies) as the stored value.
	singleStore bool
	// callOrd: ordinal of calls to impure producers (Stack.pop, intPool.get) so that distinct results get distinct terms
	callOrd map[*ssa.Call]int
	phiOrd  map[*ssa.Phi]int
}

func impureProducer(c *ssa.CallCommon) string {
	f := c.StaticCallee()
	if f == nil || f.Signature.Recv() == nil {
		return ""
	}
	r := f.Signature.Recv().Type().String()
	if strings.HasSuffix(r, "vm.Stack") && f.Name() == "pop" {
		return "pop"
	}
	if strings.HasSuffix(r, "vm.intPool") && f.Name() == "get" {
		return "get"
	}
	return ""
}

func newTermRenderer(fn *ssa.Function) *termRenderer {
	t := &termRenderer{fn: fn, paramStr: map[*ssa.Parameter]string{}, allocOrd: map[*ssa.Alloc]int{}}
	acnt := map[string]int{}
	for _, b := range fn.Blocks {
		for _, ins := range b.Instrs {
			if a, ok := ins.(*ssa.Alloc); ok && a.Heap {
				ts := typeShort(a.Type())
				acnt[ts]++
				t.allocOrd[a] = acnt[ts]
			}
		}
	}
	t.phiOrd = map[*ssa.Phi]int{}
	phcnt := map[string]int{}
	for _, b := range fn.Blocks {
		for _, ins := range b.Instrs {
			if p, ok := ins.(*ssa.Phi); ok {
				phcnt[p.Comment]++
				t.phiOrd[p] = phcnt[p.Comment]
			}
		}
	}
	t.callOrd = map[*ssa.Call]int{}
	pcnt := map[string]int{}
	for _, b := range fn.Blocks {
		for _, ins := range b.Instrs {
			if call, ok := ins.(*ssa.Call); ok {
				if k := impureProducer(&call.Call); k != "" {
					pcnt[k]++
					t.callOrd[call] = pcnt[k]
				}
			}
		}
	}
	cnt := map[string]int{}
	for _, p := range fn.Params {
		ts := typeShort(p.Type())
		t.paramStr[p] = fmt.Sprintf("%s#%d", ts, cnt[ts])
		cnt[ts]++
	}
	return t
}

const maxTermDepth = 7

func (t *termRenderer) term(s *pstate, v ssa.Value, d int) string {
	if d > maxTermDepth {
		return "…"
	}
	if s != nil {
		v = resolve(s, v)
	}
	switch x := v.(type) {
	case *ssa.Const:
		return constStr(x)
	case *ssa.Parameter:
		if ps, ok := t.paramStr[x]; ok {
			return ps
		}
		return typeShort(x.Type()) + "#?" + x.Name()
	case *ssa.FreeVar:
		return "fv:" + freeVarName(x)
	case *ssa.Global:
		return x.Pkg.Pkg.Name() + "." + x.Name()
	case *ssa.Function:
		return "func:" + funcShort(x)
	case *ssa.FieldAddr:
		st := x.X.Type().Underlying().(*types.Pointer).Elem().Underlying().(*types.Struct)
		return t.term(s, x.X, d+1) + "." + st.Field(x.Field).Name()
	case *ssa.Field:
		st := x.X.Type().Underlying().(*types.Struct)
		return t.term(s, x.X, d+1) + "." + st.Field(x.Field).Name()
	case *ssa.UnOp:
		switch x.Op {
		case token.MUL:
			return t.term(s, x.X, d) // loads are transparent: access paths
		case token.NOT:
			return "!" + t.term(s, x.X, d+1)
		case token.ARROW:
			return "<-" + t.term(s, x.X, d+1)
		}
		return x.Op.String() + t.term(s, x.X, d+1)
	case *ssa.Convert:
		return t.term(s, x.X, d)
	case *ssa.ChangeType:
		return t.term(s, x.X, d)
	case *ssa.ChangeInterface:
		return t.term(s, x.X, d)
	case *ssa.MakeInterface:
		return t.term(s, x.X, d)
	case *ssa.BinOp:
		return "(" + t.term(s, x.X, d+1) + " " + x.Op.String() + " " + t.term(s, x.Y, d+1) + ")"
	case *ssa.Extract:
		return t.term(s, x.Tuple, d) + "#" + fmt.Sprint(x.Index)
	case *ssa.Call:
		r := t.callTerm(s, &x.Call, d)
		if o := t.callOrd[x]; o > 1 {
			r += fmt.Sprintf("~%d", o)
		}
		return r
	case *ssa.Phi:
		if o := t.phiOrd[x]; o > 1 {
			return fmt.Sprintf("phi:%s~%d", x.Comment, o)
		}
		return "phi:" + x.Comment
	case *ssa.Slice:
		// variadic argument packs: new([N]T)[:] with constant-index stores -> [e0, e1, ...]
		if a, ok := x.X.(*ssa.Alloc); ok && x.Low == nil && x.High == nil {
			if arr, ok := a.Type().Underlying().(*types.Pointer).Elem().Underlying().(*types.Array); ok && arr.Len() <= 16 {
				elems := make([]string, arr.Len())
				found := 0
				if refs := a.Referrers(); refs != nil {
					for _, r := range *refs {
						ia, ok := r.(*ssa.IndexAddr)
						if !ok {
							continue
						}
						idx, ok := constInt(ia.Index)
						if !ok || idx < 0 || idx >= arr.Len() || ia.Referrers() == nil {
							continue
						}
						for _, rr := range *ia.Referrers() {
							if st, ok := rr.(*ssa.Store); ok && st.Addr == ia {
								elems[idx] = t.term(s, st.Val, d+1)
								found++
							}
						}
					}
				}
				if int64(found) == arr.Len() {
					return "[" + strings.Join(elems, ", ") + "]"
				}
			}
		}
		lo, hi := "", ""
		if x.Low != nil {
			lo = t.term(s, x.Low, d+1)
		}
		if x.High != nil {
			hi = t.term(s, x.High, d+1)
		}
		return t.term(s, x.X, d+1) + "[" + lo + ":" + hi + "]"
	case *ssa.Alloc:
		if v := singleStoredValue(x); v != nil {
			if _, isParam := v.(*ssa.Parameter); isParam || t.singleStore {
				return t.term(s, v, d+1)
			}
		}
		if x.Heap {
			r := "new(" + typeShort(x.Type().Underlying().(*types.Pointer).Elem()) + ")"
			if o := t.allocOrd[x]; o > 1 {
				r += fmt.Sprintf("~%d", o)
			}
			return r
		}
		return "var:" + x.Comment
	case *ssa.IndexAddr:
		return t.term(s, x.X, d+1) + "[" + t.term(s, x.Index, d+1) + "]"
	case *ssa.Index:
		return t.term(s, x.X, d+1) + "[" + t.term(s, x.Index, d+1) + "]"
	case *ssa.Lookup:
		return t.term(s, x.X, d+1) + "[" + t.term(s, x.Index, d+1) + "]"
	case *ssa.TypeAssert:
		return t.term(s, x.X, d+1) + ".(" + typeShort(x.AssertedType) + ")"
	case *ssa.MakeClosure:
		return "closure:" + funcShort(x.Fn.(*ssa.Function))
	case *ssa.MakeSlice:
		return "make(" + typeShort(x.Type()) + ")"
	case *ssa.MakeMap:
		return "make(" + typeShort(x.Type()) + ")"
	case *ssa.Builtin:
		return x.Name()
	case *ssa.Range:
		return "range(" + t.term(s, x.X, d+1) + ")"
	case *ssa.Next:
		return "next(" + t.term(s, x.Iter, d+1) + ")"
	case *ssa.Select:
		return "select"
	}
	return fmt.Sprintf("?%T", v)
}

func constStr(k *ssa.Const) string {
	if k.Value == nil {
		if !isNillable(k.Type()) {
			if b, ok := k.Type().Underlying().(*types.Basic); !ok || b.Kind() != types.UntypedNil {
				return "zero(" + typeShort(k.Type()) + ")"
			}
		}
		return "nil"
	}
	switch k.Value.Kind() {
	case constant.Int, constant.Bool:
		return k.Value.ExactString()
	case constant.String:
		return k.Value.ExactString()
	}
	return k.Value.String()
}

func (t *termRenderer) callTerm(s *pstate, c *ssa.CallCommon, d int) string {
	var args []string
	for _, a := range c.Args {
		args = append(args, t.term(s, a, d+1))
	}
	if c.IsInvoke() {
		return t.term(s, c.Value, d+1) + "." + c.Method.Name() + "(" + strings.Join(args, ", ") + ")"
	}
	if b, ok := c.Value.(*ssa.Builtin); ok {
		return b.Name() + "(" + strings.Join(args, ", ") + ")"
	}
	if f := c.StaticCallee(); f != nil {
		if f.Signature.Recv() != nil && len(args) > 0 {
			return args[0] + "." + f.Name() + "(" + strings.Join(args[1:], ", ") + ")"
		}
		name := f.Name()
		if f.Pkg != nil {
			name = f.Pkg.Pkg.Name() + "." + name
		} else if o := f.Object(); o != nil && o.Pkg() != nil {
			name = o.Pkg().Name() + "." + o.Name()
		}
		if mc, ok := c.Value.(*ssa.MakeClosure); ok {
			name = "closure:" + funcShort(mc.Fn.(*ssa.Function))
		}
		return name + "(" + strings.Join(args, ", ") + ")"
	}
	return "dyn:" + t.term(s, c.Value, d+1) + "(" + strings.Join(args, ", ") + ")"
}

var flipOp = map[token.Token]token.Token{token.LSS: token.GEQ, token.GEQ: token.LSS, token.GTR: token.LEQ, token.LEQ: token.GTR, token.EQL: token.NEQ, token.NEQ: token.EQL}
var mirrorOp = map[token.Token]token.Token{token.LSS: token.GTR, token.GTR: token.LSS, token.LEQ: token.GEQ, token.GEQ: token.LEQ, token.EQL: token.EQL, token.NEQ: token.NEQ}

// relFromTruth maps the truth set of a predicate over a three-way comparison result {-1,0,1} to a relation.
func relFromTruth(lt, eq, gt bool) (token.Token, bool) {
	switch {
	case lt && !eq && !gt:
		return token.LSS, true
	case lt && eq && !gt:
		return token.LEQ, true
	case !lt && eq && !gt:
		return token.EQL, true
	case lt && !eq && gt:
		return token.NEQ, true
	case !lt && !eq && gt:
		return token.GTR, true
	case !lt && eq && gt:
		return token.GEQ, true
	}
	return token.ILLEGAL, false
}

func evalCmp(op token.Token, a, b int64) bool {
	switch op {
	case token.LSS:
		return a < b
	case token.LEQ:
		return a <= b
	case token.GTR:
		return a > b
	case token.GEQ:
		return a >= b
	case token.EQL:
		return a == b
	case token.NEQ:
		return a != b
	}
	return false
}

func constInt(v ssa.Value) (int64, bool) {
	k, ok := v.(*ssa.Const)
	if !ok || k.Value == nil || k.Value.Kind() != constant.Int {
		return 0, false
	}
	return constant.Int64Val(k.Value)
}

// literals renders the atomic condition `cond` with polarity pol as normalised strings (both operand orders).
func (t *termRenderer) literals(s *pstate, cond ssa.Value, pol bool) []string {
	cond = resolve(s, cond)
	switch x := cond.(type) {
	case *ssa.UnOp:
		if x.Op == token.NOT {
			return t.literals(s, x.X, !pol)
		}
	case *ssa.BinOp:
		if _, ok := flipOp[x.Op]; ok {
			op := x.Op
			if !pol {
				op = flipOp[op]
			}
			l, r := resolve(s, x.X), resolve(s, x.Y)
			// three-way comparison results against a small constant
			if lt, rt, rel, ok := t.threeWay(s, l, r, op); ok {
				return []string{lt + " " + rel.String() + " " + rt, rt + " " + mirrorOp[rel].String() + " " + lt}
			}
			if lt, rt, rel, ok := t.threeWay(s, r, l, mirrorOp[op]); ok {
				return []string{lt + " " + rel.String() + " " + rt, rt + " " + mirrorOp[rel].String() + " " + lt}
			}
			// bool compared with constant
			if isBoolType(l.Type()) {
				if k, ok := r.(*ssa.Const); ok && k.Value != nil && k.Value.Kind() == constant.Bool {
					p := constant.BoolVal(k.Value)
					if op == token.NEQ {
						p = !p
					}
					return t.literals(s, l, p)
				}
			}
			lt, rt := t.term(s, l, 0), t.term(s, r, 0)
			return []string{lt + " " + op.String() + " " + rt, rt + " " + mirrorOp[op].String() + " " + lt}
		}
	case *ssa.Call:
		if f := x.Call.StaticCallee(); f != nil && f.Pkg != nil && !x.Call.IsInvoke() {
			full := f.Pkg.Pkg.Path() + "." + f.Name()
			if (full == "bytes.Equal" || full == "crypto/hmac.Equal" || full == "crypto/subtle.ConstantTimeCompare") && len(x.Call.Args) == 2 {
				a, b := t.term(s, x.Call.Args[0], 0), t.term(s, x.Call.Args[1], 0)
				op := "=="
				if !pol {
					op = "!="
				}
				return []string{a + " " + op + " " + b, b + " " + op + " " + a}
			}
			// a module-local predicate helper that is one comparison over its parameters (e.g.
			// `func embeddable(size int) bool { return size <= hashLen }`) is read through: extracting such a helper
			// leaves the guard literal unchanged, and a wrong operator or constant inside it is still seen
			if strings.HasPrefix(f.Pkg.Pkg.Path(), modPath) && len(f.Blocks) == 1 && f.Signature.Recv() == nil {
				if ret, ok := f.Blocks[0].Instrs[len(f.Blocks[0].Instrs)-1].(*ssa.Return); ok && len(ret.Results) == 1 {
					p, v := pol, ret.Results[0]
					for {
						u, isNot := v.(*ssa.UnOp)
						if !isNot || u.Op != token.NOT {
							break
						}
						p, v = !p, u.X
					}
					if bo, ok := v.(*ssa.BinOp); ok {
						if _, isCmp := flipOp[bo.Op]; isCmp {
							lt, ok1 := t.inlineOperand(s, f, &x.Call, bo.X, 0)
							rt, ok2 := t.inlineOperand(s, f, &x.Call, bo.Y, 0)
							if ok1 && ok2 {
								op := bo.Op
								if !p {
									op = flipOp[op]
								}
								return []string{lt + " " + op.String() + " " + rt, rt + " " + mirrorOp[op].String() + " " + lt}
							}
						}
					}
				}
			}
		}
	}
	ts := t.term(s, cond, 0)
	if pol {
		return []string{ts}
	}
	return []string{"!" + ts}
}

// freeVarName identifies a captured variable independently of its spelling when it is a parameter of the enclosing
// function (captured directly or through its spill cell): "Type#ordinal" as for parameters; otherwise the source name.
var fvNameMemo = map[*ssa.FreeVar]string{}

func freeVarName(fv *ssa.FreeVar) string {
	if n, ok := fvNameMemo[fv]; ok {
		return n
	}
	name := fv.Name()
	fn := fv.Parent()
	parent := fn.Parent()
	idx := -1
	for i, v := range fn.FreeVars {
		if v == fv {
			idx = i
		}
	}
	if parent != nil && idx >= 0 {
		for _, b := range parent.Blocks {
			for _, ins := range b.Instrs {
				mc, ok := ins.(*ssa.MakeClosure)
				if !ok || mc.Fn != fn || idx >= len(mc.Bindings) {
					continue
				}
				bind := mc.Bindings[idx]
				var par *ssa.Parameter
				switch x := bind.(type) {
				case *ssa.Parameter:
					par = x
				case *ssa.Alloc:
					// the spill cell of a parameter: exactly one store, of the parameter, in the entry block
					n := 0
					for _, st := range storesInto(parent, x) {
						n++
						if p, isP := st.(*ssa.Parameter); isP {
							par = p
						}
					}
					if n != 1 {
						par = nil
					}
				}
				if par != nil {
					if ps, ok := newTermRenderer(parent).paramStr[par]; ok {
						name = ps
					}
				}
			}
		}
	}
	fvNameMemo[fv] = name
	return name
}

// inlineOperand renders an operand of a one-comparison helper in the caller's terms: parameters become the call's
// arguments, constants stay, len() and conversions are followed. Anything else makes the helper opaque.
func (t *termRenderer) inlineOperand(s *pstate, callee *ssa.Function, call *ssa.CallCommon, v ssa.Value, d int) (string, bool) {
	if d > 4 {
		return "", false
	}
	switch x := v.(type) {
	case *ssa.Const:
		return constStr(x), true
	case *ssa.Parameter:
		for i, p := range callee.Params {
			if p == x && i < len(call.Args) {
				return t.term(s, call.Args[i], 0), true
			}
		}
	case *ssa.Convert:
		return t.inlineOperand(s, callee, call, x.X, d+1)
	case *ssa.ChangeType:
		return t.inlineOperand(s, callee, call, x.X, d+1)
	case *ssa.Call:
		if b, ok := x.Call.Value.(*ssa.Builtin); ok && b.Name() == "len" && len(x.Call.Args) == 1 {
			if a, ok := t.inlineOperand(s, callee, call, x.Call.Args[0], d+1); ok {
				return "len(" + a + ")", true
			}
		}
	case *ssa.BinOp:
		if _, isCmp := flipOp[x.Op]; !isCmp {
			a, ok1 := t.inlineOperand(s, callee, call, x.X, d+1)
			b, ok2 := t.inlineOperand(s, callee, call, x.Y, d+1)
			if ok1 && ok2 {
				return "(" + a + " " + x.Op.String() + " " + b + ")", true
			}
		}
	}
	return "", false
}

// threeWay recognises `x.Cmp(y) OP k`, `x.Sign() OP k`, `bytes.Compare(a,b) OP k`.
func (t *termRenderer) threeWay(s *pstate, l, r ssa.Value, op token.Token) (string, string, token.Token, bool) {
	call, ok := l.(*ssa.Call)
	if !ok {
		return "", "", 0, false
	}
	k, ok := constInt(r)
	if !ok || k < -1 || k > 1 {
		return "", "", 0, false
	}
	f := call.Call.StaticCallee()
	if f == nil {
		return "", "", 0, false
	}
	var a, b string
	switch {
	case f.Name() == "Cmp" && f.Signature.Recv() != nil && len(call.Call.Args) == 2:
		a, b = t.term(s, call.Call.Args[0], 0), t.term(s, call.Call.Args[1], 0)
	case f.Name() == "Sign" && f.Signature.Recv() != nil && len(call.Call.Args) == 1:
		a, b = t.term(s, call.Call.Args[0], 0), "0"
	case f.Name() == "Compare" && f.Pkg != nil && f.Pkg.Pkg.Path() == "bytes" && len(call.Call.Args) == 2:
		a, b = t.term(s, call.Call.Args[0], 0), t.term(s, call.Call.Args[1], 0)
	default:
		return "", "", 0, false
	}
	rel, ok := relFromTruth(evalCmp(op, -1, k), evalCmp(op, 0, k), evalCmp(op, 1, k))
	if !ok {
		return "", "", 0, false
	}
	return a, b, rel, true
}

// ---- rule helpers ---------------------------------------------------------------------------------------------

// MustOnAccept: on every accepting return path of fn a literal matching each pattern holds.
// patterns: name -> regexp over normalised literals.
type LitReq struct {
	Name   string
	Re     string
	Unless string // states carrying a literal matching Unless are exempt (conditional obligation C => must(L))
	OnePhi bool   // every phi token in the matching literal belongs to one and the same source variable (whatever its name)
}

var phiTokAll = regexp.MustCompile(`phi:(\w+)(~\d+)?`)

// onePhiVar: all phi tokens of the literal name one source variable.
func onePhiVar(l string) bool {
	base := ""
	for _, m := range phiTokAll.FindAllStringSubmatch(l, -1) {
		if m[1] == "rangeindex" {
			continue
		}
		if base != "" && m[1] != base {
			return false
		}
		base = m[1]
	}
	return true
}

func hasLitOnePhi(s *pstate, re *regexp.Regexp) (string, bool) {
	for l := range s.lits {
		if re.MatchString(l) && onePhiVar(l) {
			return l, true
		}
	}
	return "", false
}

func (r LitReq) check(states []*pstate) (ok bool, witness string, failing *pstate, exempt int) {
	re := regexp.MustCompile(r.Re)
	var un *regexp.Regexp
	if r.Unless != "" {
		un = regexp.MustCompile(r.Unless)
	}
	ok = true
	for _, s := range states {
		if un != nil {
			if _, has := hasLit(s, un); has {
				exempt++
				continue
			}
		}
		find := hasLit
		if r.OnePhi {
			find = hasLitOnePhi
		}
		if l, has := find(s, re); has {
			witness = l
		} else {
			return false, "", s, exempt
		}
	}
	return ok, witness, nil, exempt
}

func (c *Ctx) MustOnAccept(rule string, fn *ssa.Function, resIdx int, wantBool bool, reqs []LitReq) {
	f := c.Facts(fn)
	rets := f.AcceptingReturns(resIdx, wantBool)
	if len(rets) == 0 {
		c.Ob(rule, shortFn(fn)+": accepting return exists", c.FnPos(fn), false, "no accepting return path found (analysis cannot decide)")
		return
	}
	var states []*pstate
	for _, r := range rets {
		states = append(states, r.State)
	}
	c.mustStates(rule, fn, "accepting return", states, reqs)
}

func (c *Ctx) mustStates(rule string, fn *ssa.Function, where string, states []*pstate, reqs []LitReq) {
	for _, r := range reqs {
		ok, w, failing, exempt := r.check(states)
		detail := fmt.Sprintf("%d path states at %s, %d exempt; e.g. %s", len(states), where, exempt, w)
		if ok && exempt == len(states) {
			ok = false
			detail = fmt.Sprintf("all %d path states at %s are exempt by /%s/: obligation is vacuous", len(states), where, r.Unless)
		}
		if !ok && failing != nil {
			detail = fmt.Sprintf("a path to %s lacks a literal matching /%s/; guard literals on that path: %s", where, r.Re, strings.Join(guardLits(failing), "; "))
		}
		c.Ob(rule, shortFn(fn)+": "+r.Name, c.FnPos(fn), ok, detail)
	}
}

// MustBefore: every path state immediately before each call matching callRe carries a literal matching each req.
func (c *Ctx) MustBefore(rule string, fn *ssa.Function, callRe string, minSites int, reqs []LitReq) {
	f := c.Facts(fn)
	sites := f.Calls(regexp.MustCompile(callRe))
	if len(sites) < minSites {
		c.Ob(rule, shortFn(fn)+": call "+callRe+" present", c.FnPos(fn), false, fmt.Sprintf("expected at least %d call sites matching /%s/, found %d", minSites, callRe, len(sites)))
		return
	}
	var states []*pstate
	for _, site := range sites {
		states = append(states, f.At(site)...)
	}
	c.mustStates(rule, fn, "call "+callRe, states, reqs)
}

// LoopBackStates returns the path states at the end of every back edge of the innermost loop containing a call
// matching callRe: what holds on every path through one full iteration that continues the loop.
func (f *Facts) LoopBackStates(callRe string) []*pstate {
	sites := f.Calls(regexp.MustCompile(callRe))
	if len(sites) == 0 {
		return nil
	}
	// innermost loop head dominating the call's block with a back edge source dominated by head and reachable from
	// it; the first call site that lies inside a loop decides (a site on an exit path of the loop is not "in" it)
	var head *ssa.BasicBlock
	for _, site := range sites {
		cb := site.Block()
		for h := range f.loopHead {
			if !h.Dominates(cb) {
				continue
			}
			inLoop := false
			for _, p := range h.Preds {
				if h.Dominates(p) && reaches(cb, p, h) {
					inLoop = true
				}
			}
			if !inLoop {
				continue
			}
			if head == nil || head.Dominates(h) {
				head = h
			}
		}
		if head != nil {
			break
		}
	}
	if head == nil {
		return nil
	}
	var out []*pstate
	for _, p := range head.Preds {
		if !head.Dominates(p) {
			continue
		}
		for _, s := range f.in[p] {
			cur := s.clone()
			f.transferBlock(p, cur, nil)
			if ifi, ok := p.Instrs[len(p.Instrs)-1].(*ssa.If); ok {
				cond := resolve(cur, ifi.Cond)
				pol := p.Succs[0] == head
				if f.infeasible(cur, cond, pol) {
					continue
				}
				for _, l := range f.tr.literals(cur, cond, pol) {
					cur.lits[l] = true
				}
			}
			out = append(out, cur)
		}
	}
	return out
}

// reaches: is `to` reachable from `from` without passing through `avoid` (forward CFG walk)?
func reaches(from, to, avoid *ssa.BasicBlock) bool {
	seen := map[*ssa.BasicBlock]bool{}
	var walk func(b *ssa.BasicBlock) bool
	walk = func(b *ssa.BasicBlock) bool {
		if b == to {
			return true
		}
		if seen[b] || b == avoid {
			return false
		}
		seen[b] = true
		for _, s := range b.Succs {
			if walk(s) {
				return true
			}
		}
		return false
	}
	return walk(from)
}

func (c *Ctx) MustLoopBack(rule string, fn *ssa.Function, callRe string, reqs []LitReq) {
	f := c.Facts(fn)
	st := f.LoopBackStates(callRe)
	if len(st) == 0 {
		c.Ob(rule, shortFn(fn)+": loop containing "+callRe, c.FnPos(fn), false, "no loop containing a call matching /"+callRe+"/ found")
		return
	}
	c.mustStates(rule, fn, "loop iteration end (loop containing "+callRe+")", st, reqs)
}

func mustRe(s string) *regexp.Regexp { return regexp.MustCompile(s) }

// PhiRow is one path state at the join that defines a named variable: the value selected and the literals that hold.
type PhiRow struct {
	Val   string
	State *pstate
}

// PhiTableOf returns, for every path state entering phi's block, the value the phi takes on that path.
func (f *Facts) PhiTableOf(phi *ssa.Phi) []PhiRow {
	var rows []PhiRow
	if phi == nil {
		return nil
	}
	for _, s := range f.in[phi.Block()] {
		rows = append(rows, PhiRow{Val: f.tr.term(s, phi, 0), State: s})
	}
	return rows
}

// PhiTable finds the last phi (highest block) named `name` in fn and returns, for every path state entering its
// block, the value the phi takes on that path.
func (f *Facts) PhiTable(name string) (*ssa.Phi, []PhiRow) {
	var phi *ssa.Phi
	for _, b := range f.fn.Blocks {
		for _, ins := range b.Instrs {
			if p, ok := ins.(*ssa.Phi); ok && p.Comment == name {
				if phi == nil || p.Block().Index > phi.Block().Index {
					phi = p
				}
			}
		}
	}
	if phi == nil {
		return nil, nil
	}
	var rows []PhiRow
	for _, s := range f.in[phi.Block()] {
		rows = append(rows, PhiRow{Val: f.tr.term(s, phi, 0), State: s})
	}
	return phi, rows
}

// neverNilError: calls that construct an error (fmt.Errorf, errors.New) never return nil.
func neverNilError(v ssa.Value) bool {
	call, ok := v.(*ssa.Call)
	if !ok {
		return false
	}
	f := call.Call.StaticCallee()
	if f == nil || f.Pkg == nil {
		return false
	}
	switch f.Pkg.Pkg.Path() + "." + f.Name() {
	case "fmt.Errorf", "errors.New":
		return true
	}
	return funcNeverNil(f, 0)
}

// nilPreservedArg: v is a call to a source function whose error result is nil only if one of its
// error parameters is nil (every return yields that parameter or a constructed error); returns that argument.
func nilPreservedArg(v ssa.Value) ssa.Value {
	call, ok := v.(*ssa.Call)
	if !ok {
		return nil
	}
	f := call.Call.StaticCallee()
	if f == nil || len(f.Blocks) == 0 || call.Call.IsInvoke() {
		return nil
	}
	res := f.Signature.Results()
	if res.Len() != 1 || !isErrorType(res.At(0).Type()) {
		return nil
	}
	var par *ssa.Parameter
	for _, b := range f.Blocks {
		ret, isRet := b.Instrs[len(b.Instrs)-1].(*ssa.Return)
		if !isRet {
			continue
		}
		r := ret.Results[0]
		if p, isP := r.(*ssa.Parameter); isP {
			if par != nil && par != p {
				return nil
			}
			par = p
			continue
		}
		if _, isMI := r.(*ssa.MakeInterface); isMI {
			continue
		}
		if neverNilError(r) || sentinelError(r) {
			continue
		}
		return nil
	}
	if par == nil {
		return nil
	}
	for i, p := range f.Params {
		if p == par && i < len(call.Call.Args) {
			return call.Call.Args[i]
		}
	}
	return nil
}

var neverNilMemo = map[*ssa.Function]bool{}

// funcNeverNil: a source function all of whose returns yield a constructed (non-nil) error as last result.
func funcNeverNil(f *ssa.Function, depth int) bool {
	if v, ok := neverNilMemo[f]; ok {
		return v
	}
	if len(f.Blocks) == 0 || depth > 2 {
		return false
	}
	neverNilMemo[f] = false
	res := f.Signature.Results()
	if res.Len() == 0 || !isErrorType(res.At(res.Len()-1).Type()) {
		return false
	}
	ok := true
	n := 0
	for _, b := range f.Blocks {
		ret, isRet := b.Instrs[len(b.Instrs)-1].(*ssa.Return)
		if !isRet {
			continue
		}
		n++
		v := ret.Results[len(ret.Results)-1]
		switch x := v.(type) {
		case *ssa.MakeInterface:
		case *ssa.Call:
			cf := x.Call.StaticCallee()
			if cf == nil || cf.Pkg == nil {
				ok = false
			} else if full := cf.Pkg.Pkg.Path() + "." + cf.Name(); full != "fmt.Errorf" && full != "errors.New" && !funcNeverNil(cf, depth+1) {
				ok = false
			}
		default:
			if !sentinelError(v) {
				ok = false
			}
		}
	}
	neverNilMemo[f] = ok && n > 0
	return ok && n > 0
}

// sentinelError: a load of a package-level error variable (ErrX = errors.New(...)); assumed non-nil.
func sentinelError(v ssa.Value) bool {
	u, ok := v.(*ssa.UnOp)
	if !ok || u.Op != token.MUL {
		return false
	}
	_, ok = u.X.(*ssa.Global)
	return ok && isErrorType(u.Type())
}

// ---- order helpers ---------------------------------------------------------------------------------------------

// instrDominates: a executes before b on every path to b (same function).
func instrDominates(a, b ssa.Instruction) bool {
	if a.Block() == b.Block() {
		for _, i := range a.Block().Instrs {
			if i == a {
				return true
			}
			if i == b {
				return false
			}
		}
		return false
	}
	return a.Block().Dominates(b.Block())
}

// callSites returns the call instructions in fn whose callee name matches re.
func callSites(fn *ssa.Function, re string) []ssa.CallInstruction {
	r := regexp.MustCompile(re)
	var out []ssa.CallInstruction
	var tr *termRenderer
	for _, b := range fn.Blocks {
		for _, ins := range b.Instrs {
			if ci, ok := ins.(ssa.CallInstruction); ok {
				n := calleeName(ci.Common())
				if n == "" {
					if tr == nil {
						tr = newTermRenderer(fn)
					}
					n = "dyn:" + tr.term(nil, ci.Common().Value, 0)
				}
				if r.MatchString(n) {
					out = append(out, ci)
				}
			}
		}
	}
	return out
}

// AllDominatedBy: every call matching reB is dominated by some call matching reA. Obligation per B site.
func (c *Ctx) AllDominatedBy(rule string, fn *ssa.Function, reA, reB string, minB int, what string) {
	as := callSites(fn, reA)
	bs := callSites(fn, reB)
	if len(bs) < minB {
		c.Ob(rule, shortFn(fn)+": "+what, c.FnPos(fn), false, fmt.Sprintf("expected at least %d calls matching /%s/, found %d", minB, reB, len(bs)))
		return
	}
	for _, b := range bs {
		ok := false
		for _, a := range as {
			if instrDominates(a, b) {
				ok = true
			}
		}
		c.Ob(rule, shortFn(fn)+": "+what, c.Position(b.Pos()), ok, fmt.Sprintf("call %s must be preceded on every path by a call matching /%s/", calleeName(b.Common()), reA))
	}
}

// termOf renders an SSA value of fn without path bindings.
func (c *Ctx) termOf(fn *ssa.Function, v ssa.Value) string {
	return c.Facts(fn).tr.term(nil, v, 0)
}

func singleStoredValue(a *ssa.Alloc) ssa.Value {
	refs := a.Referrers()
	if refs == nil {
		return nil
	}
	var val ssa.Value
	n := 0
	for _, r := range *refs {
		if st, ok := r.(*ssa.Store); ok && st.Addr == a {
			n++
			val = st.Val
		}
	}
	if n == 1 {
		return val
	}
	return nil
}

// loopExitsAfter: every edge leaving the loop headed by h, other than the header's own condition exit, starts in a
// block dominated by the block of `must` (the loop is left early only after `must` has run in that iteration).
func loopExitsAfter(h *ssa.BasicBlock, must ssa.Instruction) (bool, string) {
	fn := h.Parent()
	inLoop := map[*ssa.BasicBlock]bool{}
	for _, b := range fn.Blocks {
		if h.Dominates(b) && (b == h || reaches(b, h, nil)) {
			inLoop[b] = true
		}
	}
	if !inLoop[must.Block()] {
		return false, "the required call is not inside the loop"
	}
	for b := range inLoop {
		for _, s := range b.Succs {
			if inLoop[s] || b == h {
				continue
			}
			if !must.Block().Dominates(b) {
				return false, fmt.Sprintf("block %d leaves the loop without passing the required call", b.Index)
			}
		}
	}
	return true, ""
}
