package main

import (
	"fmt"
	"regexp"
	"sort"
	"strings"

	"golang.org/x/tools/go/ssa"
)

// C07 EVM execution is total, gas-bounded and sandboxed for every program.

func init() { register("C07", []string{"./..."}, runC07) }

var stateMutators = map[string]bool{"SetState": true, "AddBalance": true, "SubBalance": true, "Suicide": true, "AddLog": true, "SetCode": true,
	"SetNonce": true, "CreateAccount": true, "AddRefund": true, "AddPreimage": false}

func runC07(c *Ctx) {
	c.Explanation = "Ordering, guard, table and abstract-interpretation rules over core/vm: the five call/create entry points take a state snapshot before any state mutation and revert to it on every failing exit, guarded by the depth (1024) and balance checks; the interpreter loop executes an instruction only after validity, stack validation, static-call restrictions, overflow-checked memory sizing and gas payment, and grows memory only after the gas was paid; every instruction-table entry is well-formed, its execute function never reads deeper or grows the stack more than its validateStack declares (abstract interpretation of pop/peek/Back/push/dup/swap with constant-folded closure parameters), every unguarded big.Int->machine-int conversion of a stack operand is covered by the entry's memorySize function, entries whose execute function can reach a state-mutating StateDB method are flagged `writes`, overflow flags of SafeAdd/SafeMul/bigUint64 are consumed, and precompiles run only after their gas was charged. Decides these structural conditions on every path; numeric proportionality of gas to memory and panics inside math/big or precompile libraries are not decided."
	c.NotDecided = []string{"that gas formulas make allocation proportional to gas numerically", "absence of panics inside math/big and third-party precompile libraries", "termination of precompiles"}
	c.Assumptions = []string{"vm.StateDB implementations journal every mutation (C09)", "reflect-free dispatch: operations are called only through the jump table"}
	tabs := c.extractVMTables()

	siblings := []string{"Call", "CallCode", "DelegateCall", "StaticCall", "Create"}
	c.Rule("C07-R1", "snapshot before any state mutation and revert on every failing exit, in all five call/create entry points", func() {
		for _, name := range siblings {
			fn := c.Fn("core/vm:(*EVM)." + name)
			f := c.Facts(fn)
			fr := c.FactsFocus(fn, `RevertToSnapshot|UseGas|errExecutionReverted|== nil$|!= nil$|^nil [!=]=|vm\.run\(|IsHomestead|ErrCodeStoreOutOfGas`, false)
			snap := mustRe(`^called:EVM#0\.StateDB\.Snapshot\(\)$`)
			nmut := 0
			for _, b := range fn.Blocks {
				for _, ins := range b.Instrs {
					ci, ok := ins.(*ssa.Call)
					if !ok {
						continue
					}
					cn := calleeName(&ci.Call)
					isMut := false
					what := cn
					if strings.HasPrefix(cn, "StateDB.") && stateMutators[strings.TrimPrefix(cn, "StateDB.")] {
						isMut = true
					}
					if cn == "" {
						t := f.tr.term(nil, ci.Call.Value, 0)
						if t == "EVM#0.Context.Transfer" {
							isMut, what = true, "Context.Transfer"
						}
					}
					if cn == "vm.run" {
						isMut, what = true, "run (nested execution)"
					}
					if !isMut {
						continue
					}
					if name == "Create" && cn == "StateDB.SetNonce" && strings.HasPrefix(f.tr.term(nil, ci.Call.Args[0], 0), "ContractRef#0.Address()") {
						c.Info("C07-R1", "Create: creator nonce increment precedes the snapshot (kept on failure by specification)", c.Position(ci.Pos()), "")
						continue
					}
					nmut++
					ok2, w := allHave(f.At(ci), snap)
					c.Ob("C07-R1", fmt.Sprintf("EVM.%s: %s happens after Snapshot()", name, what), c.Position(ci.Pos()), ok2, w)
				}
			}
			if nmut == 0 {
				c.Ob("C07-R1", "EVM."+name+": state-mutating calls found", c.FnPos(fn), false, "none found")
			}
			// every return reached after run() on which err may be non-nil has reverted to the snapshot
			nret := 0
			for _, rs := range fr.AllReturns() {
				if _, ran := hasLit(rs.State, mustRe(`^called:vm\.run\(`)); !ran {
					continue
				}
				nret++
				_, rev := hasLit(rs.State, mustRe(`^called:EVM#0\.StateDB\.RevertToSnapshot\(EVM#0\.StateDB\.Snapshot\(\)\)$`))
				// error-free means: the error this return hands back is nil on this path (not merely that run() succeeded:
				// Create replaces a nil error by errMaxCodeSizeExceeded afterwards)
				et := fr.tr.term(rs.State, rs.Ret.Results[len(rs.Ret.Results)-1], 0)
				errNil := et == "nil" || rs.State.lits[et+" == nil"]
				okk := rev || errNil
				detail := ""
				if !okk {
					detail = "a return after run() neither reverted nor is known error-free; literals: " + strings.Join(guardLits(rs.State), "; ")
				}
				// Create: the homestead code-store exception keeps state although err != nil (specification: pre-homestead)
				if !okk && name == "Create" {
					if _, pre := hasLit(rs.State, mustRe(`^!EVM#0\.ChainConfig\(\)\.IsHomestead\(`)); pre {
						if _, cs := hasLit(rs.State, mustRe(`== vm\.ErrCodeStoreOutOfGas$`)); cs {
							okk = true
						}
					}
				}
				c.Ob("C07-R1", fmt.Sprintf("EVM.%s: failing exit reverts to the snapshot", name), c.Position(rs.Ret.Pos()), okk, detail)
				// gas: all gas consumed unless the error is a revert
				if rev {
					_, used := hasLit(rs.State, mustRe(`^called:.*\.UseGas\(.*\.Gas\)$`))
					_, isRevert := hasLit(rs.State, mustRe(`== vm\.errExecutionReverted$`))
					c.Ob("C07-R1", fmt.Sprintf("EVM.%s: a failing frame keeps gas only for REVERT", name), c.Position(rs.Ret.Pos()), used || isRevert, strings.Join(guardLits(rs.State), "; "))
				}
			}
			if nret == 0 {
				c.Ob("C07-R1", "EVM."+name+": returns after run() found", c.FnPos(fn), false, "")
			}
		}
	})
	c.Min("C07-R1", 30)

	c.Rule("C07-R2", "depth and balance guards dominate nested execution; depth counter is balanced", func() {
		for _, name := range siblings {
			fn := c.Fn("core/vm:(*EVM)." + name)
			reqs := []LitReq{{Name: "call depth <= 1024", Re: `^EVM#0\.depth <= 1024$`}}
			if name == "Call" || name == "CallCode" || name == "Create" {
				reqs = append(reqs, LitReq{Name: "caller can afford the value", Re: `^dyn:EVM#0\.Context\.CanTransfer\(EVM#0\.StateDB, ContractRef#0\.Address\(\), Int#0\)$`})
			}
			c.MustBefore("C07-R2", fn, `^vm\.run$`, 1, reqs)
		}
		c.ConstIs("C07-R2", "params:CallCreateDepth", "1024")
		run := c.Fn("core/vm:(*Interpreter).Run")
		inc, dec := false, false
		for _, fn := range append([]*ssa.Function{run}, run.AnonFuncs...) {
			tr := newTermRenderer(fn)
			tr.singleStore = true
			for _, b := range fn.Blocks {
				for _, ins := range b.Instrs {
					st, ok := ins.(*ssa.Store)
					if !ok {
						continue
					}
					fa, ok := st.Addr.(*ssa.FieldAddr)
					if !ok || fieldName(fa) != "depth" {
						continue
					}
					v := tr.term(nil, st.Val, 0)
					if strings.HasSuffix(v, ".depth + 1)") && fn == run && b.Index == 0 {
						inc = true
					}
					if strings.HasSuffix(v, ".depth - 1)") && fn != run {
						dec = true
					}
				}
			}
		}
		hasDefer := false
		for _, ins := range run.Blocks[0].Instrs {
			if _, ok := ins.(*ssa.Defer); ok {
				hasDefer = true
			}
		}
		c.Ob("C07-R2", "Interpreter.Run: depth++ on entry with a deferred depth--", c.FnPos(run), inc && dec && hasDefer, fmt.Sprintf("inc=%v dec=%v deferred=%v", inc, dec, hasDefer))
		c.fieldWrittenOnlyIn("C07-R2", "core/vm:EVM.depth", map[string]bool{"(*core/vm.Interpreter).Run": true, "(*core/vm.Interpreter).Run$1": true})
	})
	c.Min("C07-R2", 12)

	c.Rule("C07-R3", "interpreter pipeline: valid, stack validated, restrictions enforced, memory size overflow-checked, gas paid before execute; memory grows only after payment", func() {
		run := c.Fn("core/vm:(*Interpreter).Run")
		op := `var:\w+` // the local holding the current operation, whatever it is called
		metered := `^Interpreter#0\.cfg\.DisableGasMetering$`
		c.MustBefore("C07-R3", run, `^dyn:var:\w+\.execute$`, 1, []LitReq{
			{Name: "operation is valid", Re: `^` + op + `\.valid$`},
			{Name: "stack validated", Re: `^dyn:` + op + `\.validateStack\(.*\) == nil$`},
			{Name: "static-call restrictions enforced", Re: `^Interpreter#0\.enforceRestrictions\(.*\) == nil$`},
			{Name: "memory size did not overflow uint64", Unless: `^` + op + `\.memorySize == nil$`, Re: `^!vm\.bigUint64\(dyn:` + op + `\.memorySize\(.*\)\)#1$`},
			{Name: "word-rounded memory size did not overflow", Unless: `^` + op + `\.memorySize == nil$`, Re: `^!math\.SafeMul\(vm\.toWordSize\(.*\), 32\)#1$`},
			{Name: "gas cost computed without error", Unless: metered, Re: `^(dyn:` + op + `\.gasCost\(.*\)#1 == nil|var:\w+ == nil|new\(error\) == nil)$`},
			{Name: "gas paid", Unless: metered, Re: `^.*\.UseGas\(.*\)$`},
		})
		c.MustBefore("C07-R3", run, `^Memory\.Resize$`, 1, []LitReq{
			{Name: "memory grows only after the gas for it was paid", Unless: metered, Re: `^.*\.UseGas\(.*\)$`},
			{Name: "resize size is the overflow-checked, word-rounded size", Re: `^!math\.SafeMul\(vm\.toWordSize\(.*\), 32\)#1$`},
		})
		// Resize argument is that same value
		for _, s := range callSites(run, `^Memory\.Resize$`) {
			t := c.termOf(run, s.Common().Args[1])
			c.Ob("C07-R3", "Interpreter.Run: Resize(memorySize) uses the checked size", c.Position(s.Pos()), c07IsCheckedSize(run, s.Common().Args[1]), "argument: "+t)
		}
		// the same memorySize value is what gasCost was charged for
		for _, s := range callSites(run, `^dyn:var:\w+\.gasCost$`) {
			a := s.Common().Args
			t := c.termOf(run, a[len(a)-1])
			c.Ob("C07-R3", "Interpreter.Run: gasCost is charged for the size memory will be resized to", c.Position(s.Pos()), c07IsCheckedSize(run, a[len(a)-1]), "last argument: "+t)
		}
	})
	c.Min("C07-R3", 11)

	c.Rule("C07-R4", "static-call write protection: guard shape, readOnly lifetime and `writes` flag = effect", func() {
		er := c.Fn("core/vm:(*Interpreter).enforceRestrictions")
		c.MustOnAccept("C07-R4", er, -1, false, []LitReq{
			{Name: "a write operation is rejected in read-only mode", Unless: `^(!Interpreter#0\.evm\.chainRules\.IsByzantium|!Interpreter#0\.readOnly)$`, Re: `^!operation#0\.writes$`},
			{Name: "CALL with value is rejected in read-only mode", Unless: `^(!Interpreter#0\.evm\.chainRules\.IsByzantium|!Interpreter#0\.readOnly)$`,
				Re: `^(OpCode#0 != 241|Stack#0\.Back\(2\)\.BitLen\(\) <= 0)$`},
		})
		sc := c.Fn("core/vm:(*EVM).StaticCall")
		f := c.Facts(sc)
		c.MustBefore("C07-R4", sc, `^vm\.run$`, 1, []LitReq{
			{Name: "StaticCall sets readOnly before running (or it is already set)", Re: `^(EVM#0\.interpreter\.readOnly|defer:vm\.StaticCall\$1)$`},
		})
		setTrue, restore := false, false
		for _, fn := range append([]*ssa.Function{sc}, sc.AnonFuncs...) {
			tr := newTermRenderer(fn)
			for _, b := range fn.Blocks {
				for _, ins := range b.Instrs {
					if st, ok := ins.(*ssa.Store); ok {
						if fa, ok := st.Addr.(*ssa.FieldAddr); ok && fieldName(fa) == "readOnly" {
							v := tr.term(nil, st.Val, 0)
							if v == "true" && fn == sc {
								setTrue = true
							}
							if v == "false" && fn != sc {
								restore = true
							}
						}
					}
				}
			}
		}
		c.Ob("C07-R4", "StaticCall: readOnly = true with a deferred readOnly = false", c.FnPos(sc), setTrue && restore, fmt.Sprintf("set=%v deferred restore=%v", setTrue, restore))
		// the flag is one field shared by every frame of the interpreter: a nested static call that finds it already
		// set must neither set nor (on return) clear it, or the enclosing static frame continues unprotected. So the
		// store of true, and the registration of the deferred clear, happen only on paths that found the flag clear.
		var guarded []*pstate
		owned := true
		var setBlk *ssa.BasicBlock
		for _, b := range sc.Blocks {
			for _, ins := range b.Instrs {
				if st, ok := ins.(*ssa.Store); ok {
					if fa, ok := st.Addr.(*ssa.FieldAddr); ok && fieldName(fa) == "readOnly" {
						guarded = append(guarded, f.At(ins)...)
						setBlk = b
					}
				}
			}
		}
		for _, b := range sc.Blocks {
			for _, ins := range b.Instrs {
				d, ok := ins.(*ssa.Defer)
				if !ok {
					continue
				}
				if mc, ok := d.Call.Value.(*ssa.MakeClosure); ok {
					if cf, ok := mc.Fn.(*ssa.Function); ok && writesField(cf, "readOnly") {
						if setBlk == nil || !setBlk.Dominates(b) {
							owned = false
						}
					}
				}
			}
		}
		c.mustStates("C07-R4", sc, "the store to readOnly", guarded, []LitReq{
			{Name: "readOnly is set (and its clearing registered) only by the frame that found it clear", Re: `^!EVM#0\.interpreter\.readOnly$`},
		})
		c.Ob("C07-R4", "StaticCall: the deferred clear is registered only after this frame's own set", c.FnPos(sc), owned && len(guarded) > 0, fmt.Sprintf("stores=%d dominated=%v", len(guarded), owned))
		c.fieldWrittenOnlyIn("C07-R4", "core/vm:Interpreter.readOnly", map[string]bool{"(*core/vm.EVM).StaticCall": true, "(*core/vm.EVM).StaticCall$1": true})
		// effect agreement
		g := c.CG()
		reenter := map[*ssa.Function]bool{}
		for _, n := range siblings {
			if n != "Create" { // Create always mutates (creator nonce, new account); the call shells only through value transfer (CALL clause)
				reenter[c.Fn("core/vm:(*EVM)."+n)] = true
			}
		}
		reenter[c.Fn("core/vm:run")] = true
		sdb := c.Type("core/vm:StateDB")
		_ = sdb
		seen := map[string]bool{}
		for _, set := range tabs.order {
			for op, e := range tabs.own[set] {
				if seen[e.execName+fmt.Sprint(e.execArgs)] {
					continue
				}
				seen[e.execName+fmt.Sprint(e.execArgs)] = true
				fn, _, why := c.resolveVMFunc(e.execName, e.execArgs)
				if fn == nil {
					c.Ob("C07-R4", set+"["+op+"] execute resolvable", c.Position(e.pos), false, why)
					continue
				}
				reach := g.Reach([]*ssa.Function{fn}, ReachOpts{Stop: func(f *ssa.Function) bool { return reenter[f] }})
				var muts []string
				// direct interface invokes inside reachable vm functions
				for rf := range reach {
					if rf.Pkg == nil || relPkg(rf.Pkg.Pkg.Path()) != "core/vm" || reenter[rf] {
						continue
					}
					for _, b := range rf.Blocks {
						for _, ins := range b.Instrs {
							ci, ok := ins.(ssa.CallInstruction)
							if !ok || !ci.Common().IsInvoke() {
								continue
							}
							if typeShort(ci.Common().Value.Type()) == "StateDB" && stateMutators[ci.Common().Method.Name()] {
								muts = append(muts, ci.Common().Method.Name())
							}
						}
					}
				}
				sort.Strings(muts)
				writes := len(muts) > 0
				c.Ob("C07-R4", fmt.Sprintf("%s (%s): writes flag equals its state effect", e.execName+fmt.Sprint(e.execArgs), op), c.Position(e.pos), e.flags["writes"] == writes,
					fmt.Sprintf("declared writes=%v; reachable state mutations outside nested calls: %v", e.flags["writes"], muts))
			}
		}
	})
	c.Min("C07-R4", 60)

	c.Rule("C07-R5", "instruction tables are well-formed; every non-halting instruction costs gas (termination)", func() {
		for _, set := range tabs.order {
			for op, e := range tabs.own[set] {
				if !e.flags["valid"] {
					c.Ob("C07-R5", set+"["+op+"] is marked valid", c.Position(e.pos), false, "an entry that is present but not valid")
					continue
				}
				ok := e.execName != "" && e.gasName != "" && e.vsName != ""
				c.Ob("C07-R5", set+"["+op+"] has execute, gasCost and validateStack", c.Position(e.pos), ok, fmt.Sprintf("execute=%q gasCost=%q validateStack=%q", e.execName, e.gasName, e.vsName))
				g, isConst, _ := c.vmConstGas(e)
				if isConst && !e.flags["halts"] {
					c.Ob("C07-R5", set+"["+op+"] non-halting instruction has positive constant gas", c.Position(e.pos), g > 0, fmt.Sprintf("constant gas %d", g))
				}
			}
		}
		// dynamic gas functions: every accepting return yields a positive amount is not decidable in general; check that each
		// adds a positive constant or a gas-table field (structure): recorded as covered by C08-R2 (dynamic) + this note.
		// the jump-destination bitmap: PUSH data may run up to 32 bytes past the end of the code (a truncated PUSH32 as
		// the last byte marks positions len .. len+31 with four two-byte set8 writes), so the highest byte written is
		// len/8 + 4 and the allocation must be at least len/8 + 5 for every code length. The allocation expression is
		// evaluated symbolically for len = 0..4096 (it is periodic in len mod 8).
		cb := c.Fn("core/vm:codeBitmap")
		nMake := 0
		for _, b := range cb.Blocks {
			for _, ins := range b.Instrs {
				ms, ok := ins.(*ssa.MakeSlice)
				if !ok {
					continue
				}
				nMake++
				okSize, bad := true, ""
				for L := int64(0); L <= 4096; L++ {
					sz, ok := fxEvalInt(ms.Len, map[ssa.Value]int64{cb.Params[0]: L})
					if !ok {
						okSize, bad = false, "allocation size is not an arithmetic expression over len(code)"
						break
					}
					if sz < L/8+5 {
						okSize, bad = false, fmt.Sprintf("len(code)=%d: allocates %d bytes, a trailing PUSH32 writes byte %d", L, sz, L/8+4)
						break
					}
				}
				c.Ob("C07-R5", "codeBitmap allocates room for push data running past the end of the code (no out-of-range write for any code)", c.Position(ms.Pos()), okSize, "make(bitvec, "+c.termOf(cb, ms.Len)+"); "+bad)
			}
		}
		if nMake != 1 {
			c.Ob("C07-R5", "codeBitmap has one allocation", c.FnPos(cb), false, fmt.Sprintf("%d", nMake))
		}
	})
	c.Min("C07-R5", 240)

	c.Rule("C07-R6", "stack-effect conformance: execute never reads deeper nor grows more than validateStack declares", func() {
		seen := map[string]bool{}
		for _, set := range tabs.order {
			for op, e := range tabs.own[set] {
				id := fmt.Sprint(e.execName, e.execArgs, e.vsName, e.vsArgs)
				if seen[id] {
					continue
				}
				seen[id] = true
				fn, env, why := c.resolveVMFunc(e.execName, e.execArgs)
				if fn == nil {
					c.Ob("C07-R6", set+"["+op+"] execute resolvable", c.Position(e.pos), false, why)
					continue
				}
				eff := stackEffect(fn, env)
				pop, push, okpp := e.popPush()
				ok := okpp && eff.note == "" && eff.need <= pop && eff.net <= push-pop
				c.Ob("C07-R6", fmt.Sprintf("%s%v vs %s%v (%s)", e.execName, e.execArgs, e.vsName, e.vsArgs, op), c.Position(e.pos), ok,
					fmt.Sprintf("execute reads %d deep, net growth %+d (all paths: %v); validateStack guarantees %d items and room for %+d %s", eff.need, eff.net, eff.nets, pop, push-pop, eff.note))
				// validateStack closure really checks require(pop) and the limit
			}
		}
		ms := c.Fn("core/vm:makeStackFunc")
		if len(ms.AnonFuncs) == 1 {
			cf := ms.AnonFuncs[0]
			c.MustOnAccept("C07-R6", cf, -1, false, []LitReq{
				{Name: "validateStack requires `pop` items", Re: `^Stack#0\.require\(fv:int#0\) == nil$`},
				{Name: "validateStack enforces the 1024 stack limit", Re: `^\(\(Stack#0\.len\(\) \+ fv:int#1\) - fv:int#0\) <= 1024$`},
			})
		} else {
			c.Ob("C07-R6", "makeStackFunc returns one closure", c.FnPos(ms), false, "")
		}
		rq := c.Fn("core/vm:(*Stack).require")
		c.MustOnAccept("C07-R6", rq, -1, false, []LitReq{{Name: "require(n): len >= n", Re: `^Stack#0\.len\(\) >= int#0$`}})
	})
	c.Min("C07-R6", 130)

	c.Rule("C07-R7", "memory-operand agreement: every unguarded conversion of a stack operand in execute is a position sized by the entry's memorySize function", func() { vmMemoryOperandRule(c, "C07-R7", tabs) })
	c.Min("C07-R7", 60)

	c.Rule("C07-R8", "overflow discipline: every SafeAdd/SafeMul/SafeSub/bigUint64 overflow flag in core/vm is branched on", func() {
		n := 0
		for _, fn := range c.SrcFns {
			if fn.Pkg == nil || relPkg(fn.Pkg.Pkg.Path()) != "core/vm" {
				continue
			}
			for _, b := range fn.Blocks {
				for _, ins := range b.Instrs {
					call, ok := ins.(*ssa.Call)
					if !ok {
						continue
					}
					cn := calleeName(&call.Call)
					if cn != "math.SafeAdd" && cn != "math.SafeMul" && cn != "math.SafeSub" && cn != "vm.bigUint64" {
						continue
					}
					n++
					used := false
					if call.Referrers() != nil {
						for _, r := range *call.Referrers() {
							if ex, ok := r.(*ssa.Extract); ok && ex.Index == 1 && ex.Referrers() != nil {
								for _, rr := range *ex.Referrers() {
									switch x := rr.(type) {
									case *ssa.If:
										used = true
									case *ssa.Store, *ssa.Phi, *ssa.BinOp, *ssa.UnOp:
										_ = x
										used = true // spilled/merged flag: consumed by a later branch (named results)
									}
								}
							}
						}
					}
					c.Ob("C07-R8", shortFn(fn)+": overflow flag of "+cn+" is consumed", c.Position(call.Pos()), used, "")
				}
			}
		}
		c.Extra["overflow_flag_sites"] = n
		mg := c.Fn("core/vm:memoryGasCost")
		c.MustOnAccept("C07-R8", mg, -1, false, []LitReq{
			{Name: "memory gas: size bounded so that the quadratic term cannot overflow", Unless: `^uint64#0 == 0$`, Re: `^uint64#0 <= 1099511627744$`},
		})
	})
	c.Min("C07-R8", 40)

	c.Rule("C07-R10", "precompiles run only after their gas was charged; modexp allocations are gas-covered", func() {
		rp := c.Fn("core/vm:RunPrecompiledContract")
		c.MustBefore("C07-R10", rp, `^PrecompiledContract\.Run$`, 1, []LitReq{
			{Name: "Run only if UseGas(RequiredGas(input)) succeeded", Re: `^Contract#0\.UseGas\(PrecompiledContract#0\.RequiredGas\(\[\]byte#0\)\)$`},
		})
		run := c.Fn("core/vm:run")
		for _, s := range callSites(run, `^PrecompiledContract\.`) {
			c.Ob("C07-R10", "run() invokes precompiles only through RunPrecompiledContract", c.Position(s.Pos()), false, "direct call "+calleeName(s.Common()))
		}
		c.Ob("C07-R10", "run() dispatches precompiles through RunPrecompiledContract", c.FnPos(run), len(callSites(run, `^vm\.RunPrecompiledContract$`)) == 1, "")
		// bigModExp: RequiredGas is 0 when baseLen == modLen == 0 whatever expLen is, so Run must leave before touching expLen-sized data
		me := c.Fn("core/vm:(*bigModExp).Run")
		f := c.Facts(me)
		base := `new(Int).SetBytes(vm.getData([]byte#0, 0, 32)).Uint64()`
		mod := `new(Int)~3.SetBytes(vm.getData([]byte#0, 64, 32)).Uint64()`
		n := 0
		for _, s := range callSites(me, `^vm\.getData$`) {
			a := s.Common().Args
			sz := f.tr.term(nil, a[2], 0)
			if _, isConst := a[2].(*ssa.Const); isConst {
				continue
			}
			n++
			ok := true
			detail := "size " + sz
			for _, st := range f.At(s) {
				if !st.lits[base+" != 0"] && !st.lits[mod+" != 0"] {
					ok = false
					detail = "an input-sized getData(" + sz + ") is reachable while baseLen == 0 and modLen == 0 are still possible (RequiredGas is 0 there): " + strings.Join(guardLits(st), "; ")
				}
			}
			c.Ob("C07-R10", "bigModExp.Run: input-sized read of "+sz+" happens only when the gas formula is non-degenerate", c.Position(s.Pos()), ok, detail)
		}
		c.Ob("C07-R10", "bigModExp.Run: three input-sized reads found", c.FnPos(me), n == 3, fmt.Sprintf("%d", n))
	})
	c.Min("C07-R10", 6)

	// "a failing frame leaves world state exactly as it was" is implemented by the state journal: its discipline
	// (journal-before-mutate, complete undo, revert shape, dirty-tracking protocol) is decided by C09's rules, shared here
	c.Borrow("C09", runC09, map[string]string{"C09-R1": "C07-R12", "C09-R1b": "C07-R12", "C09-R2": "C07-R12", "C09-R5": "C07-R12", "C09-R7": "C07-R12"})
	// "terminates without crashing the node": the jump-destination bitmap is cached per code hash and indexed by the
	// jump target, so a code/hash pair that does not match makes a later frame index another code's bitmap (out of
	// range panic, or a jump into push data). The pairing and cache-key rules are C08's, shared here.
	c.Borrow("C08", runC08, map[string]string{"C08-R6": "C07-R13"})
	// "a failed contract creation additionally keeps its creator's nonce increment": the increment lies on every path
	// of Create past the depth and balance checks and precedes the snapshot (C06-R2), shared here
	c.Borrow("C06", runC06, map[string]string{"C06-R2": "C07-R14"})
}

// c07UnguardedPositions: stack positions (0 = top at entry) whose value is converted by Uint64()/Int64() (or handed to
// getDataBig as size) on some path without any guard literal mentioning it. Only pops/peeks at known positions count.
func c07UnguardedPositions(c *Ctx, fn *ssa.Function) map[int]string {
	out := map[int]string{}
	f := c.Facts(fn)
	// position of each pop/peek/Back result: pops are numbered in instruction order; valid when no push precedes them
	posOf := map[ssa.Value]int{}
	depth := 0
	pushed := false
	for _, b := range fn.Blocks {
		for _, ins := range b.Instrs {
			call, ok := ins.(*ssa.Call)
			if !ok {
				continue
			}
			switch {
			case isVMStackMethod(&call.Call, "pop"):
				if !pushed {
					posOf[call] = depth
				}
				depth++
			case isVMStackMethod(&call.Call, "peek"):
				if !pushed {
					posOf[call] = depth
				}
			case isVMStackMethod(&call.Call, "Back"):
				if k, ok := constInt(call.Call.Args[1]); ok && !pushed {
					posOf[call] = depth + int(k)
				}
			case isVMStackMethod(&call.Call, "push"):
				pushed = true
			}
		}
	}
	check := func(v ssa.Value, at ssa.Instruction, how string) {
		root := v
		pos, ok := posOf[root]
		if !ok {
			return
		}
		t := f.tr.term(nil, v, 0)
		guarded := true
		for _, s := range f.At(at) {
			has := false
			for _, l := range guardLits(s) {
				if strings.Contains(l, t+" ") || strings.Contains(l, " "+t) || strings.Contains(l, t+")") || strings.Contains(l, t+",") || strings.HasSuffix(l, t) {
					has = true
				}
			}
			if !has {
				guarded = false
			}
		}
		if !guarded {
			out[pos] = how
		}
	}
	for _, b := range fn.Blocks {
		for _, ins := range b.Instrs {
			call, ok := ins.(*ssa.Call)
			if !ok {
				continue
			}
			if name, bc := bigMethod(call); bc != nil && (name == "Uint64" || name == "Int64") {
				if onlyStoredAsValue(call, 0) {
					continue // the machine integer is data (e.g. the byte written by MSTORE8), not an index or size
				}
				check(bc.Call.Args[0], call, name+"()")
			}
			if cn := calleeName(&call.Call); cn == "vm.getDataBig" {
				check(call.Call.Args[2], call, "getDataBig size")
			}
		}
	}
	return out
}

func c07BackPositions(mf *ssa.Function) map[int]bool {
	out := map[int]bool{}
	for _, b := range mf.Blocks {
		for _, ins := range b.Instrs {
			call, ok := ins.(*ssa.Call)
			if !ok || !isVMStackMethod(&call.Call, "Back") {
				continue
			}
			if k, ok := constInt(call.Call.Args[1]); ok {
				out[int(k)] = true
			}
		}
	}
	return out
}

func c07TouchesMemory(fn *ssa.Function) bool {
	for _, b := range fn.Blocks {
		for _, ins := range b.Instrs {
			if fa, ok := ins.(*ssa.FieldAddr); ok && fieldName(fa) == "store" && strings.HasSuffix(fa.X.Type().String(), "vm.Memory") {
				return true
			}
			call, ok := ins.(*ssa.Call)
			if !ok {
				continue
			}
			f := call.Call.StaticCallee()
			if f == nil || f.Signature.Recv() == nil || !strings.HasSuffix(f.Signature.Recv().Type().String(), "vm.Memory") {
				continue
			}
			switch f.Name() {
			case "Get", "GetPtr", "Set", "Set32":
				return true
			}
		}
	}
	return false
}

func keysInt(m map[int]string) []int {
	var out []int
	for k := range m {
		out = append(out, k)
	}
	sort.Ints(out)
	return out
}

func keysIntB(m map[int]bool) []int {
	var out []int
	for k := range m {
		out = append(out, k)
	}
	sort.Ints(out)
	return out
}

var _ = regexp.MustCompile

// onlyStoredAsValue: the value flows (through arithmetic/conversions) only into the value operand of stores.
func onlyStoredAsValue(v ssa.Value, depth int) bool {
	refs := v.Referrers()
	if refs == nil || len(*refs) == 0 || depth > 4 {
		return false
	}
	for _, r := range *refs {
		switch x := r.(type) {
		case *ssa.Store:
			if x.Val != v {
				return false
			}
		case *ssa.BinOp:
			if !onlyStoredAsValue(x, depth+1) {
				return false
			}
		case *ssa.Convert:
			if !onlyStoredAsValue(x, depth+1) {
				return false
			}
		case *ssa.DebugRef:
		default:
			return false
		}
	}
	return true
}

// vmMemoryOperandRule is shared by C07-R7 (no crash / memory paid for) and C08-R9 (operand access defined by the
// specification for all operand values incl. >= 2^64).
func vmMemoryOperandRule(c *Ctx, rule string, tabs *vmTables) {
	seen := map[string]bool{}
	n := 0
	for _, set := range tabs.order {
		for op, e := range tabs.own[set] {
			id := fmt.Sprint(e.execName, e.execArgs, e.memName)
			if seen[id] {
				continue
			}
			seen[id] = true
			fn, _, _ := c.resolveVMFunc(e.execName, e.execArgs)
			if fn == nil {
				continue
			}
			used := c07UnguardedPositions(c, fn)
			sized := map[int]bool{}
			if e.memName != "" {
				if mf := c.FnOpt("core/vm:" + e.memName); mf != nil {
					sized = c07BackPositions(mf)
				}
			}
			var bad []string
			for pos, where := range used {
				if !sized[pos] {
					bad = append(bad, fmt.Sprintf("stack[%d] (%s)", pos, where))
				}
			}
			sort.Strings(bad)
			if len(used) > 0 || e.memName != "" {
				n++
				c.Ob(rule, fmt.Sprintf("%s%v / %s (%s)", e.execName, e.execArgs, e.memName, op), c.Position(e.pos), len(bad) == 0,
					fmt.Sprintf("unguarded conversions at stack positions %v; memorySize covers %v; uncovered: %v", keysInt(used), keysIntB(sized), bad))
			}
			// memorySize present iff the execute function addresses memory by offset
			touches := c07TouchesMemory(fn)
			c.Ob(rule, fmt.Sprintf("%s%v has memorySize iff it addresses memory (%s)", e.execName, e.execArgs, op), c.Position(e.pos), touches == (e.memName != ""),
				fmt.Sprintf("addresses memory: %v; memorySize: %q", touches, e.memName))
		}
	}
	// helper functions taking big.Int operands
	gd := c.Fn("core/vm:getDataBig")
	f := c.Facts(gd)
	for _, b := range gd.Blocks {
		for _, ins := range b.Instrs {
			name, call := bigMethod(valueOf(ins))
			if call == nil || (name != "Uint64" && name != "Int64") {
				continue
			}
			t := f.tr.term(nil, call.Call.Args[0], 0)
			ok := strings.HasPrefix(t, "math.BigMin(") && strings.HasSuffix(t, "big.NewInt(len([]byte#0)))") || t == "Int#1"
			c.Ob(rule, "getDataBig: conversion of "+t+" is clamped to the data length (or is the memory-sized length)", c.Position(call.Pos()), ok, "")
		}
	}
	c.Ob(rule, "getDataBig converts start, end and size", c.FnPos(gd), len(callSites(gd, `^Int\.Uint64$`)) == 3, "")
	cm := c.Fn("core/vm:calcMemSize")
	fcm := c.Facts(cm)
	for _, rs := range fcm.AllReturns() {
		t := fcm.tr.term(rs.State, rs.Ret.Results[0], 0)
		ok := t == "common.Big0" && rs.State.lits["Int#1 == 0"] || t == "new(Int).Add(Int#0, Int#1)" && rs.State.lits["Int#1 != 0"]
		c.Ob(rule, "calcMemSize: zero length needs no memory, otherwise offset+length", c.Position(rs.Ret.Pos()), ok, "returns "+t+" under "+strings.Join(guardLits(rs.State), "; "))
	}
}

// c07IsCheckedSize: v is (a load of the local that holds) the first result of math.SafeMul(toWordSize(..), 32):
// identified by what is stored into the local, not by its name.
func c07IsCheckedSize(fn *ssa.Function, v ssa.Value) bool {
	isSafeMul := func(x ssa.Value) bool {
		ex, ok := x.(*ssa.Extract)
		if !ok || ex.Index != 0 {
			return false
		}
		call, ok := ex.Tuple.(*ssa.Call)
		return ok && calleeName(&call.Call) == "math.SafeMul"
	}
	if isSafeMul(v) {
		return true
	}
	for _, l := range phiLeaves(v) {
		if isSafeMul(l) {
			return true
		}
	}
	if u, ok := v.(*ssa.UnOp); ok {
		if al, ok := u.X.(*ssa.Alloc); ok {
			for _, st := range storesInto(fn, al) {
				if isSafeMul(st) {
					return true
				}
			}
		}
	}
	return false
}

// writesField: fn contains a store to a field of that name.
func writesField(fn *ssa.Function, name string) bool {
	for _, b := range fn.Blocks {
		for _, ins := range b.Instrs {
			if st, ok := ins.(*ssa.Store); ok {
				if fa, ok := st.Addr.(*ssa.FieldAddr); ok && fieldName(fa) == name {
					return true
				}
			}
		}
	}
	return false
}
