package main

import (
	"go/token"
	"fmt"
	"go/types"
	"regexp"
	"sort"
	"strings"

	"golang.org/x/tools/go/ssa"
)

// C06 Every included transaction is charged, nonced and rolled back exactly.

func init() { register("C06", []string{"./..."}, runC06) }

func runC06(c *Ctx) {
	c.Explanation = "Static must-guard / must-call / dominance analysis of the state-transition pipeline (core.StateTransition, GasPool, IntrinsicGas, ApplyTransaction, StateProcessor.Process, vm.EVM.Create): every accepting path carries the admission literals of the statement (nonce equality both ways, balance >= gas*price, block pool >= gas, gas >= intrinsic), the intrinsic-gas result is the specified symbolic expression with both overflow guards, exactly one nonce increment lies on every executed path, the refund is min(used/2, refund counter) and is applied before the fee and the reported gas are computed, debit/refund/fee use the same gasPrice, and every error of the pipeline is propagated to the block processor. Decides shapes and guards on all paths; the arithmetic identities themselves (debit = refund + fee) are not evaluated."
	c.NotDecided = []string{"numeric identity sender debit = refund + fee", "rollback of failed execution (C07-R1) and gasUsed header comparison (C01-R2) are decided under those properties"}
	c.Assumptions = []string{"StateTransition fields are not modified concurrently", "access-path terms: no aliasing writes between guard and use"}

	st := `StateTransition#0`
	from := st + `\.from\(\)\.Address\(\)`
	mgval := `new\(Int\)(~\d+)?\.Mul\(new\(Int\)(~\d+)?\.SetUint64\(` + st + `\.msg\.Gas\(\)\), ` + st + `\.gasPrice\)`

	c.Rule("C06-R1", "admission and charge guards on every accepting path (oracle: the property statement)", func() {
		pre := c.Fn("core:(*StateTransition).preCheck")
		noCheck := `^!` + st + `\.msg\.CheckNonce\(\)$`
		c.MustOnAccept("C06-R1", pre, -1, false, []LitReq{
			{Name: "nonce not too low (state nonce <= tx nonce)", Unless: noCheck, Re: `^` + st + `\.state\.GetNonce\(` + from + `\) <= ` + st + `\.msg\.Nonce\(\)$`},
			{Name: "nonce not too high (state nonce >= tx nonce)", Unless: noCheck, Re: `^` + st + `\.state\.GetNonce\(` + from + `\) >= ` + st + `\.msg\.Nonce\(\)$`},
			{Name: "gas is bought", Re: `^` + st + `\.buyGas\(\) == nil$`},
		})
		buy := c.Fn("core:(*StateTransition).buyGas")
		c.MustOnAccept("C06-R1", buy, -1, false, []LitReq{
			{Name: "balance >= gasLimit x gasPrice", Re: `^` + st + `\.state\.GetBalance\(` + from + `\) >= ` + mgval + `$`},
			{Name: "block gas pool has the gas limit left", Re: `^` + st + `\.gp\.SubGas\(` + st + `\.msg\.Gas\(\)\) == nil$`},
			{Name: "sender is debited gasLimit x gasPrice", Re: `^called:` + st + `\.state\.SubBalance\(` + from + `, ` + mgval + `\)$`},
		})
		c.storeIs("C06-R1", buy, "initialGas", `^`+regexp.QuoteMeta("StateTransition#0.msg.Gas()")+`$`, "initialGas = msg.Gas()")
		c.storeIs("C06-R1", buy, "gas", `^\(StateTransition#0\.gas \+ StateTransition#0\.msg\.Gas\(\)\)$`, "gas += msg.Gas()")
		sub := c.Fn("core:(*GasPool).SubGas")
		c.MustOnAccept("C06-R1", sub, -1, false, []LitReq{{Name: "pool >= amount", Re: `^GasPool#0 >= uint64#0$`}})
		use := c.Fn("core:(*StateTransition).useGas")
		c.MustOnAccept("C06-R1", use, -1, false, []LitReq{{Name: "remaining gas >= amount", Re: `^` + st + `\.gas >= uint64#0$`}})
		tdb := c.Fn("core:(*StateTransition).TransitionDb")
		ig := `core\.IntrinsicGas\(` + st + `\.data, \(` + st + `\.msg\.To\(\) == nil\), ` + st + `\.evm\.ChainConfig\(\)\.IsHomestead\(` + st + `\.evm\.Context\.BlockNumber\)\)`
		c.MustOnAccept("C06-R1", tdb, -1, false, []LitReq{
			{Name: "preCheck passed", Re: `^` + st + `\.preCheck\(\) == nil$`},
			{Name: "intrinsic gas computed without overflow", Re: `^` + ig + `#1 == nil$`},
			{Name: "intrinsic gas paid out of the gas limit", Re: `^` + st + `\.useGas\(` + ig + `#0\) == nil$`},
			{Name: "insufficient balance for the value transfer invalidates the block", Re: `^(` + st + `\.evm\.(Call|Create)\(.*\)#[23] == nil|` + st + `\.evm\.(Call|Create)\(.*\)#[23] != vm\.ErrInsufficientBalance)$`},
		})
		// IntrinsicGas: result expression and overflow guards
		igf := c.Fn("core:IntrinsicGas")
		f := c.Facts(igf)
		n := 0
		nzTok := ""
		for _, rs := range f.AcceptingReturns(-1, false) {
			n++
			res := f.tr.term(rs.State, rs.Ret.Results[0], 0)
			base := "21000"
			if rs.State.lits["bool#0"] && rs.State.lits["bool#1"] {
				base = "53000"
			}
			want := base
			guards := true
			if rs.State.lits["len([]byte#0) > 0"] {
				// the non-zero-byte counter is identified by its role in the result, not by its name
				nz := "phi:?"
				if m := mustRe(`^\(\(` + base + ` \+ \((` + PH + `) \* 68\)\)`).FindStringSubmatch(res); m != nil {
					nz = m[1]
					nzTok = nz
				}
				want = fmt.Sprintf("((%s + (%s * 68)) + ((len([]byte#0) - %s) * 4))", base, nz, nz)
				g1 := fmt.Sprintf("%s <= ((18446744073709551615 - %s) / 68)", nz, base)
				g2 := fmt.Sprintf("(len([]byte#0) - %s) <= ((18446744073709551615 - (%s + (%s * 68))) / 4)", nz, base, nz)
				guards = rs.State.lits[g1] && rs.State.lits[g2]
			}
			c.Ob("C06-R1", "IntrinsicGas result under {"+strings.Join(guardLits(rs.State), ", ")+"}", c.Position(rs.Ret.Pos()), res == want && guards,
				fmt.Sprintf("returns %s; specification: %s with both uint64 overflow guards (guards present: %v)", res, want, guards))
		}
		c.Ob("C06-R1", "IntrinsicGas has accepting paths for creation/non-creation x empty/non-empty data", c.FnPos(igf), n >= 6, fmt.Sprintf("%d accepting path states", n))
		// the counter in the result counts exactly the non-zero bytes: it starts at 0 and is incremented by one only
		// under data[i] != 0, in the loop over the data
		okCount, dCount := false, "counter not found"
		for _, b := range igf.Blocks {
			for _, ins := range b.Instrs {
				p, isPhi := ins.(*ssa.Phi)
				if !isPhi || nzTok == "" || f.tr.term(nil, p, 0) != nzTok {
					continue
				}
				zero, incs := false, 0
				okInc := true
				for _, l := range phiLeaves(p) {
					if k, isC := constInt(l); isC && k == 0 {
						zero = true
						continue
					}
					bo, isB := l.(*ssa.BinOp)
					one, isOne := int64(0), false
					if isB {
						one, isOne = constInt(bo.Y)
					}
					if !isB || bo.Op != token.ADD || !isOne || one != 1 {
						okInc = false
						continue
					}
					incs++
					if ok, _ := allHave(f.At(bo), mustRe(`^\[\]byte#0\[.*\] != 0$`)); !ok {
						okInc = false
					}
				}
				okCount, dCount = zero && incs == 1 && okInc, fmt.Sprintf("starts at zero: %v; increment sites: %d; guarded by data[i] != 0: %v", zero, incs, okInc)
			}
		}
		c.Ob("C06-R1", "IntrinsicGas: the counter priced at 68 gas counts exactly the non-zero data bytes", c.FnPos(igf), okCount, dCount)
		c.ConstIs("C06-R1", "params:TxGas", "21000")
		c.ConstIs("C06-R1", "params:TxGasContractCreation", "53000")
		c.ConstIs("C06-R1", "params:TxDataZeroGas", "4")
		c.ConstIs("C06-R1", "params:TxDataNonZeroGas", "68")
	})
	c.Min("C06-R1", 20)

	c.Rule("C06-R2", "exactly one sender-nonce increment on every executed path", func() {
		tdb := c.Fn("core:(*StateTransition).TransitionDb")
		inc := `^called:` + st + `\.state\.SetNonce\(` + from + `, \(` + st + `\.state\.GetNonce\(` + from + `\) \+ 1\)\)$`
		create := `^called:` + st + `\.evm\.Create\(`
		c.MustOnAccept("C06-R2", tdb, -1, false, []LitReq{
			{Name: "message call: nonce := nonce+1", Unless: `^` + st + `\.msg\.To\(\) == nil$`, Re: inc},
			{Name: "creation: delegated to EVM.Create", Unless: `^` + st + `\.msg\.To\(\) != nil$`, Re: create},
		})
		f := c.Facts(tdb)
		bad := ""
		for _, rs := range f.AcceptingReturns(-1, false) {
			_, a := hasLit(rs.State, regexp.MustCompile(inc))
			_, b := hasLit(rs.State, regexp.MustCompile(create))
			if a && b {
				bad = "a path both increments the nonce and calls Create"
			}
		}
		ns := len(callSites(tdb, `^StateDB\.SetNonce$`))
		c.Ob("C06-R2", "TransitionDb: never both; a single SetNonce site", c.FnPos(tdb), bad == "" && ns == 1, fmt.Sprintf("%s; SetNonce call sites: %d", bad, ns))
		// EVM.Create increments the creator's nonce on every path past the depth and balance checks
		cr := c.Fn("core/vm:(*EVM).Create")
		fc := c.Facts(cr)
		ok := true
		detail := ""
		n := 0
		for _, rs := range fc.AllReturns() {
			if rs.State.lits["EVM#0.depth > 1024"] {
				continue
			}
			if _, nt := hasLit(rs.State, mustRe(`^!dyn:EVM#0\.Context\.CanTransfer\(`)); nt {
				continue
			}
			n++
			if _, has := hasLit(rs.State, mustRe(`^called:EVM#0\.StateDB\.SetNonce\(ContractRef#0\.Address\(\), \(EVM#0\.StateDB\.GetNonce\(ContractRef#0\.Address\(\)\) \+ 1\)\)$`)); !has {
				ok = false
				detail = "return at " + c.Position(rs.Ret.Pos()) + " is reached without the creator nonce increment; literals: " + strings.Join(guardLits(rs.State), "; ")
			}
		}
		c.Ob("C06-R2", "EVM.Create: creator nonce incremented on every path past the depth/balance checks", c.FnPos(cr), ok && n > 0, detail)
		// the increment precedes the snapshot (so it survives a failed creation) and is the only creator SetNonce
		c.AllDominatedBy("C06-R2", cr, `^StateDB\.SetNonce$`, `^StateDB\.Snapshot$`, 1, "creator nonce increment precedes Snapshot()")
	})
	c.Min("C06-R2", 5)

	c.Rule("C06-R3", "refund = min(gasUsed/2, refund counter), applied before fee and reported gas; same gasPrice everywhere", func() {
		rf := c.Fn("core:(*StateTransition).refundGas")
		// the refund is the value added to st.gas (identified by that role, not by its name)
		ff := c.FactsFocus(rf, `GetRefund`, true, "type:uint64")
		var phi *ssa.Phi
		for _, b := range rf.Blocks {
			for _, ins := range b.Instrs {
				if stI, ok := ins.(*ssa.Store); ok {
					if fa, ok := stI.Addr.(*ssa.FieldAddr); ok && fieldName(fa) == "gas" {
						if bo, ok := stI.Val.(*ssa.BinOp); ok && bo.Op == token.ADD {
							if p, ok := bo.Y.(*ssa.Phi); ok {
								phi = p
							} else if p, ok := bo.X.(*ssa.Phi); ok {
								phi = p
							}
						}
					}
				}
			}
		}
		rows := ff.PhiTableOf(phi)
		if phi == nil {
			c.Ob("C06-R3", "refundGas: refund selection", c.FnPos(rf), false, "st.gas is not increased by a value selected between two candidates")
		}
		half := "(StateTransition#0.gasUsed() / 2)"
		cnt := "StateTransition#0.state.GetRefund()"
		seen := 0
		for _, r := range rows {
			want := "?"
			if r.State.lits[half+" > "+cnt] {
				want = cnt
			} else if r.State.lits[half+" <= "+cnt] {
				want = half
			}
			if want != "?" {
				seen++
			}
			c.Ob("C06-R3", "refundGas: refund = "+r.Val+" under {"+strings.Join(guardLits(r.State), ", ")+"}", c.Position(phi.Pos()), r.Val == want, "specification: min(gasUsed/2, GetRefund()) = "+want)
		}
		c.Ob("C06-R3", "refundGas: both branches of the cap exist", c.FnPos(rf), seen == 2, fmt.Sprintf("%d decided selections", seen))
		c.storeIs("C06-R3", rf, "gas", `^\(StateTransition#0\.gas \+ `+PH+`\)$`, "gas += refund")
		f := c.Facts(rf)
		remaining := `new\(Int\)(~\d+)?\.Mul\(new\(Int\)(~\d+)?\.SetUint64\(` + st + `\.gas\), ` + st + `\.gasPrice\)`
		var states []*pstate
		for _, rs := range f.AllReturns() {
			states = append(states, rs.State)
		}
		c.mustStates("C06-R3", rf, "return", states, []LitReq{
			{Name: "sender is refunded remaining gas x gasPrice", Re: `^called:` + st + `\.state\.AddBalance\(` + from + `, ` + remaining + `\)$`},
			{Name: "remaining gas returns to the block pool", Re: `^called:` + st + `\.gp\.AddGas\(` + st + `\.gas\)$`},
		})
		// the refund (store to st.gas) precedes the reads of st.gas used for the credit and the pool
		c.AllDominatedBy("C06-R3", rf, `^StateDB\.GetRefund$`, `^(StateDB\.AddBalance|GasPool\.AddGas)$`, 2, "refund applied before crediting sender / pool")
		tdb := c.Fn("core:(*StateTransition).TransitionDb")
		c.AllDominatedBy("C06-R3", tdb, `^StateTransition\.refundGas$`, `^StateTransition\.gasUsed$`, 2, "gasUsed() (fee, reported gas) is read only after refundGas()")
		ft := c.Facts(tdb)
		fee := `new\(Int\)(~\d+)?\.Mul\(new\(Int\)(~\d+)?\.SetUint64\(` + st + `\.gasUsed\(\)\), ` + st + `\.gasPrice\)`
		var acc []*pstate
		okRes := true
		resDetail := ""
		for _, rs := range ft.AcceptingReturns(-1, false) {
			acc = append(acc, rs.State)
			if t := ft.tr.term(rs.State, rs.Ret.Results[1], 0); t != "StateTransition#0.gasUsed()" {
				okRes = false
				resDetail = "reported gas is " + t
			}
		}
		c.mustStates("C06-R3", tdb, "accepting return", acc, []LitReq{
			{Name: "coinbase is credited gasUsed x gasPrice", Re: `^called:` + st + `\.state\.AddBalance\(` + st + `\.evm\.Context\.Coinbase, ` + fee + `\)$`},
			{Name: "refundGas runs", Re: `^called:` + st + `\.refundGas\(\)$`},
		})
		c.Ob("C06-R3", "TransitionDb reports gasUsed() as the gas used", c.FnPos(tdb), okRes && len(acc) > 0, resDetail)
		// gasUsed = initialGas - gas
		gu := c.Fn("core:(*StateTransition).gasUsed")
		fg := c.Facts(gu)
		for _, rs := range fg.AllReturns() {
			t := fg.tr.term(rs.State, rs.Ret.Results[0], 0)
			c.Ob("C06-R3", "gasUsed() = initialGas - gas", c.Position(rs.Ret.Pos()), t == "(StateTransition#0.initialGas - StateTransition#0.gas)", "returns "+t)
		}
		// the price is one immutable value for the whole transaction: the EVM context gets a private copy and no
		// instruction hands a shared integer to the stack / integer pool (where it would be mutated or recycled)
		nc := c.Fn("core:NewEVMContext")
		ngp := 0
		for _, b := range nc.Blocks {
			for _, ins := range b.Instrs {
				if stI, ok := ins.(*ssa.Store); ok {
					if fa, ok := stI.Addr.(*ssa.FieldAddr); ok && fieldName(fa) == "GasPrice" {
						ngp++
						okCopy := true
						for _, r := range bigRoots(stI.Val) {
							if _, isAlloc := r.(*ssa.Alloc); !isAlloc {
								okCopy = false
							}
						}
						c.Ob("C06-R3", "NewEVMContext gives the EVM a private copy of the gas price", c.Position(stI.Pos()), okCopy, "GasPrice: "+c.termOf(nc, stI.Val))
					}
				}
			}
		}
		c.Ob("C06-R3", "NewEVMContext sets Context.GasPrice", c.FnPos(nc), ngp == 1, fmt.Sprintf("%d stores", ngp))
		c.Extra["push_sites"] = vmPushOwnershipRule(c, "C06-R3")
		// gasPrice field written only by the constructor
		c.fieldWrittenOnlyIn("C06-R3", "core:StateTransition.gasPrice", map[string]bool{"core.NewStateTransition": true})
		c.fieldWrittenOnlyIn("C06-R3", "core:StateTransition.initialGas", map[string]bool{"(*core.StateTransition).buyGas": true})
	})
	c.Min("C06-R3", 14)

	c.Rule("C06-R4", "errors propagate to the block processor; receipt and cumulative gas bookkeeping", func() {
		// "cannot pay the value" is communicated from the EVM entry points to TransitionDb by the identity of one
		// sentinel error: the producer must return that very value (not a wrapped or reformatted error) wherever the
		// transfer check fails, or the consumer's comparison silently stops matching and the block is accepted
		nsent := 0
		for _, name := range []string{"Call", "CallCode", "Create"} {
			fn := c.Fn("core/vm:(*EVM)." + name)
			for _, blk := range fn.Blocks {
				iff, ok := blk.Instrs[len(blk.Instrs)-1].(*ssa.If)
				if !ok {
					continue
				}
				cond, neg := iff.Cond, false
				if u, isNot := cond.(*ssa.UnOp); isNot && u.Op == token.NOT {
					cond, neg = u.X, true
				}
				call, isCall := cond.(*ssa.Call)
				if !isCall || !strings.HasSuffix(c.termOf(fn, call.Call.Value), ".CanTransfer") {
					continue
				}
				fail := blk.Succs[1]
				if neg {
					fail = blk.Succs[0]
				}
				// the error produced on the failing branch: stored into the named result or returned directly
				var errVal ssa.Value
				for cur, steps := fail, 0; cur != nil && steps < 4; steps++ {
					for _, ins := range cur.Instrs {
						switch x := ins.(type) {
						case *ssa.Store:
							if isErrorType(x.Val.Type()) {
								errVal = x.Val
							}
						case *ssa.Return:
							if r := x.Results[len(x.Results)-1]; errVal == nil {
								errVal = r
							}
						}
					}
					if len(cur.Succs) == 1 {
						cur = cur.Succs[0]
					} else {
						cur = nil
					}
				}
				nsent++
				t := ""
				if errVal != nil {
					t = c.termOf(fn, errVal)
				}
				c.Ob("C06-R4", "EVM."+name+" reports an unaffordable value transfer with the sentinel vm.ErrInsufficientBalance itself", c.Position(call.Pos()), t == "vm.ErrInsufficientBalance", "returns "+t)
			}
		}
		c.SentinelIdentityRule("C06-R4", func(g *ssa.Global) bool {
			p := relPkg(g.Pkg.Pkg.Path())
			return p == "core" || p == "core/vm" || p == "core/state" || p == "consensus" || p == "core/types"
		})
		c.Ob("C06-R4", "unaffordable-transfer returns found in Call, CallCode and Create", "", nsent >= 3, fmt.Sprintf("%d", nsent))
		td := c.Fn("core:(*StateTransition).TransitionDb")
		ftd := c.Facts(td)
		ncmp := 0
		for _, rs := range ftd.AllReturns() {
			if _, is := hasLit(rs.State, mustRe(` == vm\.ErrInsufficientBalance$`)); is {
				ncmp++
				t := ftd.tr.term(rs.State, rs.Ret.Results[len(rs.Ret.Results)-1], 0)
				c.Ob("C06-R4", "TransitionDb turns vm.ErrInsufficientBalance into a transaction-level error (block invalid)", c.Position(rs.Ret.Pos()), t != "nil" && !strings.HasSuffix(t, "== nil"), "returns "+t)
			}
		}
		c.Ob("C06-R4", "TransitionDb compares the VM error with the sentinel", c.FnPos(td), ncmp >= 1, fmt.Sprintf("%d return states", ncmp))
		at := c.Fn("core:ApplyTransaction")
		c.MustOnAccept("C06-R4", at, -1, false, []LitReq{
			{Name: "sender recovery error rejects", Re: `^Transaction#0\.AsMessage\(.*\)#1 == nil$`},
			{Name: "state-transition error rejects", Re: `^core\.ApplyMessage\(.*\)#3 == nil$`},
		})
		f := c.Facts(at)
		// *usedGas += gas precedes NewReceipt(root, failed, *usedGas); receipt.GasUsed = gas
		gas := `core\.ApplyMessage\(.*\)#1`
		var acc []*pstate
		for _, rs := range f.AcceptingReturns(-1, false) {
			acc = append(acc, rs.State)
		}
		_ = acc
		// NewReceipt(root, failed, *usedGas) reads the cumulative counter after `*usedGas += gas`
		var upd *ssa.Store
		for _, b := range at.Blocks {
			for _, ins := range b.Instrs {
				if st, ok := ins.(*ssa.Store); ok && f.tr.term(nil, st.Addr, 0) == "uint64#0" {
					upd = st
				}
			}
		}
		nr := callSites(at, `^types\.NewReceipt$`)
		okNR := upd != nil && len(nr) == 1
		dNR := ""
		if okNR {
			a := nr[0].Common().Args
			ld, isLoad := a[2].(*ssa.UnOp)
			okNR = isLoad && f.tr.term(nil, ld.X, 0) == "uint64#0" && instrDominates(upd, ld) &&
				regexp.MustCompile(`^`+gas+`$`).MatchString("") == false && regexp.MustCompile(`^core\.ApplyMessage\(.*\)#2$`).MatchString(f.tr.term(nil, a[1], 0))
			dNR = "NewReceipt(" + f.tr.term(nil, a[0], 0) + ", " + f.tr.term(nil, a[1], 0) + ", " + f.tr.term(nil, a[2], 0) + ")"
		}
		c.Ob("C06-R4", "receipt carries the failed flag and the cumulative gas read after adding this tx", c.FnPos(at), okNR, dNR)
		c.storeIs("C06-R4", at, "GasUsed", `^`+gas+`$`, "receipt.GasUsed = gas of this transaction")
		c.derefStoreIs("C06-R4", at, `^uint64#0$`, `^\(uint64#0 \+ `+gas+`\)$`, "*usedGas += gas")
		pr := c.Fn("core:(*StateProcessor).Process")
		c.MustLoopBack("C06-R4", pr, `^core\.ApplyTransaction$`, []LitReq{
			{Name: "a failing transaction makes Process return the error", Re: `^core\.ApplyTransaction\(.*\)#2 == nil$`},
		})
		fp := c.Facts(pr)
		var pacc []*pstate
		for _, rs := range fp.AcceptingReturns(-1, false) {
			pacc = append(pacc, rs.State)
		}
		c.mustStates("C06-R4", pr, "accepting return", pacc, []LitReq{
			{Name: "block gas pool starts at the block gas limit", Re: `^called:new\(GasPool\)(~\d+)?\.AddGas\(Block#0\.GasLimit\(\)\)$`},
		})
		// ApplyTransaction passes the same pool and the same usedGas accumulator for every tx
		sites := callSites(pr, `^core\.ApplyTransaction$`)
		for _, s := range sites {
			a := s.Common().Args
			gp := fp.tr.term(nil, a[3], 0)
			ug := fp.tr.term(nil, a[7], 0)
			c.Ob("C06-R4", "Process passes the block pool and one cumulative counter to every ApplyTransaction", c.Position(s.Pos()),
				regexp.MustCompile(`^new\(GasPool\)(~\d+)?\.AddGas\(Block#0\.GasLimit\(\)\)$`).MatchString(gp) && strings.HasPrefix(ug, "new(uint64)"), "pool="+gp+" usedGas="+ug)
		}
		// receipts imported without execution (fast sync): the per-receipt gas is re-derived from the cumulative
		// counters - first receipt: its cumulative value; receipt j: cumulative[j] - cumulative[j-1]
		srd := c.Fn("core:SetReceiptsData")
		fsr := c.Facts(srd)
		var gasStores []string
		for _, b := range srd.Blocks {
			for _, ins := range b.Instrs {
				if stI, ok := ins.(*ssa.Store); ok {
					if fa, ok := stI.Addr.(*ssa.FieldAddr); ok && fieldName(fa) == "GasUsed" {
						gasStores = append(gasStores, fsr.tr.term(nil, fa.X, 0)+" := "+fsr.tr.term(nil, stI.Val, 0))
					}
				}
			}
		}
		sort.Strings(gasStores)
		okFirst, okRest := false, false
		for _, g := range gasStores {
			if m := mustRe(`^(.+)\[(`+PH+`)\] := (.+)\[(`+PH+`)\]\.CumulativeGasUsed$`).FindStringSubmatch(g); m != nil && m[1] == m[4] && m[2] == m[5] {
				okFirst = true
			}
			if m := mustRe(`^(.+)\[(`+PH+`)\] := \((.+)\[(`+PH+`)\]\.CumulativeGasUsed - (.+)\[\((`+PH+`) - 1\)\]\.CumulativeGasUsed\)$`).FindStringSubmatch(g); m != nil &&
				m[1] == m[4] && m[1] == m[7] && m[2] == m[5] && m[2] == m[8] {
				okRest = true
			}
		}
		c.Ob("C06-R4", "SetReceiptsData derives receipt gas as cumulative[j] - cumulative[j-1] (cumulative[0] for the first)", c.FnPos(srd), okFirst && okRest && len(gasStores) == 2, strings.Join(gasStores, " | "))
	})
	c.Min("C06-R4", 7)

	// the block's gas-used commitment (and the other header commitments) is compared with the value recomputed from the
	// receipts on every accepting path of the validator: decided by C01's commitment rule, shared here because the
	// clause "cumulative gas equals the sum over the receipts" belongs to this property too
	c.Borrow("C01", runC01, map[string]string{"C01-R2": "C06-R5"})
	// "if execution fails, no other state change, log or created code survives": the snapshot/revert discipline of the
	// five call/create entry points is C07-R1, shared here
	c.Borrow("C07", runC07, map[string]string{"C07-R1": "C06-R7"})

	c.Rule("C06-R6", "the refund counter starts at zero in every transaction: the per-transaction boundary resets it on every path", func() {
		// refundGas caps the refund by the counter accumulated in StateDB; the counter is reset by Finalise, which
		// ApplyTransaction reaches directly (Byzantium receipts) or through IntermediateRoot (earlier receipts). If
		// only one of the two routes resets it, the previous transaction's refund is granted again to the next one.
		var resets func(fn *ssa.Function, depth int) (bool, string)
		resets = func(fn *ssa.Function, depth int) (bool, string) {
			if fn == nil || depth > 3 || len(fn.Blocks) == 0 {
				return false, "not resolved"
			}
			for _, r := range c.Facts(fn).AllReturns() {
				ok := r.State.lits["store:StateDB#0.refund=0"]
				if !ok {
					for l := range r.State.lits {
						if m := mustRe(`^called:StateDB#0\.(\w+)\(`).FindStringSubmatch(l); m != nil {
							if cal := c.FnOpt("core/state:(*StateDB)." + m[1]); cal != nil && cal != fn {
								if y, _ := resets(cal, depth+1); y {
									ok = true
								}
							}
						}
					}
				}
				if !ok {
					return false, "a path of " + shortFn(fn) + " returns without resetting StateDB.refund"
				}
			}
			return true, ""
		}
		for _, n := range []string{"Finalise", "IntermediateRoot", "Commit"} {
			fn := c.Fn("core/state:(*StateDB)." + n)
			ok, why := resets(fn, 0)
			if n == "Commit" {
				// Commit defers the reset
				ok = ok || func() bool {
					for _, r := range c.Facts(fn).AllReturns() {
						if !r.State.lits["defer:StateDB.clearJournalAndRefund"] {
							return false
						}
					}
					ok2, _ := resets(c.Fn("core/state:(*StateDB).clearJournalAndRefund"), 1)
					return ok2
				}()
			}
			c.Ob("C06-R6", "StateDB."+n+" resets the refund counter on every path", c.FnPos(fn), ok, why)
		}
		at := c.Fn("core:ApplyTransaction")
		c.MustOnAccept("C06-R6", at, -1, false, []LitReq{
			{Name: "an applied transaction ends with Finalise or IntermediateRoot (refund counter and journal reset)", Re: `^called:StateDB#0\.(Finalise|IntermediateRoot)\(.*\)$`},
		})
		// nothing else writes the counter except the journalled AddRefund and its undo
		// (an additional reset to zero at a boundary is harmless; a non-zero value comes only from these)
		grow := map[string]bool{"(*core/state.StateDB).AddRefund": true, "(core/state.refundChange).undo": true, "(*core/state.StateDB).Copy": true}
		nw := 0
		for _, fn := range c.SrcFns {
			if fn.Pkg == nil || fn.Pkg.Pkg.Path() != modPath+"/core/state" {
				continue
			}
			for _, b := range fn.Blocks {
				for _, ins := range b.Instrs {
					st, ok := ins.(*ssa.Store)
					if !ok {
						continue
					}
					fa, ok := st.Addr.(*ssa.FieldAddr)
					if !ok || fieldName(fa) != "refund" || typeShort(fa.X.Type()) != "StateDB" {
						continue
					}
					nw++
					if k, isC := constInt(st.Val); isC && k == 0 {
						continue
					}
					c.Ob("C06-R6", shortFn(fn)+": a non-zero refund counter is written only by AddRefund, its undo and Copy", c.Position(st.Pos()), grow[shortFn(fn)], c.termOf(fn, st.Val))
				}
			}
		}
		c.Ob("C06-R6", "writers of the refund counter found", "", nw >= 3, fmt.Sprintf("%d", nw))
	})
	c.Min("C06-R6", 5)
}

// storeIs: every store in fn to a struct field named `field` stores a value matching re; at least one exists.
func (c *Ctx) storeIs(rule string, fn *ssa.Function, field, re, what string) {
	r := regexp.MustCompile(re)
	f := c.Facts(fn)
	n := 0
	for _, b := range fn.Blocks {
		for _, ins := range b.Instrs {
			st, ok := ins.(*ssa.Store)
			if !ok {
				continue
			}
			fa, ok := st.Addr.(*ssa.FieldAddr)
			if !ok || fieldName(fa) != field {
				continue
			}
			n++
			t := f.tr.term(nil, st.Val, 0)
			c.Ob(rule, shortFn(fn)+": "+what, c.Position(st.Pos()), r.MatchString(t), "stored value: "+t)
		}
	}
	if n == 0 {
		c.Ob(rule, shortFn(fn)+": "+what, c.FnPos(fn), false, "no store to field "+field)
	}
}

// derefStoreIs: a store through a pointer whose address term matches addrRe stores a value matching valRe.
func (c *Ctx) derefStoreIs(rule string, fn *ssa.Function, addrRe, valRe, what string) {
	ar, vr := regexp.MustCompile(addrRe), regexp.MustCompile(valRe)
	f := c.Facts(fn)
	n := 0
	for _, b := range fn.Blocks {
		for _, ins := range b.Instrs {
			st, ok := ins.(*ssa.Store)
			if !ok {
				continue
			}
			if !ar.MatchString(f.tr.term(nil, st.Addr, 0)) {
				continue
			}
			n++
			t := f.tr.term(nil, st.Val, 0)
			c.Ob(rule, shortFn(fn)+": "+what, c.Position(st.Pos()), vr.MatchString(t), "stored value: "+t)
		}
	}
	if n == 0 {
		c.Ob(rule, shortFn(fn)+": "+what, c.FnPos(fn), false, "no such store")
	}
}

// fieldWrittenOnlyIn: stores to the struct field occur only in the allowed functions (module-wide).
func (c *Ctx) fieldWrittenOnlyIn(rule, spec string, allowed map[string]bool) {
	fv := c.Field(spec)
	n := 0
	for _, fn := range c.SrcFns {
		for _, b := range fn.Blocks {
			for _, ins := range b.Instrs {
				st, ok := ins.(*ssa.Store)
				if !ok {
					continue
				}
				fa, ok := st.Addr.(*ssa.FieldAddr)
				if !ok {
					continue
				}
				s := fa.X.Type().Underlying().(*types.Pointer).Elem().Underlying().(*types.Struct)
				if s.Field(fa.Field) != fv {
					continue
				}
				n++
				c.Ob(rule, spec+" written in "+shortFn(fn), c.Position(st.Pos()), allowed[shortFn(fn)], fmt.Sprintf("allowed writers: %v", keysOf(allowed)))
			}
		}
	}
	if n == 0 {
		c.Ob(rule, spec+" has a writer", "", false, "no store found")
	}
}

func keysOf(m map[string]bool) []string {
	var out []string
	for k := range m {
		out = append(out, k)
	}
	sort.Strings(out)
	return out
}
