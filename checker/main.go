// verif-check: repository-specific static checker for aquachain properties C01..C20.
//
//	verif-check <ID> <quick|thorough>     decide property <ID> on $VERIF_REPO's working tree
//	verif-check --replay <file>           re-evaluate the property named in a replay file and print the failed obligations
//	verif-check dump <pkg:func> [pkgs..]  development aid: print path literals at the returns of a function
package main

import (
	"encoding/json"
	"fmt"
	"golang.org/x/tools/go/ssa"
	"os"
	"path/filepath"
	"sort"
	"strconv"
	"strings"
	"time"
)

type propCheck struct {
	id   string
	load []string // package patterns
	run  func(c *Ctx)
}

var registry = map[string]*propCheck{}

func register(id string, load []string, run func(c *Ctx)) {
	registry[id] = &propCheck{id: id, load: load, run: run}
}

func main() {
	if len(os.Args) < 2 {
		usage()
	}
	switch os.Args[1] {
	case "--replay":
		if len(os.Args) < 3 {
			usage()
		}
		b, err := os.ReadFile(os.Args[2])
		if err != nil {
			fatalf("%v", err)
		}
		var r struct {
			Property string `json:"property"`
			Tier     string `json:"tier"`
		}
		if err := json.Unmarshal(b, &r); err != nil {
			fatalf("replay file: %v", err)
		}
		os.Setenv("VERIF_NO_EVIDENCE", "1")
		os.Exit(runProp(r.Property, "quick"))
	case "loopback": // dev: literals at the back edges of the innermost loop around a call
		c := newCtx("dev", "quick")
		spec := os.Args[2]
		c.Load("./" + spec[:strings.Index(spec, ":")])
		f := c.Facts(c.Fn(spec))
		for i, st := range f.LoopBackStates(os.Args[3]) {
			fmt.Println("-- back edge state", i)
			for _, l := range guardLits(st) {
				fmt.Println("     ", l)
			}
		}
		return
	case "dbkeys":
		dbkeysCmd()
		return
	case "bigmut":
		bigmutCmd()
		return
	case "arrays":
		arraysCmd(os.Args[2:])
		return
	case "rename": // dev: print <file> with all locals renamed (the rename_all benign variant)
		b, err := os.ReadFile(os.Args[2])
		if err != nil {
			fatalf("%v", err)
		}
		out, err := renameAllLocals(string(b), os.Args[3:])
		if err != nil {
			fatalf("%v", err)
		}
		fmt.Print(out)
		return
	case "dump":
		dumpCmd(os.Args[2:])
		return
	case "at":
		// at <pkg:func> <callee regexp>: print path literals before each matching call
		c := newCtx("dev", "quick")
		c.Load("./...")
		fn := c.Fn(os.Args[2])
		f := c.Facts(fn)
		for _, s := range f.Calls(mustRe(os.Args[3])) {
			fmt.Printf("== before %s @%s\n", calleeName(s.Common()), c.Position(s.Pos()))
			for i, st := range f.At(s) {
				fmt.Printf("  -- state %d\n", i)
				for _, l := range st.Lits() {
					if !strings.HasPrefix(l, "call:") {
						fmt.Println("     ", l)
					}
				}
			}
		}
		return
	case "blocks":
		c := newCtx("dev", "quick")
		c.Load("./...")
		fn := c.Fn(os.Args[2])
		f := c.Facts(fn)
		for _, b := range fn.Blocks {
			fmt.Printf("block %d (%s) states=%d preds=%v succs=%v last=%s\n", b.Index, b.Comment, len(f.in[b]), idxs(b.Preds), idxs(b.Succs), b.Instrs[len(b.Instrs)-1])
		}
		return
	case "panics":
		c := newCtx("dev", "quick")
		c.Load("./...")
		devPanics(c, os.Args[2:])
		return
	case "conv":
		c := newCtx("dev", "quick")
		c.Load("./...")
		devConversions(c, os.Args[2])
		return
	case "list":
		var ids []string
		for id := range registry {
			ids = append(ids, id)
		}
		sort.Strings(ids)
		fmt.Println(strings.Join(ids, " "))
		return
	}
	if len(os.Args) < 3 {
		usage()
	}
	os.Exit(runProp(os.Args[1], os.Args[2]))
}

func usage() {
	fmt.Fprintln(os.Stderr, "usage: verif-check <ID> <quick|thorough> | --replay <file> | list | dump <pkg:func>")
	os.Exit(2)
}

func runProp(id, tier string) int {
	p := registry[id]
	if p == nil {
		fatalf("unknown property %q", id)
	}
	if tier != "quick" && tier != "thorough" {
		fatalf("tier must be quick or thorough")
	}
	c := newCtx(id, tier)
	if ov := os.Getenv("VERIF_OVERLAY"); ov != "" {
		c.loadOverlay(ov)
	}
	// watchdog: the analysis of one property takes seconds; if it has not finished after the limit something in the
	// tree drives a rule into pathological behaviour - report undecided (which fails) instead of hanging
	limit := 900 * time.Second
	if v, err := strconv.Atoi(os.Getenv("VERIF_TIME_LIMIT")); err == nil && v > 0 {
		limit = time.Duration(v) * time.Second
	}
	wd := time.AfterFunc(limit, func() {
		fmt.Printf("  UNDECIDED framework: analysis of %s did not finish within %s\n", id, limit)
		dir := envOr("VERIF_REPLAY_DIR", filepath.Join(c.Root, "evidence", "replay"))
		os.MkdirAll(dir, 0o755)
		replay := filepath.Join(dir, id+".json")
		os.WriteFile(replay, []byte(fmt.Sprintf(`{"property":%q,"tier":%q,"failed_obligations":[{"rule":"framework","construct":"analysis time limit","status":"undecided","detail":"did not finish within %s"}]}`, id, tier, limit)), 0o644)
		fmt.Printf("VIOLATION property=%s replay=%s\n", id, replay)
		os.Exit(1)
	})
	c.Load(p.load...)
	if c.Prog != nil {
		p.run(c)
	}
	wd.Stop()
	if tier == "thorough" && os.Getenv("VERIF_NO_MUTANTS") == "" {
		if os.Getenv("VERIF_ONLY_BENIGN") == "" {
			runMutants(c)
			runSeeds(c)
		}
		runBenign(c)
	}
	return c.Finish()
}

func dumpCmd(args []string) {
	c := newCtx("dump", "quick")
	spec := args[0]
	pk := "./" + spec[:strings.Index(spec, ":")]
	pats := append([]string{pk}, args[1:]...)
	c.Load(pats...)
	fn := c.Fn(spec)
	f := c.Facts(fn)
	fmt.Println("== ", fn, "merged:", f.merged)
	for _, rs := range f.AllReturns() {
		fmt.Printf("-- return @%s results:", c.Position(rs.Ret.Pos()))
		for _, r := range rs.Ret.Results {
			fmt.Printf(" %s", f.tr.term(rs.State, r, 0))
		}
		fmt.Println()
		for _, l := range rs.State.Lits() {
			fmt.Println("     ", l)
		}
	}
}

func idxs(bs []*ssa.BasicBlock) []int {
	var out []int
	for _, b := range bs {
		out = append(out, b.Index)
	}
	return out
}
