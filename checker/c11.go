package main

import (
	"fmt"
	"go/token"
	"go/types"
	"sort"
	"strconv"
	"strings"

	"golang.org/x/tools/go/ssa"
)

// C11 RLP is a canonical, total and bounded codec.

func init() { register("C11", []string{"./..."}, runC11) }

func runC11(c *Ctx) {
	c.Explanation = "Guard-table, sibling-agreement, value-flow and reachability rules for package rlp: both decoder families (the Stream decoder and the raw Split/CountValues functions) reject, on every accepting path, each canonical-form violation of the specification that applies to them (long form only for sizes >= 56, no leading zero in a size, no leading zero / non-empty zero in an integer, a single byte below 0x80 is its own encoding); the type-tag boundaries 0x80/0xB8/0xC0/0xF8 of both decoders agree with the encoder's 0x80/0xB7/0xC0/0xF7 and 56; Stream.Kind makes the size-limit errors sticky (they are stored in kinderr and that field is what is returned), so a decoder that ignores the error cannot continue with an unchecked size; every allocation in the decoder whose size comes from the input uses the size returned by Kind on a path where Kind returned no error; and the explicit panics reachable from the decoding entry points are a frozen list. Decides these structural conditions; round-trip equality and global uniqueness of encodings are not evaluated."
	c.NotDecided = []string{"round-trip equality decode(encode(v)) == v", "'no byte string has two accepted encodings' as a whole (the per-rule necessary conditions are decided)", "allocation inside user-provided DecodeRLP implementations"}
	c.Assumptions = []string{"reflect-based decoders are reached only through the typecache"}

	c.Rule("C11-R1", "canonical-form guards on every accepting path of both decoder families", func() {
		rk := c.Fn("rlp:(*Stream).readKind")
		f := c.Facts(rk)
		b := `Stream#0.readByte()#0`
		n := 0
		for _, rs := range f.AcceptingReturns(-1, false) {
			n++
			kind := f.tr.term(rs.State, rs.Ret.Results[0], 0)
			size := f.tr.term(rs.State, rs.Ret.Results[1], 0)
			L := rs.State.lits
			var ok bool
			var what string
			switch {
			case L[b+" < 128"]:
				ok = kind == "0" && size == "0" && L["store:Stream#0.byteval="+b]
				what = "single byte < 0x80 is its own encoding (kind Byte)"
			case L[b+" >= 128"] && L[b+" < 184"]:
				ok = kind == "1" && size == "("+b+" - 128)"
				what = "short string: tag 0x80..0xB7, size = tag - 0x80"
			case L[b+" >= 184"] && L[b+" < 192"]:
				u := "Stream#0.readUint((" + b + " - 183))"
				ok = kind == "1" && size == u+"#0" && L[u+"#0 >= 56"] && L[u+"#1 == nil"]
				what = "long string: tag 0xB8..0xBF, size read from tag-0xB7 bytes and >= 56"
			case L[b+" >= 192"] && L[b+" < 248"]:
				ok = kind == "2" && size == "("+b+" - 192)"
				what = "short list: tag 0xC0..0xF7, size = tag - 0xC0"
			case L[b+" >= 248"]:
				u := "Stream#0.readUint((" + b + " - 247))"
				ok = kind == "2" && size == u+"#0" && L[u+"#0 >= 56"] && L[u+"#1 == nil"]
				what = "long list: tag 0xF8..0xFF, size read from tag-0xF7 bytes and >= 56"
			default:
				what = "unclassified tag range"
			}
			c.Ob("C11-R1", "Stream.readKind accepts "+what, c.Position(rs.Ret.Pos()), ok, fmt.Sprintf("returns kind=%s size=%s", kind, size))
		}
		c.Ob("C11-R1", "Stream.readKind has the five tag ranges", c.FnPos(rk), n == 5, fmt.Sprintf("%d accepting path states", n))
		ru := c.Fn("rlp:(*Stream).readUint")
		c.MustOnAccept("C11-R1", ru, -1, false, []LitReq{
			{Name: "a multi-byte size/integer has no leading zero byte", Unless: `^(byte#0 == [01]|uint8#0 == [01])$`, Re: `^Stream#0\.uintbuf\[\(8 - (byte|uint8)#0\)\] != 0$`},
		})
		ui := c.Fn("rlp:(*Stream).uint")
		c.MustOnAccept("C11-R1", ui, -1, false, []LitReq{
			{Name: "integer as single byte: not zero (zero is the empty string)", Unless: `^Stream#0\.Kind\(\)#0 != 0$`, Re: `^Stream#0\.byteval != 0$`},
			{Name: "integer as string: fits the target width", Unless: `^Stream#0\.Kind\(\)#0 == 0$`, Re: `^Stream#0\.Kind\(\)#1 <= \(int#0 / 8\)$`},
			{Name: "integer as string: a one-byte value below 0x80 must be a single byte", Unless: `^Stream#0\.Kind\(\)#0 == 0$`,
				Re: `^(Stream#0\.Kind\(\)#1 <= 0|Stream#0\.readUint\(Stream#0\.Kind\(\)#1\)#0 >= 128)$`},
			{Name: "integer as string: size bytes read without a leading zero", Unless: `^Stream#0\.Kind\(\)#0 == 0$`, Re: `^Stream#0\.readUint\(Stream#0\.Kind\(\)#1\)#1 == nil$`},
		})
		by := c.Fn("rlp:(*Stream).Bytes")
		c.MustOnAccept("C11-R1", by, -1, false, []LitReq{
			{Name: "a one-byte string below 0x80 must be encoded as a single byte", Unless: `^Stream#0\.Kind\(\)#0 == 0$`,
				Re: `^(Stream#0\.Kind\(\)#1 != 1|make\(\[\]byte\)\[0\] >= 128)$`},
			{Name: "Kind reported no error", Re: `^Stream#0\.Kind\(\)#2 == nil$`},
		})
		bi := c.Fn("rlp:decodeBigInt")
		c.MustOnAccept("C11-R1", bi, -1, false, []LitReq{
			{Name: "big integers have no leading zero byte", Re: `^(len\(Stream#0\.Bytes\(\)#0\) <= 0|Stream#0\.Bytes\(\)#0\[0\] != 0)$`},
			{Name: "big integers are read through Stream.Bytes (single-byte and size rules apply)", Re: `^Stream#0\.Bytes\(\)#1 == nil$`},
		})
		for _, cs := range callSites(bi, `^Int\.SetBytes$`) {
			t := c.termOf(bi, cs.Common().Args[1])
			c.Ob("C11-R1", "decodeBigInt sets the value from the canonical byte string only", c.Position(cs.Pos()), t == "Stream#0.Bytes()#0", "SetBytes("+t+")")
		}
		if n := len(callSites(bi, `^Int\.Set`)); n != 1 {
			c.Ob("C11-R1", "decodeBigInt has a single value-setting site", c.FnPos(bi), false, fmt.Sprintf("%d", n))
		}
		ba := c.Fn("rlp:decodeByteArray")
		c.MustOnAccept("C11-R1", ba, -1, false, []LitReq{
			{Name: "byte arrays: a one-byte string below 0x80 must be a single byte", Unless: `^Stream#0\.Kind\(\)#0 (!= 1|== 0|== 2)$`,
				Re: `^(Stream#0\.Kind\(\)#1 != 1|.*\[0\] >= 128)$`},
		})
		// "nil"-tagged pointers: only the empty string / empty list stands for nil. Kind reports size 0 for a single
		// byte too, so the emptiness test must exclude kind Byte or a one-byte value silently decodes to nil
		if od := c.FnOpt("rlp:makeOptionalPtrDecoder$1"); od == nil {
			c.Ob("C11-R1", "optional pointer decoder closure found", "", false, "")
		} else {
			fod := c.Facts(od)
			var asNil []*pstate
			for _, rs := range fod.AllReturns() {
				_, dec := hasLit(rs.State, mustRe(`^call:dyn:fv:[\w#]+\.decoder$`))
				if !dec && rs.State.lits["Stream#0.Kind()#2 == nil"] {
					asNil = append(asNil, rs.State)
				}
			}
			c.mustStates("C11-R1", od, "return that decodes the field as nil", asNil, []LitReq{
				{Name: "a nil-tagged pointer decodes to nil only for an empty value (size 0)", Re: `^Stream#0\.Kind\(\)#1 == 0$`},
				{Name: "a single byte (kind Byte, reported with size 0) is not an empty value", Re: `^Stream#0\.Kind\(\)#0 != 0$`},
			})
			if len(asNil) == 0 {
				c.Ob("C11-R1", "optional pointer decoder has the empty-value path", c.FnPos(od), false, "")
			}
		}
		// consensus types with a hand-written decoder: the receipt status field has exactly three accepted forms
		// (0x01 success, empty failure, 32-byte post state); anything else must be rejected, or two byte strings decode
		// to the same receipt
		ss := c.Fn("core/types:(*Receipt).setStatus")
		fss := c.Facts(ss)
		nst := 0
		for _, rs := range fss.AcceptingReturns(-1, false) {
			nst++
			L := rs.State.lits
			ok := false
			switch {
			case L["store:Receipt#0.Status=1"]:
				ok = L["[]byte#0 == types.receiptStatusSuccessfulRLP"]
			case L["store:Receipt#0.Status=0"]:
				ok = L["[]byte#0 == types.receiptStatusFailedRLP"]
			case L["store:Receipt#0.PostState=[]byte#0"]:
				ok = L["len([]byte#0) == 32"]
			}
			c.Ob("C11-R1", "Receipt.setStatus accepts a status field only in its one canonical form for the decoded value", c.Position(rs.Ret.Pos()), ok, strings.Join(guardLits(rs.State), "; "))
		}
		c.Ob("C11-R1", "Receipt.setStatus has the three accepted forms", c.FnPos(ss), nst == 3, fmt.Sprintf("%d accepting path states", nst))
		// raw family
		rr := c.Fn("rlp:readKind")
		fr := c.Facts(rr)
		bb := `[]byte#0[0]`
		nn := 0
		for _, rs := range fr.AcceptingReturns(-1, false) {
			nn++
			L := rs.State.lits
			kind := fr.tr.term(rs.State, rs.Ret.Results[0], 0)
			var ok bool
			var what string
			switch {
			case L[bb+" < 128"]:
				ok, what = kind == "0", "raw: single byte"
			case L[bb+" >= 128"] && L[bb+" < 184"]:
				_, canon := hasLit(rs.State, mustRe(`^(\([^ ]* - 128\) != 1|len\(\[\]byte#0\) <= 1|\[\]byte#0\[1\] >= 128)$`))
				ok, what = kind == "1" && canon, "raw: short string, one-byte strings below 0x80 rejected"
			case L[bb+" >= 184"] && L[bb+" < 192"]:
				_, sz := hasLit(rs.State, mustRe(`^rlp\.readSize\(\[\]byte#0\[1:\], \(\[\]byte#0\[0\] - 183\)\)#1 == nil$`))
				ok, what = kind == "1" && sz, "raw: long string through readSize"
			case L[bb+" >= 192"] && L[bb+" < 248"]:
				ok, what = kind == "2", "raw: short list"
			case L[bb+" >= 248"]:
				_, sz := hasLit(rs.State, mustRe(`^rlp\.readSize\(\[\]byte#0\[1:\], \(\[\]byte#0\[0\] - 247\)\)#1 == nil$`))
				ok, what = kind == "2" && sz, "raw: long list through readSize"
			}
			_, fits := hasLit(rs.State, mustRe(`<= \(len\(\[\]byte#0\) - `))
			c.Ob("C11-R1", "raw readKind accepts "+what+", content within the input", c.Position(rs.Ret.Pos()), ok && fits, strings.Join(guardLits(rs.State), "; "))
		}
		c.Ob("C11-R1", "raw readKind has the five tag ranges", c.FnPos(rr), nn >= 5, fmt.Sprintf("%d", nn))
		rsz := c.Fn("rlp:readSize")
		fz := c.Facts(rsz)
		nz := 0
		for _, r := range fz.AcceptingReturns(-1, false) {
			nz++
			t := fz.tr.term(r.State, r.Ret.Results[0], 0)
			L := r.State.lits
			c.Ob("C11-R1", "raw readSize: accepted size is >= 56, has no leading zero byte and lies inside the input", c.Position(r.Ret.Pos()),
				L[t+" >= 56"] && L["[]byte#0[0] != 0"] && (L["byte#0 <= len([]byte#0)"] || L["uint8#0 <= len([]byte#0)"]), "size term "+t)
		}
		c.Ob("C11-R1", "raw readSize handles size-of-size 1..8", c.FnPos(rsz), nz == 8, fmt.Sprintf("%d accepting path states", nz))
		// encoder boundaries
		ph := c.Fn("rlp:puthead")
		c.MustBefore("C11-R1", ph, `^rlp\.putint$`, 1, []LitReq{{Name: "encoder uses the long form only for sizes >= 56", Re: `^uint64#0 >= 56$`}})
		fp := c.Facts(ph)
		var stores []string
		for _, b := range ph.Blocks {
			for _, ins := range b.Instrs {
				if st, ok := ins.(*ssa.Store); ok {
					if ia, ok := st.Addr.(*ssa.IndexAddr); ok {
						if k, isC := constInt(ia.Index); isC && k == 0 {
							stores = append(stores, fp.tr.term(nil, st.Val, 0))
						}
					}
				}
			}
		}
		sort.Strings(stores)
		c.Ob("C11-R1", "encoder head bytes: small+size for < 56, large+len(size) otherwise", c.FnPos(ph), len(stores) == 2 && stores[0] == "(byte#0 + uint64#0)" || len(stores) == 2 && strings.Contains(strings.Join(stores, " "), "#0 + uint64#0)"), strings.Join(stores, " | "))
		for _, cs := range callSites(c.Fn("rlp:(*encbuf).encodeStringHeader"), `^rlp\.puthead$`) {
			a := cs.Common().Args
			t := c.termOf(c.Fn("rlp:(*encbuf).encodeStringHeader"), a[1]) + "," + c.termOf(c.Fn("rlp:(*encbuf).encodeStringHeader"), a[2])
			c.Ob("C11-R1", "string headers use 0x80 / 0xB7", c.Position(cs.Pos()), t == "128,183", t)
		}
	})
	c.Min("C11-R1", 32)

	c.Rule("C11-R1b", "Stream.Kind: size-limit errors are sticky", func() {
		kd := c.Fn("rlp:(*Stream).Kind")
		f := c.Facts(kd)
		for _, rs := range f.AllReturns() {
			t := f.tr.term(rs.State, rs.Ret.Results[2], 0)
			c.Ob("C11-R1b", "Stream.Kind returns EOL or the stored kinderr (never a transient error)", c.Position(rs.Ret.Pos()), t == "rlp.EOL" || t == "Stream#0.kinderr", "returns "+t)
		}
		var acc []*pstate
		// paths on which the value exceeds the remaining input / enclosing list store the error
		for _, rs := range f.AllReturns() {
			acc = append(acc, rs.State)
		}
		c.mustStates("C11-R1b", kd, "return", acc, []LitReq{
			{Name: "top level: a value larger than the remaining input stores ErrValueTooLarge", Unless: `^(Stream#0\.kind >= 0|!Stream#0\.limited|Stream#0\.size <= Stream#0\.remaining|Stream#0\.kinderr != nil|len\(Stream#0\.stack\) > 0|.*pos == .*size)$`,
				Re: `^store:Stream#0\.kinderr=rlp\.ErrValueTooLarge$`},
			{Name: "inside a list: a value overflowing the list stores ErrElemTooLarge", Unless: `^(Stream#0\.kind >= 0|len\(Stream#0\.stack\) <= 0|Stream#0\.size <= \(.*\.size - .*\.pos\)|Stream#0\.kinderr != nil|.*pos == .*size)$`,
				Re: `^store:Stream#0\.kinderr=rlp\.ErrElemTooLarge$`},
		})
		c.fieldWrittenOnlyIn("C11-R1b", "rlp:Stream.kinderr", map[string]bool{"(*rlp.Stream).Kind": true, "(*rlp.Stream).Reset": true})
	})
	c.Min("C11-R1b", 5)

	c.Rule("C11-R2", "input-sized allocations use the size validated by Kind", func() {
		sp := c.Prog.Package(c.Pkg("rlp").Types)
		n := 0
		for _, fn := range c.SrcFns {
			if fn.Pkg != sp || strings.Contains(fn.String(), "enc") || strings.HasPrefix(fn.Name(), "write") || strings.HasPrefix(fn.Name(), "put") {
				continue
			}
			f := c.Facts(fn)
			for _, b := range fn.Blocks {
				for _, ins := range b.Instrs {
					ms, ok := ins.(*ssa.MakeSlice)
					if !ok {
						continue
					}
					t := f.tr.term(nil, ms.Len, 0)
					if _, isC := constInt(ms.Len); isC {
						continue
					}
					if !strings.Contains(t, "Stream") && !strings.Contains(t, "Kind()") && !strings.Contains(t, "size") {
						continue // not input derived (type-cache tables, encoder buffers)
					}
					n++
					okSrc := strings.HasPrefix(t, "Stream#0.Kind()#1") || t == "(rlp.headsize(Stream#0.Kind()#1) + Stream#0.Kind()#1)" || strings.Contains(t, "Kind()#1")
					okErr, w := allHave(f.At(ms), mustRe(`^Stream#0\.Kind\(\)#2 == nil$`))
					c.Ob("C11-R2", shortFn(fn)+": make([]byte, "+t+") uses Kind's validated size on an error-free path", c.Position(ms.Pos()), okSrc && okErr, w)
				}
			}
		}
		c.Extra["input_sized_allocations"] = n
		// willRead precedes every read
		for m, arg := range map[string]string{"readFull": `len\(\[\]byte#0\)`, "readByte": `1`} {
			fn := c.Fn("rlp:(*Stream)." + m)
			c.MustBefore("C11-R2", fn, `^(Reader|ByteReader)\.(Read|ReadByte)$`, 1, []LitReq{{Name: m + " accounts the exact number of bytes with willRead before touching the reader", Re: `^Stream#0\.willRead\(` + arg + `\) == nil$`}})
		}
		wr := c.Fn("rlp:(*Stream).willRead")
		c.MustOnAccept("C11-R2", wr, -1, false, []LitReq{
			{Name: "reads stay inside the enclosing list", Unless: `^len\(Stream#0\.stack\) <= 0$`, Re: `^uint64#0 <= \(.*\.size - .*\.pos\)$`},
			{Name: "reads stay inside the input limit", Unless: `^!Stream#0\.limited$`, Re: `^uint64#0 <= Stream#0\.remaining$`},
		})
	})
	c.Min("C11-R2", 6)

	c.Rule("C11-R4", "slice bounds and indexes on the input buffer are guarded (raw family and Stream integer buffer)", func() {
		n := 0
		rkPost := mustRe(`^\(rlp\.readKind\((.*)\)#1 \+ rlp\.readKind\((.*)\)#2\)$`)
		reflSlice := mustRe(`^(.*)\.Slice\(0, (.*)\)\.Interface\(\)\.\(\[\]byte\)$`)
		boundsAccept = func(f *Facts, s *pstate, base, need ssa.Value, plus int64) (bool, string) {
			sb := f.tr.term(s, base, 0)
			sn := ""
			if need != nil {
				sn = f.tr.term(s, need, 0)
			}
			// postcondition of raw readKind (C11-R1 'content within the input'): tagsize+contentsize <= len(buf) when err == nil
			if m := rkPost.FindStringSubmatch(sn); m != nil && plus == 0 && m[1] == sb && m[2] == sb && s.lits["rlp.readKind("+sb+")#3 == nil"] {
				return true, "readKind postcondition tagsize+contentsize <= len(buf) (established by C11-R1)"
			}
			// the 8-byte integer buffer: allocated with make([]byte, 8) only (checked below); 8-size with 1 < size <= 8 (C11-R4 call-site rule)
			if sb == "Stream#0.uintbuf" && f.fn.Name() == "readUint" {
				if sn == "(8 - byte#0)" || sn == "(8 - uint8#0)" {
					return s.lits["byte#0 != 0"] || s.lits["uint8#0 != 0"], "uintbuf has 8 bytes; 0 < size <= 8 so 8-size is in 0..7"
				}
				if strings.HasPrefix(sn, "phi:i") {
					return s.lits[sn+" < (8 - byte#0)"] || s.lits[sn+" < (8 - uint8#0)"], "i < 8-size"
				}
			}
			// make([]byte, a+b)[a:]
			if ms, ok := resolve(s, base).(*ssa.MakeSlice); ok && plus == 0 && sn != "" {
				lt := f.tr.term(s, ms.Len, 0)
				if strings.HasPrefix(lt, "("+sn+" + ") || strings.HasSuffix(lt, " + "+sn+")") {
					return true, "bound is an addend of the allocation size"
				}
			}
			// reflect: v.Slice(0, n).Interface().([]byte) has length n
			if m := reflSlice.FindStringSubmatch(sb); m != nil {
				if k, isC := constInt(resolve(s, need)); isC {
					for l := range s.lits {
						if strings.HasSuffix(l, " <= "+m[2]) {
							lhs := strings.TrimSuffix(l, " <= "+m[2])
							for _, op := range []string{" == ", " >= "} {
								for l2 := range s.lits {
									if strings.HasPrefix(l2, lhs+op) {
										if v, err := strconv.ParseInt(l2[len(lhs+op):], 10, 64); err == nil && v >= k+plus {
											return true, "reflect slice of length " + m[2] + " >= " + lhs + " >= " + l2[len(lhs+op):]
										}
									}
								}
							}
						}
					}
				}
			}
			return false, ""
		}
		defer func() { boundsAccept = nil }()
		for _, name := range []string{"rlp:readKind", "rlp:readSize", "rlp:Split", "rlp:SplitString", "rlp:SplitList", "rlp:CountValues", "rlp:(*Stream).readUint", "rlp:(*Stream).Bytes", "rlp:(*Stream).Raw", "rlp:(*Stream).uint", "rlp:decodeByteArray", "rlp:decodeBigInt"} {
			n += c.BoundsRule("C11-R4", c.Fn(name), nil)
		}
		c.Extra["bounds_obligations"] = n
		// the integer buffer has exactly 8 bytes
		rst := c.Fn("rlp:(*Stream).Reset")
		found := 0
		for _, b := range rst.Blocks {
			for _, ins := range b.Instrs {
				if st, ok := ins.(*ssa.Store); ok {
					if fa, ok := st.Addr.(*ssa.FieldAddr); ok && fieldName(fa) == "uintbuf" {
						found++
						ms, isMS := st.Val.(*ssa.MakeSlice)
						k := int64(-1)
						if isMS {
							k, _ = constInt(ms.Len)
						} else if sl, isSl := st.Val.(*ssa.Slice); isSl && sl.Low == nil {
							if _, isAlloc := sl.X.(*ssa.Alloc); isAlloc { // make([]byte, const) is an array allocation sliced whole
								k, _ = derefArray(sl.X.Type())
								if sl.High != nil {
									if h, isC := constInt(sl.High); !isC || h != k {
										k = -1
									}
								}
							}
						}
						c.Ob("C11-R4", "Stream.uintbuf is allocated with 8 bytes", c.Position(st.Pos()), k == 8, fmt.Sprintf("make len %d", k))
					}
				}
			}
		}
		c.Ob("C11-R4", "Stream.Reset allocates uintbuf", c.FnPos(rst), found == 1, fmt.Sprintf("%d stores", found))
		c.fieldWrittenOnlyIn("C11-R4", "rlp:Stream.uintbuf", map[string]bool{"(*rlp.Stream).Reset": true})
		// every readUint call passes a size in 0..8; every Stream.uint call passes at most 64 bits
		ru := c.Fn("rlp:(*Stream).readUint")
		nc := 0
		for _, caller := range c.SrcFns {
			for _, cs := range callSitesOf(caller, ru) {
				nc++
				f := c.Facts(caller)
				okAll, det := true, ""
				for _, s := range f.At(cs) {
					t := f.tr.term(s, cs.Common().Args[1], 0)
					ok := false
					switch {
					case strings.HasSuffix(t, " - 183)"):
						inner := strings.TrimSuffix(strings.TrimPrefix(t, "("), " - 183)")
						ok = s.lits[inner+" < 192"] && s.lits[inner+" >= 184"]
					case strings.HasSuffix(t, " - 247)"):
						inner := strings.TrimSuffix(strings.TrimPrefix(t, "("), " - 247)")
						ok = s.lits[inner+" >= 248"] && isByteTyped(cs.Common().Args[1])
					default:
						ok = s.lits[t+" <= (int#0 / 8)"]
					}
					if !ok {
						okAll, det = false, "size "+t+" not bounded by 8; literals: "+strings.Join(guardLits(s), "; ")
					} else if det == "" {
						det = "size " + t
					}
				}
				c.Ob("C11-R4", shortFn(caller)+": readUint size is within 1..8", c.Position(cs.Pos()), okAll, det)
			}
		}
		c.Ob("C11-R4", "readUint call sites found", c.FnPos(ru), nc == 3, fmt.Sprintf("%d", nc))
		su := c.Fn("rlp:(*Stream).uint")
		nu := 0
		for _, caller := range c.SrcFns {
			for _, cs := range callSitesOf(caller, su) {
				nu++
				a := cs.Common().Args[1]
				t := c.termOf(caller, a)
				k, isC := constInt(a)
				c.Ob("C11-R4", shortFn(caller)+": Stream.uint width is at most 64 bits", c.Position(cs.Pos()), isC && k <= 64 && k%8 == 0 || t == "Type#1.Bits()" || strings.HasSuffix(t, ".Type().Bits()"), "maxbits "+t)
			}
		}
		c.Ob("C11-R4", "Stream.uint call sites found", c.FnPos(su), nu == 3, fmt.Sprintf("%d", nu))
	})
	c.Min("C11-R4", 50)

	c.Rule("C11-R3", "frozen list of explicit panics reachable from the decoding entry points", func() {
		roots := []*ssa.Function{c.Fn("rlp:Decode"), c.Fn("rlp:DecodeBytes"), c.Fn("rlp:(*Stream).Decode"), c.Fn("rlp:Split"), c.Fn("rlp:CountValues"), c.Fn("rlp:(*Stream).Raw"), c.Fn("rlp:(*Stream).List")}
		got := reachablePanicsOpt(c, roots, func(f *ssa.Function) bool {
			return f.Pkg != nil && relPkg(f.Pkg.Pkg.Path()) != "rlp"
		}, true)
		var names []string
		for k := range got {
			if strings.Contains(k, "rlp.") {
				names = append(names, k)
			}
		}
		sort.Strings(names)
		c.Extra["reachable_panic_functions"] = names
		// today package rlp contains no explicit panic at all; a new one reachable from decoding must be reviewed
		// and listed here with the reason it cannot be triggered by input bytes.
		allowed := map[string]string{}
		for _, nme := range names {
			why, ok := allowed[nme]
			c.Ob("C11-R3", "explicit panic in "+nme+" is a reviewed one", "", ok, why+" | "+got[nme])
		}
		c.Ob("C11-R3", "reachable-panic list computed", "", true, fmt.Sprintf("%d functions with explicit panics in package rlp reachable from Decode/Stream/Split/CountValues", len(names)))
	})
	c.Min("C11-R3", 1)

	c.Rule("C11-R5", "the codec cache is read and filled only under its lock (a half-built entry is never visible to another goroutine)", func() {
		sp := c.Prog.Package(c.Pkg("rlp").Types)
		g, _ := sp.Members["typeCache"].(*ssa.Global)
		if g == nil {
			panic(anchorErr{"package-level variable rlp.typeCache not found"})
		}
		ci1 := c.Fn("rlp:cachedTypeInfo1")
		n := 0
		for _, fn := range c.SrcFns {
			if fn.Pkg != sp {
				continue
			}
			var held map[ssa.Instruction]map[string]bool
			for _, b := range fn.Blocks {
				for _, ins := range b.Instrs {
					uses := false
					for _, op := range ins.Operands(nil) {
						if *op == ssa.Value(g) {
							uses = true
						}
					}
					if !uses {
						continue
					}
					n++
					if held == nil {
						_, _, held = lockAnalysis(fn, nil, true)
					}
					locked := held[ins]["rlp.typeCacheMutex"] || held[ins]["rlp.typeCacheMutex (read)"]
					ok := locked || fn == ci1 || fn.Name() == "init" // package initialisation runs before any other goroutine
					c.Ob("C11-R5", shortFn(fn)+": typeCache is accessed with typeCacheMutex held (cachedTypeInfo1: by its callers)", c.Position(ins.Pos()), ok, fmt.Sprintf("locks held: %v", keysOf(held[ins])))
				}
			}
			// the unlocked helper is entered only with the write lock held, or from its own recursion
			for _, cs := range callSitesOf(fn, ci1) {
				if held == nil {
					_, _, held = lockAnalysis(fn, nil, true)
				}
				rec := fn == ci1 || c.CG().Reach([]*ssa.Function{ci1}, ReachOpts{})[fn] != nil
				c.Ob("C11-R5", shortFn(fn)+" calls cachedTypeInfo1 with the write lock held (or from within the locked generation)", c.Position(cs.Pos()),
					held[cs]["rlp.typeCacheMutex"] || rec, fmt.Sprintf("locks held: %v", keysOf(held[cs])))
			}
		}
		c.Ob("C11-R5", "typeCache accesses found", "", n >= 3, fmt.Sprintf("%d", n))
	})
	c.Min("C11-R5", 5)

	c.Rule("C11-R6", "size prefixes are minimal big-endian: putint / intsize tables and the string-header writer", func() {
		// putint: returns n exactly when 256^(n-1) <= i < 256^n and stores b[k] = byte(i >> 8(n-1-k))
		pi := c.Fn("rlp:putint")
		f := c.Facts(pi)
		seenN := map[int64]bool{}
		for _, rs := range f.AllReturns() {
			n, ok := constInt(rs.Ret.Results[0])
			if !ok || n < 1 || n > 8 {
				c.Ob("C11-R6", "putint returns a constant width 1..8", c.Position(rs.Ret.Pos()), false, f.tr.term(rs.State, rs.Ret.Results[0], 0))
				continue
			}
			seenN[n] = true
			L := rs.State.lits
			up := n == 8 || L[fmt.Sprintf("uint64#0 < %d", uint64(1)<<(8*uint(n)))]
			lo := n == 1 || L[fmt.Sprintf("uint64#0 >= %d", uint64(1)<<(8*uint(n-1)))]
			// stores in the returning block
			want := map[string]bool{}
			for k := int64(0); k < n; k++ {
				want[fmt.Sprintf("%d:%d", k, 8*(n-1-k))] = true
			}
			got := map[string]bool{}
			for _, ins := range rs.Ret.Block().Instrs {
				st, ok := ins.(*ssa.Store)
				if !ok {
					continue
				}
				ia, ok := st.Addr.(*ssa.IndexAddr)
				if !ok {
					continue
				}
				k, okK := constInt(ia.Index)
				v := stripConvAll(st.Val)
				sh := int64(-1)
				if v == ssa.Value(pi.Params[1]) {
					sh = 0
				} else if bo, ok := v.(*ssa.BinOp); ok && bo.Op == token.SHR && stripConvAll(bo.X) == ssa.Value(pi.Params[1]) {
					if x, ok := constInt(stripConvAll(bo.Y)); ok {
						sh = x
					}
				}
				if okK && sh >= 0 {
					got[fmt.Sprintf("%d:%d", k, sh)] = true
				} else {
					got["?"] = true
				}
			}
			same := len(got) == len(want)
			for k := range want {
				if !got[k] {
					same = false
				}
			}
			c.Ob("C11-R6", fmt.Sprintf("putint width %d: taken exactly for 256^%d <= i < 256^%d and writes the %d big-endian bytes", n, n-1, n, n), c.Position(rs.Ret.Pos()), up && lo && same,
				fmt.Sprintf("upper=%v lower=%v stores=%v", up, lo, keysOfBool(got)))
		}
		c.Ob("C11-R6", "putint has the eight widths", c.FnPos(pi), len(seenN) == 8, fmt.Sprintf("%d", len(seenN)))

		// a string header is written only for content that is not a single byte below 0x80 (such a byte is its own
		// encoding; the decoder rejects 81 xx with xx < 0x80): every call of the header writer is guarded by that rule
		hw := c.Fn("rlp:(*encbuf).encodeStringHeader")
		nh := 0
		for _, fn := range c.SrcFns {
			if fn.Pkg == nil || fn.Pkg != hw.Pkg || len(callSitesOf(fn, hw)) == 0 {
				continue
			}
			nh++
			c.MustBefore("C11-R6", fn, `^encbuf\.encodeStringHeader$`, 1, []LitReq{
				{Name: "a string header is written only if the content is not one byte below 0x80", Re: `^(len\(.*\) != 1|.*\[0\] > 127|.*\[0\] >= 128)$`},
			})
		}
		c.Ob("C11-R6", "callers of the string-header writer found", "", nh >= 2, fmt.Sprintf("%d", nh))

		// intsize: counts the shifts by 8 until the value is zero, starting at 1
		is := c.Fn("rlp:intsize")
		fi := c.Facts(is)
		nret := 0
		for _, rs := range fi.AllReturns() {
			nret++
			okShape := false
			detail := ""
			if ph, ok := rs.Ret.Results[0].(*ssa.Phi); ok {
				init, step, ok2 := phiInitStepOf(c, is, ph)
				self := fi.tr.term(nil, ph, 0)
				// the value tested for zero is a loop phi over i with init = parameter, step = itself >> 8
				var iv *ssa.Phi
				for _, ins := range ph.Block().Instrs {
					if q, ok := ins.(*ssa.Phi); ok && q != ph {
						iv = q
					}
				}
				ii, is2, ok3 := phiInitStepOf(c, is, iv)
				ivs := ""
				if iv != nil {
					ivs = fi.tr.term(nil, iv, 0)
				}
				okShape = ok2 && ok3 && init == "1" && step == "("+self+" + 1)" && ii == "uint64#0" && is2 == "("+ivs+" >> 8)" && rs.State.lits["("+ivs+" >> 8) == 0"]
				detail = fmt.Sprintf("size: init %s step %s; i: init %s step %s", init, step, ii, is2)
			}
			c.Ob("C11-R6", "intsize returns 1 + the number of times i can be shifted right by 8 before it is zero", c.Position(rs.Ret.Pos()), okShape, detail)
		}
		c.Ob("C11-R6", "intsize has one return", c.FnPos(is), nret == 1, fmt.Sprintf("%d", nret))

		// headsize = 1 for < 56, 1 + intsize otherwise
		hs := c.Fn("rlp:headsize")
		fh := c.Facts(hs)
		for _, rs := range fh.AllReturns() {
			t := fh.tr.term(rs.State, rs.Ret.Results[0], 0)
			L := rs.State.lits
			ok := (t == "1" && L["uint64#0 < 56"]) || ((t == "(1 + rlp.intsize(uint64#0))" || t == "(rlp.intsize(uint64#0) + 1)") && L["uint64#0 >= 56"])
			c.Ob("C11-R6", "headsize: 1 below 56, 1 + intsize(size) from 56", c.Position(rs.Ret.Pos()), ok, "returns "+t)
		}

		// the string-header writer: short form below 56; otherwise either putint/puthead with 0xB7, or explicit
		// bytes whose count matches the tag and whose range literals prove minimality
		eh := c.Fn("rlp:(*encbuf).encodeStringHeader")
		fe := c.Facts(eh)
		appRe := mustRe(`^store:encbuf#0\.str=append\(encbuf#0\.str, (.*)\)$`)
		for _, rs := range fe.AllReturns() {
			L := rs.State.lits
			var apps []string
			for l := range L {
				if m := appRe.FindStringSubmatch(l); m != nil {
					apps = append(apps, m[1])
				}
			}
			sort.Strings(apps)
			ok, how := false, "unrecognised header construction"
			switch {
			case len(apps) != 1:
				how = fmt.Sprintf("%d appends to the output on one path", len(apps))
			case L["int#0 < 56"]:
				ok = apps[0] == "[(128 + int#0)]" || apps[0] == "[(int#0 + 128)]"
				how = "short form " + apps[0]
			case L["called:rlp.putint(encbuf#0.sizebuf[1:], int#0)"]:
				hd := false
				for _, b := range eh.Blocks {
					for _, ins := range b.Instrs {
						if st, isSt := ins.(*ssa.Store); isSt {
							if ia, isIA := st.Addr.(*ssa.IndexAddr); isIA {
								if k, isC := constInt(ia.Index); isC && k == 0 {
									t := fe.tr.term(rs.State, st.Val, 0)
									hd = t == "(183 + rlp.putint(encbuf#0.sizebuf[1:], int#0))" || t == "(rlp.putint(encbuf#0.sizebuf[1:], int#0) + 183)"
									how = "long form head byte " + t
								}
							}
						}
					}
				}
				ok = hd && L["int#0 >= 56"] && apps[0] == "encbuf#0.sizebuf[:(rlp.putint(encbuf#0.sizebuf[1:], int#0) + 1)]"
			case strings.HasPrefix(apps[0], "[") && strings.HasSuffix(apps[0], "]"):
				el := splitTop(apps[0][1 : len(apps[0])-1])
				tag, err := strconv.Atoi(el[0])
				n := tag - 183
				if err == nil && n >= 1 && n <= 8 && len(el) == n+1 {
					bytesOK := true
					for j := 1; j <= n; j++ {
						sh := 8 * (n - j)
						want := fmt.Sprintf("(int#0 >> %d)", sh)
						if sh == 0 {
							want = "int#0"
						}
						if el[j] != want {
							bytesOK = false
						}
					}
					up, lo := false, false
					for l := range L {
						var v uint64
						if _, e := fmt.Sscanf(l, "int#0 < %d", &v); e == nil && (n == 8 || v <= uint64(1)<<(8*uint(n))) {
							up = true
						}
						if _, e := fmt.Sscanf(l, "int#0 <= %d", &v); e == nil && (n == 8 || v < uint64(1)<<(8*uint(n))) {
							up = true
						}
						if _, e := fmt.Sscanf(l, "int#0 >= %d", &v); e == nil && ((n == 1 && v >= 56) || (n > 1 && v >= uint64(1)<<(8*uint(n-1)))) {
							lo = true
						}
						if _, e := fmt.Sscanf(l, "int#0 > %d", &v); e == nil && ((n == 1 && v >= 55) || (n > 1 && v+1 >= uint64(1)<<(8*uint(n-1)))) {
							lo = true
						}
					}
					ok = bytesOK && up && lo
					how = fmt.Sprintf("explicit %d-byte size: bytes big-endian=%v, range proves size < 256^%d: %v, >= minimum: %v", n, bytesOK, n, up, lo)
				}
			}
			pos := c.Position(rs.Ret.Pos())
			if pos == "" {
				pos = c.FnPos(eh)
			}
			c.Ob("C11-R6", "encodeStringHeader writes the canonical header on this path", pos, ok, how)
		}
	})
	c.Min("C11-R6", 14)

	c.Rule("C11-R7", "accepted input is consumed: no error of a reading step is discarded, and a single-byte value is taken by re-arming Kind", func() {
		// Stream methods signal "nothing was consumed" only through their error; a decoder that drops it and accepts
		// leaves the same bytes to be read again by the next field (value -> encoding -> different value or error).
		rp := c.Prog.Package(c.Pkg("rlp").Types)
		errT := types.Universe.Lookup("error").Type()
		n := 0
		for _, fn := range c.SrcFns {
			if fn.Pkg != rp {
				continue
			}
			for _, b := range fn.Blocks {
				for _, ins := range b.Instrs {
					call, ok := ins.(*ssa.Call)
					if !ok {
						continue
					}
					f := call.Call.StaticCallee()
					if f == nil || f.Pkg != rp || f.Signature.Recv() == nil || typeShort(f.Signature.Recv().Type()) != "Stream" {
						continue
					}
					res := f.Signature.Results()
					if res.Len() == 0 || !types.Identical(res.At(res.Len()-1).Type(), errT) {
						continue
					}
					n++
					used := false
					if refs := call.Referrers(); refs != nil {
						for _, r := range *refs {
							if res.Len() == 1 {
								if _, dbg := r.(*ssa.DebugRef); !dbg {
									used = true
								}
							} else if ex, ok := r.(*ssa.Extract); ok && ex.Index == res.Len()-1 && ex.Referrers() != nil && len(*ex.Referrers()) > 0 {
								used = true
							}
						}
					}
					c.Ob("C11-R7", shortFn(fn)+": the error of "+shortFn(f)+" is examined", c.Position(call.Pos()), used, "")
				}
			}
		}
		c.Ob("C11-R7", "Stream reading calls found", "", n >= 30, fmt.Sprintf("%d", n))
		// every function that looks at Kind() itself and accepts a single-byte value has taken it: it re-arms Kind
		// (kind = -1) or hands the stream to a reading method (whose error it examines, above)
		kindFn := c.Fn("rlp:(*Stream).Kind")
		byteRe := mustRe(`^Stream#0\.Kind\(\)#0 == 0$`)
		takeRe := mustRe(`^(store:Stream#0\.kind=-1|called:Stream#0\.\w+\(.*|.*\(Stream#0[,)].*)$`) // re-arm, a reading method, or the stream handed to another decoder
		nb := 0
		for _, fn := range c.SrcFns {
			if fn.Pkg != rp || len(callSitesOf(fn, kindFn)) == 0 || fn == kindFn {
				continue
			}
			res := fn.Signature.Results()
			if res.Len() == 0 || !types.Identical(res.At(res.Len()-1).Type(), errT) {
				continue
			}
			ff := c.Facts(fn)
			for _, rs := range ff.AcceptingReturns(-1, false) {
				isByte := false
				for l := range rs.State.lits {
					if byteRe.MatchString(l) {
						isByte = true
					}
				}
				if !isByte {
					continue
				}
				nb++
				took := false
				for l := range rs.State.lits {
					if takeRe.MatchString(l) && !strings.HasPrefix(l, "called:Stream#0.Kind(") {
						took = true
					}
				}
				c.Ob("C11-R7", shortFn(fn)+": an accepted single-byte value is consumed (Kind re-armed or read through a Stream method)", c.FnPos(fn), took, strings.Join(guardLits(rs.State), "; "))
			}
		}
		c.Ob("C11-R7", "single-byte accepting paths found", "", nb >= 3, fmt.Sprintf("%d", nb))
	})
	c.Min("C11-R7", 30)
}

func keysOfBool(m map[string]bool) []string {
	var out []string
	for k := range m {
		out = append(out, k)
	}
	sort.Strings(out)
	return out
}

func isByteTyped(v ssa.Value) bool {
	b, ok := v.Type().Underlying().(*types.Basic)
	return ok && b.Kind() == types.Uint8
}

// callSitesOf: call instructions in fn that statically call target.
func callSitesOf(fn, target *ssa.Function) []ssa.CallInstruction {
	var out []ssa.CallInstruction
	for _, b := range fn.Blocks {
		for _, ins := range b.Instrs {
			if ci, ok := ins.(ssa.CallInstruction); ok && ci.Common().StaticCallee() == target {
				out = append(out, ci)
			}
		}
	}
	return out
}
