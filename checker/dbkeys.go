// Engine `dbkeys`: the accessors of the chain database (core/database_util.go) come in Write/Get/Delete families per
// entity. "Retrievable" and "deleted on rewind" hold only if every member of a family builds the same key from the same
// (hash, number): readers must read what writers wrote, deleters must delete exactly that.
package main

import (
	"fmt"
	"regexp"
	"sort"
	"strings"

	"golang.org/x/tools/go/ssa"
)

var (
	dbVerb   = regexp.MustCompile(`^(Write|Get|Delete|Has)`)
	dbSuffix = regexp.MustCompile(`(RLP|NoVersion|Entries|Entry)$`)
)

// dbKeyShape renders the key argument in a canonical form: helper key functions are replaced by what they return,
// header/block-derived hashes and numbers are written as Hash#0 / uint64#0, x[:] and x.Bytes() are the same bytes.
func (c *Ctx) dbKeyShape(fn *ssa.Function, v ssa.Value) string {
	if call, ok := v.(*ssa.Call); ok {
		if callee := call.Call.StaticCallee(); callee != nil && callee.Pkg == fn.Pkg && len(callee.Blocks) == 1 && strings.HasSuffix(callee.Name(), "Key") {
			if ret, ok := callee.Blocks[0].Instrs[len(callee.Blocks[0].Instrs)-1].(*ssa.Return); ok && len(ret.Results) == 1 {
				return c.dbKeyShape(callee, ret.Results[0])
			}
		}
	}
	t := c.termOf(fn, v)
	for _, r := range [][2]string{
		{`Header#0.Hash()`, `Hash#0`}, {`Header#0.Number.Uint64()`, `uint64#0`},
		{`Hash#0[:]`, `Hash#0.Bytes()`},
	} {
		t = strings.ReplaceAll(t, r[0], r[1])
	}
	t = regexp.MustCompile(`Block#0\.Transactions\(\)\[[^\]]*\]\.Hash\(\)`).ReplaceAllString(t, "Hash#0")
	return t
}

// DBKeyAgreementRule groups the accessors of file `file` in package core by entity and compares their key shapes.
func (c *Ctx) DBKeyAgreementRule(rule string) int {
	alias := map[string]string{"BlockNumber": "Header"} // the hash->number entry is written together with the header
	skip := map[string]bool{"Transaction": true, "Receipt": true, "Preimages": true, "Block": true} // legacy readers / composite writers
	type fam struct{ w, g, d map[string]string }
	fams := map[string]*fam{}
	for _, fn := range c.SrcFns {
		if fn.Pkg == nil || relPkg(fn.Pkg.Pkg.Path()) != "core" || !strings.Contains(c.FnPos(fn), "database_util.go") || fn.Parent() != nil {
			continue
		}
		verb := dbVerb.FindString(fn.Name())
		if verb == "" {
			continue
		}
		ent := dbSuffix.ReplaceAllString(strings.TrimPrefix(fn.Name(), verb), "")
		if a, ok := alias[ent]; ok {
			ent = a
		}
		if skip[ent] {
			continue
		}
		for _, cs := range callSites(fn, `\.(Put|Get|Delete|Has)$`) {
			if len(cs.Common().Args) == 0 || !strings.HasPrefix(calleeName(cs.Common()), "Database") && !strings.HasPrefix(calleeName(cs.Common()), "Putter") {
				continue
			}
			k := c.dbKeyShape(fn, cs.Common().Args[0])
			if fams[ent] == nil {
				fams[ent] = &fam{map[string]string{}, map[string]string{}, map[string]string{}}
			}
			switch verb {
			case "Write":
				fams[ent].w[k] = fn.Name()
			case "Get", "Has":
				fams[ent].g[k] = fn.Name()
			case "Delete":
				fams[ent].d[k] = fn.Name()
			}
		}
	}
	var ents []string
	for e := range fams {
		ents = append(ents, e)
	}
	sort.Strings(ents)
	n := 0
	for _, e := range ents {
		f := fams[e]
		if len(f.w) == 0 {
			continue
		}
		n++
		okG, okD := true, true
		var bad []string
		for k, who := range f.g {
			if _, ok := f.w[k]; !ok {
				okG = false
				bad = append(bad, who+" reads "+k)
			}
		}
		if len(f.d) > 0 {
			for k, who := range f.d {
				if _, ok := f.w[k]; !ok {
					okD = false
					bad = append(bad, who+" deletes "+k)
				}
			}
			for k, who := range f.w {
				if _, ok := f.d[k]; !ok {
					okD = false
					bad = append(bad, "nothing deletes "+k+" written by "+who)
				}
			}
		}
		sort.Strings(bad)
		var ws []string
		for k := range f.w {
			ws = append(ws, k)
		}
		sort.Strings(ws)
		c.Ob(rule, "database entity "+e+": readers read and deleters delete exactly the keys the writers write", "", okG && okD,
			fmt.Sprintf("written keys: %s; %s", strings.Join(ws, " | "), strings.Join(bad, "; ")))
	}
	return n
}
