package main

import (
	"fmt"
	"strings"

	"golang.org/x/tools/go/ssa"
)

// C02 The head is always a heaviest fully validated block.

func init() { register("C02", []string{"./..."}, runC02) }

func runC02(c *Ctx) {
	c.Explanation = "Value-flow and guard rules for total difficulty and fork choice: every stored total difficulty is a freshly allocated sum of the block's own difficulty and its parent's stored total difficulty (parent nil-checked), in WriteBlockWithState, the pruned-side-chain path of insertChain2 and HeaderChain.WriteHeader; shared total-difficulty integers handed out by GetTd are never mutated in place; the calls that make a block canonical (insert, reorg, the canonical rewrite in WriteHeader) are reachable only under externTd > localTd or externTd == localTd, never under <; the head and local TD that feed this comparison are read while the chain mutex is held; and the set of head movers is closed. Decides the recurrence shape and the guard of every head move on all paths; optimality over all block trees and arrival orders, and the pruned side-chain import, are not decided."
	c.NotDecided = []string{"heaviest-chain optimality over all trees and arrival orders (history quantifier)", "tie-break randomness", "that the pruned side-chain re-import converges"}
	c.Assumptions = []string{"GetTd returns the value stored by WriteTd for that block", "bc.mu serialises all writers of the head"}
	td := func(b, d string) string {
		return `new\(Int\)\.Add\(` + d + `, ` + b + `\)`
	}
	c.Rule("C02-R1", "total difficulty recurrence at every WriteTd; no in-place mutation of shared TD integers", func() {
		wbs := c.Fn("core:(*BlockChain).WriteBlockWithState")
		ptd := `BlockChain#0\.GetTd\(Block#0\.ParentHash\(\), \(Block#0\.NumberU64\(\) - 1\)\)`
		c.MustBefore("C02-R1", wbs, `^HeaderChain\.WriteTd$`, 1, []LitReq{{Name: "parent total difficulty is known", Re: `^` + ptd + ` != nil$`}})
		for _, s := range callSites(wbs, `^HeaderChain\.WriteTd$`) {
			a := s.Common().Args
			t := c.termOf(wbs, a[3])
			ok := mustRe(`^`+td(ptd, `Block#0\.Difficulty\(\)`)+`$`).MatchString(t) && c.termOf(wbs, a[1]) == "Block#0.Hash()" && c.termOf(wbs, a[2]) == "Block#0.NumberU64()"
			c.Ob("C02-R1", "WriteBlockWithState stores TD(block) = difficulty(block) + TD(parent) as a fresh integer", c.Position(s.Pos()), ok, "WriteTd("+c.termOf(wbs, a[1])+", "+c.termOf(wbs, a[2])+", "+t+")")
		}
		ic := c.Fn("core:(*BlockChain).insertChain2")
		for _, s := range callSites(ic, `^BlockChain\.WriteBlockWithoutState$`) {
			t := c.termOf(ic, s.Common().Args[2])
			ok := mustRe(`^new\(Int\)\.Add\(BlockChain#0\.GetTd\((.*)\.ParentHash\(\), \((.*)\.NumberU64\(\) - 1\)\), (.*)\.Difficulty\(\)\)$`).MatchString(t)
			c.Ob("C02-R1", "pruned side-chain path stores TD = TD(parent) + difficulty as a fresh integer", c.Position(s.Pos()), ok, "WriteBlockWithoutState(block, "+t+")")
			// the block is parked without execution only while the head is heavier than the TD stored for it: the
			// comparison operand is that very total, not the parent's (or the head would stay on the lighter chain
			// when the delivered side chain ends at the first heavier block)
			fic := c.Facts(ic)
			local := `BlockChain#0.GetTd(BlockChain#0.CurrentBlock().Hash(), BlockChain#0.CurrentBlock().NumberU64())`
			okCmp, nst := true, 0
			for _, st := range fic.At(s) {
				nst++
				tt := fic.tr.term(st, s.Common().Args[2], 0)
				if !st.lits[local+" > "+tt] {
					okCmp = false
				}
			}
			c.Ob("C02-R1", "pruned side-chain path parks a block only under TD(head) > the total difficulty it stores for the block", c.Position(s.Pos()), okCmp && nst > 0, fmt.Sprintf("%d path states", nst))
		}
		// once the side chain wins, the blocks to re-execute are gathered by walking parents back to a block whose state
		// is available – for every batching of the delivery, not from the current batch (whose first block may itself
		// sit on pruned ancestors)
		vcIC := newValueClasses(ic)
		nWin := 0
		for _, s := range callSites(ic, `^BlockChain\.insertChain2?$`) {
			arg := stripConvAll(s.Common().Args[1])
			okW, nApp, why := true, 0, ""
			for _, b := range ic.Blocks {
				for _, ins := range b.Instrs {
					call, isCall := ins.(*ssa.Call)
					if !isCall {
						continue
					}
					bi, isB := call.Call.Value.(*ssa.Builtin)
					if !isB || bi.Name() != "append" || !vcIC.same(call, arg) {
						continue
					}
					nApp++
					// the appended pack holds parents fetched from the database
					sl, isSl := call.Call.Args[1].(*ssa.Slice)
					var al *ssa.Alloc
					if isSl {
						al, _ = sl.X.(*ssa.Alloc)
					}
					if al == nil {
						okW, why = false, "appends "+c.termOf(ic, call.Call.Args[1])
						continue
					}
					for _, r := range *al.Referrers() {
						if ia, isIA := r.(*ssa.IndexAddr); isIA {
							for _, rr := range *ia.Referrers() {
								if st, isSt := rr.(*ssa.Store); isSt {
									for _, l := range phiLeaves(st.Val) {
										if cl, isC := l.(*ssa.Call); !isC || !strings.HasSuffix(calleeName(&cl.Call), ".GetBlock") {
											okW, why = false, "appends "+c.termOf(ic, l)
										}
									}
								}
							}
						}
					}
				}
			}
			if nApp == 0 {
				continue // a retry of the caller's own batch, not the gathered winner chain
			}
			nWin++
			c.Ob("C02-R1", "pruned side-chain path: the chain handed to the re-execution is gathered only from parents fetched from the database", c.Position(s.Pos()), okW, fmt.Sprintf("%d appends %s", nApp, why))
			c.mustStates("C02-R1", ic, "re-execution of the gathered chain", c.Facts(ic).At(s), []LitReq{
				{Name: "pruned side-chain path: the parent walk ends only at a block whose state is available", Re: `^BlockChain#0\.HasState\(.*\.Root\(\)\)$`},
			})
		}
		c.Ob("C02-R1", "pruned side-chain path: the re-execution call of the gathered chain found", c.FnPos(ic), nWin == 1, fmt.Sprintf("%d", nWin))
		wo := c.Fn("core:(*BlockChain).WriteBlockWithoutState")
		for _, s := range callSites(wo, `^HeaderChain\.WriteTd$`) {
			a := s.Common().Args
			c.Ob("C02-R1", "WriteBlockWithoutState stores exactly the TD it was given for that block", c.Position(s.Pos()),
				c.termOf(wo, a[3]) == "Int#0" && c.termOf(wo, a[1]) == "Block#0.Hash()" && c.termOf(wo, a[2]) == "Block#0.NumberU64()", "")
		}
		wh := c.Fn("core:(*HeaderChain).WriteHeader")
		hptd := `HeaderChain#0\.GetTd\(Header#0\.ParentHash, \(Header#0\.Number\.Uint64\(\) - 1\)\)`
		c.MustBefore("C02-R1", wh, `^HeaderChain\.WriteTd$`, 1, []LitReq{{Name: "parent total difficulty is known", Re: `^` + hptd + ` != nil$`}})
		for _, s := range callSites(wh, `^HeaderChain\.WriteTd$`) {
			t := c.termOf(wh, s.Common().Args[3])
			c.Ob("C02-R1", "WriteHeader stores TD(header) = difficulty + TD(parent) as a fresh integer", c.Position(s.Pos()), mustRe(`^`+td(hptd, `Header#0\.Difficulty`)+`$`).MatchString(t), "WriteTd(…, "+t+")")
		}
		// WriteTd sites in package core are exactly the reviewed ones
		allowed := map[string]bool{"(*core.BlockChain).WriteBlockWithState": true, "(*core.BlockChain).WriteBlockWithoutState": true, "(*core.HeaderChain).WriteHeader": true,
			"(*core.BlockChain).ResetWithGenesisBlock": true, "(*core.Genesis).Commit": true, "(*core.HeaderChain).WriteTd": true}
		for _, fn := range c.SrcFns {
			if fn.Pkg == nil || strings.HasPrefix(relPkg(fn.Pkg.Pkg.Path()), "cmd/") || fn.Synthetic != "" {
				continue
			}
			for _, s := range callSites(fn, `^(HeaderChain\.WriteTd|core\.WriteTd)$`) {
				c.Ob("C02-R1", "total difficulty is written by a reviewed function: "+shortFn(fn), c.Position(s.Pos()), allowed[shortFn(fn)], "")
			}
		}
		// shared TD integers (results of GetTd*) are never the receiver of a mutating big.Int method
		n := 0
		for _, fn := range c.SrcFns {
			for _, b := range fn.Blocks {
				for _, ins := range b.Instrs {
					call, ok := ins.(*ssa.Call)
					if !ok {
						continue
					}
					f := call.Call.StaticCallee()
					if f == nil || f.Signature.Recv() == nil || !strings.HasSuffix(f.Signature.Recv().Type().String(), "big.Int") || !bigMutators[f.Name()] {
						continue
					}
					for _, root := range bigRoots(call.Call.Args[0]) {
						rc, ok := root.(*ssa.Call)
						if !ok {
							continue
						}
						cn := calleeName(&rc.Call)
						if strings.HasSuffix(cn, ".GetTd") || strings.HasSuffix(cn, ".GetTdByHash") {
							n++
							c.Ob("C02-R1", shortFn(fn)+": big.Int."+f.Name()+" mutates a total difficulty obtained from "+cn+" in place", c.Position(call.Pos()), false,
								"GetTd hands out the cached integer: in-place arithmetic corrupts the stored total difficulty of another block")
						}
					}
				}
			}
		}
		c.Ob("C02-R1", "no in-place arithmetic on integers returned by GetTd/GetTdByHash", "", n == 0, "")
	})
	c.Min("C02-R1", 12)

	c.Rule("C02-R2", "a block becomes canonical only under externTd >= localTd; the comparison operands are read under the chain mutex", func() {
		wbs := c.Fn("core:(*BlockChain).WriteBlockWithState")
		ext := `new\(Int\)\.Add\(Block#0\.Difficulty\(\), BlockChain#0\.GetTd\(Block#0\.ParentHash\(\), \(Block#0\.NumberU64\(\) - 1\)\)\)`
		loc := `BlockChain#0\.GetTd\(BlockChain#0\.CurrentBlock\(\)\.Hash\(\), BlockChain#0\.CurrentBlock\(\)\.NumberU64\(\)\)`
		ff := c.FactsFocus(wbs, `GetTd\(|\.NumberU64\(\) (<|>|==|<=|>=) BlockChain|rand\.Float64`, true, "type:WriteStatus")
		sites := ff.Calls(mustRe(`^BlockChain\.(insert|reorg)$`))
		var states []*pstate
		for _, s := range sites {
			states = append(states, ff.At(s)...)
		}
		if len(sites) < 2 {
			c.Ob("C02-R2", "WriteBlockWithState has the reorg and the insert call", c.FnPos(wbs), false, fmt.Sprintf("%d", len(sites)))
		}
		c.Extra["fork_choice_path_states"] = len(states)
		c.mustStates("C02-R2", wbs, "call of insert/reorg", states, []LitReq{
			{Name: "head moves only when the new total difficulty is not lower", Re: `^` + ext + ` (>|==) ` + loc + `$`},
			{Name: "ties at equal height are broken only at random, lower height wins", Unless: `^` + ext + ` > ` + loc + `$`,
				Re: `^(Block#0\.NumberU64\(\) < BlockChain#0\.CurrentBlock\(\)\.NumberU64\(\)|rand\.Float64\(\) < 0\.5)$`},
		})
		// operands of the comparison are read with bc.mu held
		_, _, held := lockAnalysis(wbs, nil, true)
		for _, s := range callSites(wbs, `^BlockChain\.(CurrentBlock|GetTd)$`) {
			t := c.termOf(wbs, s.Value())
			if strings.Contains(t, "ParentHash") {
				continue // parent TD: immutable once written
			}
			c.Ob("C02-R2", "WriteBlockWithState reads "+calleeName(s.Common())+" (fork-choice operand) under bc.mu", c.Position(s.Pos()), held[s]["BlockChain#0.mu"], fmt.Sprintf("locks held: %v", keysOf(held[s])))
		}
		// who may move the head: insert is called only from the guarded fork-choice code, from reorg (itself called
		// only there) and when the chain is reset to genesis; nothing else may promote a block
		insFn, rgFn := c.Fn("core:(*BlockChain).insert"), c.Fn("core:(*BlockChain).reorg")
		okCallers := map[*ssa.Function]map[string]string{
			insFn: {"(*core.BlockChain).WriteBlockWithState": "under the total-difficulty guard above", "(*core.BlockChain).reorg": "new-chain blocks of a guarded reorg",
				"(*core.BlockChain).ResetWithGenesisBlock": "chain reset to genesis"},
			rgFn: {"(*core.BlockChain).WriteBlockWithState": "under the total-difficulty guard above"},
		}
		ncs := 0
		for _, caller := range c.SrcFns {
			for target, allowed := range okCallers {
				for _, cs := range callSitesOf(caller, target) {
					ncs++
					why, ok := allowed[shortFn(caller)]
					c.Ob("C02-R2", shortFn(caller)+" may call "+shortFn(target), c.Position(cs.Pos()), ok, why)
				}
			}
		}
		c.Ob("C02-R2", "call sites of insert/reorg found", "", ncs >= 4, fmt.Sprintf("%d", ncs))
		// reorg itself makes every block of the new branch canonical, the new head included: it does not leave the head
		// to its caller (a fault between reorg's return and the caller's own insert would leave the head on a lighter
		// intermediate block). The insert call lies on every path through an iteration of the loop that also writes
		// the block's lookup entries, and both take the same element.
		insS := callSitesOf(rgFn, insFn)
		lkS := callSites(rgFn, `^core\.WriteTxLookupEntries$`)
		okIns := len(insS) == 1 && len(lkS) == 1
		detail := fmt.Sprintf("%d insert sites, %d lookup-entry sites", len(insS), len(lkS))
		if okIns {
			a, b := c.termOf(rgFn, insS[0].Common().Args[1]), c.termOf(rgFn, lkS[0].Common().Args[1])
			okIns = a == b && (instrDominates(insS[0], lkS[0]) || (lkS[0].Block().Dominates(insS[0].Block()) && !reaches(lkS[0].Block(), lkS[0].Block(), insS[0].Block())))
			detail = "insert(" + a + "), WriteTxLookupEntries(" + b + ")"
			if p, isPhi := indexPhiOfArg(insS[0].Common().Args[1]); isPhi && okIns {
				var why string
				okIns, why = loopExitsAfter(p.Block(), insS[0])
				detail += " " + why
			} else {
				okIns = false
			}
		}
		c.Ob("C02-R2", "reorg: every block of the new chain (the new head included) is made canonical by reorg itself", c.FnPos(rgFn), okIns, detail)
		// alternative entry point: `aquachain import` pre-filters the blocks of a file; a block may be skipped as
		// "already present" only by its own hash (a block of another branch at a known height is not present)
		if mb := c.FnOpt("subcommands:missingBlocks"); mb == nil {
			c.Ob("C02-R2", "subcommands.missingBlocks found", "", false, "")
		} else {
			fmb := c.Facts(mb)
			blk := `\[\]Block#0\[\(phi:rangeindex(~\d+)? \+ 1\)\]`
			hashOf := `(` + blk + `\.Hash\(\)|` + blk + `\.SetVersion\(BlockChain#0\.Config\(\)\.GetBlockVersion\(` + blk + `\.Number\(\)\)\))`
			st := fmb.LoopBackStates(`^BlockChain\.(HasBlock|HasBlockAndState)$`)
			c.mustStates("C02-R2", mb, "loop continuation (block skipped as present)", st, []LitReq{
				{Name: "import skips a block only if that very block (by hash) is stored", Re: `^BlockChain#0\.(HasBlock|HasBlockAndState)\(` + hashOf + `, ` + blk + `\.NumberU64\(\)\)$`},
			})
			if len(st) == 0 {
				c.Ob("C02-R2", "missingBlocks has the skip-present-block loop", c.FnPos(mb), false, "")
			}
		}
		wh := c.Fn("core:(*HeaderChain).WriteHeader")
		hext := `new\(Int\)\.Add\(Header#0\.Difficulty, HeaderChain#0\.GetTd\(Header#0\.ParentHash, \(Header#0\.Number\.Uint64\(\) - 1\)\)\)`
		hloc := `HeaderChain#0\.GetTd\(HeaderChain#0\.currentHeaderHash, HeaderChain#0\.CurrentHeader\(\)\.Number\.Uint64\(\)\)`
		c.MustBefore("C02-R2", wh, `^core\.(WriteCanonicalHash|WriteHeadHeaderHash|DeleteCanonicalHash)$`, 3, []LitReq{
			{Name: "header chain head moves only when the new total difficulty is not lower", Re: `^` + hext + ` (>|==) ` + hloc + `$`},
		})
	})
	c.Min("C02-R2", 11)

	// integers handed out by accessors (cached total difficulties, balances, transaction and header fields, protocol
	// constants) are never modified in place anywhere in the module: decided by the ownership rule of C05, shared here
	c.Borrow("C05", runC05, map[string]string{"C05-R4": "C02-R3"})
}
