package main

import "go/types"

// C19 Event feeds deliver every value exactly once to every live subscriber (locking discipline only).

func init() { register("C19", []string{"./..."}, runC19) }

func runC19(c *Ctx) {
	c.Explanation = "Lock-set analysis (per-function forward dataflow over go/ssa with defer handling, select-receive tokens and caller-holds summaries through the call graph) of package aqua/event: the one-token channel Feed.sendLock and every mutex are released on every non-panic exit; Feed.sendCases is touched only while the token is held, Feed.inbox/etype only under Feed.mu, SubscriptionScope and funcSub state only under their mutex; unsubscribe runs remove+close under sync.Once. Decides the locking discipline (absence of data races on the guarded fields and of leaked locks on every path); delivery, ordering and exactly-once are schedule properties and are NOT decided."
	c.NotDecided = []string{"delivery to every subscriber, exactly-once, common order of concurrent sends, absence of deadlock (schedule quantifier: needs model checking / schedule exploration, a different technique family)"}
	c.Assumptions = []string{"panic exits are outside the property's quantifier (type misuse)", "reflect.Select on sendCases happens while the token is held (Send holds it throughout: verified by pairing)"}
	feed := c.Type("aqua/event:Feed").Underlying().(*types.Struct)
	cfg := &lockCfg{tokenFields: map[*types.Var]bool{}}
	for i := 0; i < feed.NumFields(); i++ {
		if feed.Field(i).Name() == "sendLock" {
			cfg.tokenFields[feed.Field(i)] = true
		}
	}
	c.Rule("C19-R1", "the send token (Feed.sendLock) and every mutex in package event are released on every non-panic exit", func() {
		if len(cfg.tokenFields) != 1 {
			panic(anchorErr{"Feed.sendLock not found"})
		}
		f, o := c.LockPairingRule("C19-R1", []string{"aqua/event"}, cfg, map[string]string{
			"(*aqua/event.TypeMux).del": "locks mux.mutex and unlocks s.mux.mutex: the same object by construction (s.mux == mux for every subscription handed to del)",
			"(*aqua/event.Feed).init":  "deposits the initial token: runs exactly once under sync.Once before any acquire",
		})
		c.Extra["functions_with_lock_ops"] = f
		c.Extra["lock_operations"] = o
	})
	c.Min("C19-R1", 12)
	c.Rule("C19-R2", "guarded-by: feed and subscription state is accessed only with its lock held (here or at every call site)", func() {
		n := c.GuardedBy("C19-R2", guardSpec{Type: "aqua/event:Feed", Lock: "sendLock", Fields: []string{"sendCases"},
			Exempt: map[string]string{"(*aqua/event.Feed).init": "runs once under sync.Once before the token exists"}}, cfg)
		n += c.GuardedBy("C19-R2", guardSpec{Type: "aqua/event:Feed", Lock: "mu", Fields: []string{"inbox", "etype"}}, cfg)
		n += c.GuardedBy("C19-R2", guardSpec{Type: "aqua/event:SubscriptionScope", Lock: "mu", Fields: []string{"subs", "closed"}}, cfg)
		n += c.GuardedBy("C19-R2", guardSpec{Type: "aqua/event:funcSub", Lock: "mu", Fields: []string{"unsubscribed"}}, cfg)
		c.Extra["guarded_accesses"] = n
	})
	c.Min("C19-R2", 20)
	c.Rule("C19-R4", "feedSub.Unsubscribe runs remove + close(err) exactly once (sync.Once)", func() {
		fn := c.Fn("aqua/event:(*feedSub).Unsubscribe")
		sites := callSites(fn, `^Once\.Do$`)
		ok := len(sites) == 1 && len(callSites(fn, `.`)) == 1
		detail := ""
		if len(sites) == 1 {
			if mc, isMC := sites[0].Common().Args[1].(interface{ String() string }); isMC {
				_ = mc
			}
		}
		var inner []string
		for _, an := range fn.AnonFuncs {
			for _, cs := range callSites(an, `.`) {
				inner = append(inner, calleeName(cs.Common()))
			}
		}
		has := func(n string) bool {
			for _, x := range inner {
				if x == n {
					return true
				}
			}
			return false
		}
		ok = ok && has("Feed.remove") && has("close")
		detail = "calls in Unsubscribe: only errOnce.Do(closure); closure calls: " + joinStr(inner)
		c.Ob("C19-R4", "Unsubscribe: remove and close only inside errOnce.Do", c.FnPos(fn), ok, detail)
		// Feed.remove is called from nowhere else
		rm := c.Fn("aqua/event:(*Feed).remove")
		for _, caller := range c.CG().in[rm] {
			c.Ob("C19-R4", "Feed.remove called from "+shortFn(caller), c.FnPos(caller), shortFn(caller) == "(*aqua/event.feedSub).Unsubscribe$1", "only the Once-guarded closure may remove a subscription")
		}
	})
	c.Min("C19-R4", 2)
}

func joinStr(xs []string) string {
	s := ""
	for i, x := range xs {
		if i > 0 {
			s += ", "
		}
		s += x
	}
	return s
}
