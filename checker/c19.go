package main

import (
	"go/token"
	"fmt"
	"go/types"
	"strings"

	"golang.org/x/tools/go/ssa"
)

// C19 Event feeds deliver every value exactly once to every live subscriber (locking discipline only).

func init() { register("C19", []string{"./..."}, runC19) }

func runC19(c *Ctx) {
	c.Explanation = "Lock-set analysis (per-function forward dataflow over go/ssa with defer handling, select-receive tokens and caller-holds summaries through the call graph) of package aqua/event: the one-token channel Feed.sendLock and every mutex are released on every non-panic exit; Feed.sendCases is touched only while the token is held, Feed.inbox/etype only under Feed.mu, SubscriptionScope and funcSub state only under their mutex; unsubscribe runs remove+close under sync.Once. Decides the locking discipline (absence of data races on the guarded fields and of leaked locks on every path); delivery, ordering and exactly-once are schedule properties and are NOT decided."
	c.NotDecided = []string{"delivery to every subscriber, exactly-once, common order of concurrent sends, absence of deadlock (schedule quantifier: needs model checking / schedule exploration, a different technique family)"}
	c.Assumptions = []string{"panic exits are outside the property's quantifier (type misuse)", "reflect.Select on sendCases happens while the token is held (Send holds it throughout: verified by pairing)"}
	feed := c.Type("aqua/event:Feed").Underlying().(*types.Struct)
	cfg := &lockCfg{tokenFields: map[*types.Var]bool{}}
	for i := 0; i < feed.NumFields(); i++ {
		if feed.Field(i).Name() == "sendLock" {
			cfg.tokenFields[feed.Field(i)] = true
		}
	}
	c.Rule("C19-R1", "the send token (Feed.sendLock) and every mutex in package event are released on every non-panic exit", func() {
		if len(cfg.tokenFields) != 1 {
			panic(anchorErr{"Feed.sendLock not found"})
		}
		f, o := c.LockPairingRule("C19-R1", []string{"aqua/event"}, cfg, map[string]string{
			"(*aqua/event.TypeMux).del": "locks mux.mutex and unlocks s.mux.mutex: the same object by construction (s.mux == mux for every subscription handed to del)",
			"(*aqua/event.Feed).init":   "deposits the initial token: runs exactly once under sync.Once before any acquire",
		})
		c.Extra["functions_with_lock_ops"] = f
		c.Extra["lock_operations"] = o
	})
	c.Min("C19-R1", 12)
	c.Rule("C19-R2", "guarded-by: feed and subscription state is accessed only with its lock held (here or at every call site)", func() {
		n := c.GuardedBy("C19-R2", guardSpec{Type: "aqua/event:Feed", Lock: "sendLock", Fields: []string{"sendCases"},
			Exempt: map[string]string{"(*aqua/event.Feed).init": "runs once under sync.Once before the token exists"}}, cfg)
		n += c.GuardedBy("C19-R2", guardSpec{Type: "aqua/event:Feed", Lock: "mu", WriteExcl: true, Fields: []string{"inbox", "etype"}}, cfg)
		n += c.GuardedBy("C19-R2", guardSpec{Type: "aqua/event:SubscriptionScope", Lock: "mu", WriteExcl: true, Fields: []string{"subs", "closed"}}, cfg)
		n += c.GuardedBy("C19-R2", guardSpec{Type: "aqua/event:funcSub", Lock: "mu", WriteExcl: true, Fields: []string{"unsubscribed"}}, cfg)
		c.Extra["guarded_accesses"] = n
	})
	c.Min("C19-R2", 20)
	c.Rule("C19-R5", "structure of the send-case list that Send's bookkeeping relies on", func() {
		// Send keeps sendCases partitioned as [removeSub | pending | served]; its removeSub branch relies on delete
		// preserving order and on deactivate moving exactly the chosen case behind the pending prefix.
		del := c.Fn("aqua/event:(caseList).delete")
		fd := c.Facts(del)
		for _, rs := range fd.AllReturns() {
			t := fd.tr.term(rs.State, rs.Ret.Results[0], 0)
			c.Ob("C19-R5", "caseList.delete is order preserving: append(cs[:i], cs[i+1:]...)", c.Position(rs.Ret.Pos()),
				t == "append(caseList#0[:int#0], caseList#0[(int#0 + 1):])", "returns "+t)
		}
		da := c.Fn("aqua/event:(caseList).deactivate")
		fa := c.Facts(da)
		okRet := false
		for _, rs := range fa.AllReturns() {
			t := fa.tr.term(rs.State, rs.Ret.Results[0], 0)
			okRet = t == "caseList#0[:(len(caseList#0) - 1)]"
		}
		var stores []string
		for _, b := range da.Blocks {
			for _, ins := range b.Instrs {
				if st, ok := ins.(*ssa.Store); ok {
					if ia, ok := st.Addr.(*ssa.IndexAddr); ok {
						stores = append(stores, fa.tr.term(nil, ia, 0)+"="+fa.tr.term(nil, st.Val, 0))
					}
				}
			}
		}
		okSwap := len(stores) == 2 && stores[0] == "caseList#0[int#0]=caseList#0[(len(caseList#0) - 1)]" && stores[1] == "caseList#0[(len(caseList#0) - 1)]=caseList#0[int#0]"
		c.Ob("C19-R5", "caseList.deactivate swaps the chosen case with the last and shrinks by one", c.FnPos(da), okRet && okSwap, fmt.Sprintf("stores %v", stores))
		// the inbox is drained into sendCases atomically: while holding both the send token and mu
		send := c.Fn("aqua/event:(*Feed).Send")
		_, _, held := lockAnalysis(send, cfg, true)
		n := 0
		for _, b := range send.Blocks {
			for _, ins := range b.Instrs {
				st, ok := ins.(*ssa.Store)
				if !ok {
					continue
				}
				fa2, ok := st.Addr.(*ssa.FieldAddr)
				if !ok || fieldName(fa2) != "inbox" {
					continue
				}
				n++
				h := held[st]
				c.Ob("C19-R5", "Feed.Send empties the inbox only while holding both the send token and mu (a subscription is always in exactly one list)", c.Position(st.Pos()),
					h["Feed#0.sendLock"] && h["Feed#0.mu"], fmt.Sprintf("held: %v", keysOf(h)))
			}
		}
		c.Ob("C19-R5", "Feed.Send drains the inbox", c.FnPos(send), n == 1, fmt.Sprintf("%d stores to inbox", n))
		// a removal request for an unknown channel is never silently dropped: Send deletes the index it finds unconditionally
		for _, s := range callSites(send, `^caseList\.delete$`) {
			t := c.termOf(send, s.Common().Args[1])
			_, lits := allHave(c.Facts(send).At(s), mustRe(`^select#0 == 0$|reflect\.Select\(.*\)#0 == 0$`))
			c.Ob("C19-R5", "Feed.Send removes the found subscription unconditionally in the removeSub branch", c.Position(s.Pos()), strings.HasPrefix(t, "Feed#0.sendCases.find("), "delete("+t+") under "+lits)
		}
		// the active window (`cases`) shrinks on a removal only if the removed case was inside it: a subscriber already
		// served by this Send sits behind the window, and shrinking for it drops a still-pending subscriber
		fs := c.Facts(send)
		nsh := 0
		for _, b := range send.Blocks {
			for _, ins := range b.Instrs {
				sl, ok := ins.(*ssa.Slice)
				if !ok || sl.High == nil {
					continue
				}
				bo, ok := sl.High.(*ssa.BinOp)
				if !ok || bo.Op != token.SUB {
					continue
				}
				if k, isC := constInt(bo.Y); !isC || k != 1 {
					continue
				}
				if !strings.HasPrefix(fs.tr.term(nil, sl.X, 0), "Feed#0.sendCases") {
					continue
				}
				nsh++
				idx := `Feed#0\.sendCases\.find\(.*\)`
				c.mustStates("C19-R5", send, "shrinking of the active window after a removal", fs.At(sl), []LitReq{
					{Name: "the window shrinks only if the removed case was found", Re: `^` + idx + ` >= 0$`},
					{Name: "the window shrinks only if the removed case lay inside the window", Re: `^` + idx + ` < len\(` + PH + `\)$`},
				})
			}
		}
		c.Ob("C19-R5", "Feed.Send shrinks the active window at one site in the removal branch", c.FnPos(send), nsh == 1, fmt.Sprintf("%d", nsh))
	})
	c.Min("C19-R5", 8)

	c.Rule("C19-R4", "feedSub.Unsubscribe runs remove + close(err) exactly once (sync.Once)", func() {
		fn := c.Fn("aqua/event:(*feedSub).Unsubscribe")
		sites := callSites(fn, `^Once\.Do$`)
		ok := len(sites) == 1 && len(callSites(fn, `.`)) == 1
		detail := ""
		if len(sites) == 1 {
			if mc, isMC := sites[0].Common().Args[1].(interface{ String() string }); isMC {
				_ = mc
			}
		}
		var inner []string
		for _, an := range fn.AnonFuncs {
			for _, cs := range callSites(an, `.`) {
				inner = append(inner, calleeName(cs.Common()))
			}
		}
		has := func(n string) bool {
			for _, x := range inner {
				if x == n {
					return true
				}
			}
			return false
		}
		ok = ok && has("Feed.remove") && has("close")
		detail = "calls in Unsubscribe: only errOnce.Do(closure); closure calls: " + joinStr(inner)
		c.Ob("C19-R4", "Unsubscribe: remove and close only inside errOnce.Do", c.FnPos(fn), ok, detail)
		// Feed.remove is called from nowhere else
		rm := c.Fn("aqua/event:(*Feed).remove")
		for _, caller := range c.CG().in[rm] {
			c.Ob("C19-R4", "Feed.remove called from "+shortFn(caller), c.FnPos(caller), shortFn(caller) == "(*aqua/event.feedSub).Unsubscribe$1", "only the Once-guarded closure may remove a subscription")
		}
		// scope wrappers: "no delivery after Unsubscribe / Close has returned" needs the wrapped subscription to be
		// unsubscribed before the wrapper disappears from the scope's set (Close only waits for what is still tracked),
		// on every path and unconditionally
		su := c.Fn("aqua/event:(*scopeSub).Unsubscribe")
		innerU := callSites(su, `^Subscription\.Unsubscribe$`)
		var del ssa.Instruction
		for _, cs := range callSites(su, `^delete$`) {
			del = cs
		}
		okOrder := len(innerU) == 1 && del != nil && instrDominates(innerU[0], del) && innerU[0].Block() == su.Blocks[0]
		c.Ob("C19-R4", "scopeSub.Unsubscribe unsubscribes the wrapped subscription (unconditionally) before it leaves the scope's set", c.FnPos(su), okOrder,
			fmt.Sprintf("%d inner Unsubscribe calls; delete found: %v", len(innerU), del != nil))
		cl := c.Fn("aqua/event:(*SubscriptionScope).Close")
		c.MustLoopBack("C19-R4", cl, `^Subscription\.Unsubscribe$`, []LitReq{
			{Name: "SubscriptionScope.Close unsubscribes every tracked subscription", Re: `^call:Subscription\.Unsubscribe$`},
		})
		_, _, heldC := lockAnalysis(cl, nil, true)
		for _, cs := range callSites(cl, `^Subscription\.Unsubscribe$`) {
			c.Ob("C19-R4", "SubscriptionScope.Close unsubscribes while holding the scope lock (no Track can slip in)", c.Position(cs.Pos()), heldC[cs]["SubscriptionScope#0.mu"], fmt.Sprintf("%v", keysOf(heldC[cs])))
		}
	})
	c.Min("C19-R4", 5)
}

func joinStr(xs []string) string {
	s := ""
	for i, x := range xs {
		if i > 0 {
			s += ", "
		}
		s += x
	}
	return s
}
