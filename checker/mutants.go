package main

import (
	"strconv"
	"time"
	"encoding/json"
	"fmt"
	"go/ast"
	"go/parser"
	"go/token"
	"os"
	"os/exec"
	"path/filepath"
	"regexp"
	"sort"
	"strings"
	"sync"
)

// Checker self-validation ("both ways"): every rule has seeded mutants of /repo's source that must make it fire.
// Mutants are applied through go/packages' overlay (in memory); nothing is written into /repo. Their outcome is
// recorded in evidence and never influences the exit code.

type mutant struct {
	ID       string `json:"id"`
	Property string `json:"property"`
	File     string `json:"file"`   // repo-relative
	Search   string `json:"search"` // must occur exactly once
	Replace  string `json:"replace"`
	Expect   string `json:"expect_rule"` // rule id prefix that must report a violation
	Note     string `json:"note"`
	// behaviour-preserving variants (selftest/benign): the check must stay silent
	Func      string            `json:"func"`       // text that starts the function declaration, e.g. "func (t *Trie) delete("
	Rename    map[string]string `json:"rename"`     // local identifiers renamed inside that function
	SwapEq    bool              `json:"swap_eq"`    // mirror every comparison with simple operands (a < b becomes b > a)
	RenameAll bool              `json:"rename_all"` // rename every local variable, parameter and named result of the function(s) named in Funcs
	Funcs     []string          `json:"funcs"`      // function / method names (rename_all)
}

// selfValidationBudget: the mutants, seeds and benign variants are informational; on an overloaded machine they stop
// being launched once the run has used this much wall time (default 1500 s, VERIF_SELFTEST_BUDGET), and the rest is
// recorded as skipped. The verdict never depends on them.
func overBudget(c *Ctx) bool {
	b := 1500 * time.Second
	if v, err := strconv.Atoi(os.Getenv("VERIF_SELFTEST_BUDGET")); err == nil && v > 0 {
		b = time.Duration(v) * time.Second
	}
	return time.Since(c.start) > b
}

type mutantResult struct {
	ID      string `json:"id"`
	Expect  string `json:"expect_rule"`
	Outcome string `json:"outcome"` // killed | survived | skipped | wrong-rule
	Detail  string `json:"detail,omitempty"`
}

// loadOverlay reads {"<abs file>": "<replacement file path>"} (VERIF_OVERLAY).
func (c *Ctx) loadOverlay(path string) {
	b, err := os.ReadFile(path)
	if err != nil {
		fatalf("overlay: %v", err)
	}
	var m map[string]string
	if err := json.Unmarshal(b, &m); err != nil {
		fatalf("overlay: %v", err)
	}
	c.Overlay = map[string][]byte{}
	for k, v := range m {
		data, err := os.ReadFile(v)
		if err != nil {
			fatalf("overlay: %v", err)
		}
		c.Overlay[k] = data
	}
}

func loadMutants(root, prop string) []mutant {
	files, _ := filepath.Glob(filepath.Join(root, "selftest", "mutants", "*.json"))
	sort.Strings(files)
	var out []mutant
	for _, f := range files {
		b, err := os.ReadFile(f)
		if err != nil {
			continue
		}
		var ms []mutant
		if err := json.Unmarshal(b, &ms); err != nil {
			fmt.Fprintf(os.Stderr, "mutant file %s: %v\n", f, err)
			continue
		}
		for _, m := range ms {
			if m.Property == prop {
				out = append(out, m)
			}
		}
	}
	return out
}

func runMutants(c *Ctx) {
	ms := loadMutants(c.Root, c.Prop)
	if len(ms) == 0 {
		return
	}
	self, err := os.Executable()
	if err != nil {
		return
	}
	tmp, err := os.MkdirTemp("", "verif-mut-")
	if err != nil {
		return
	}
	defer os.RemoveAll(tmp)
	results := make([]mutantResult, len(ms))
	sem := make(chan struct{}, 6)
	var wg sync.WaitGroup
	for i, m := range ms {
		wg.Add(1)
		go func(i int, m mutant) {
			defer wg.Done()
			sem <- struct{}{}
			defer func() { <-sem }()
			if overBudget(c) {
				results[i] = mutantResult{ID: m.ID, Expect: m.Expect, Outcome: "skipped", Detail: "self-validation time budget used up"}
				return
			}
			results[i] = runOneMutant(c, self, tmp, m)
		}(i, m)
	}
	wg.Wait()
	killed := 0
	for _, r := range results {
		if r.Outcome == "killed" {
			killed++
		}
	}
	c.Extra["mutants"] = map[string]any{"total": len(ms), "killed": killed, "results": results,
		"note": "seeded source mutants applied through the go/packages overlay; outcome is informational and does not affect the verdict"}
	if !c.Quiet {
		fmt.Printf("%s self-validation: %d/%d seeded mutants reported by the expected rule\n", c.Prop, killed, len(ms))
		for _, r := range results {
			if r.Outcome != "killed" {
				fmt.Printf("   mutant %s: %s %s\n", r.ID, r.Outcome, r.Detail)
			}
		}
	}
}

// applyBenign rewrites src: renames identifiers inside one function and/or applies a search/replace.
func applyBenign(src string, m mutant) (string, string) {
	if m.RenameAll {
		out, err := renameAllLocals(src, m.Funcs)
		if err != nil {
			return "", err.Error()
		}
		src = out
	}
	if m.SwapEq {
		out, err := swapComparisons(src)
		if err != nil {
			return "", err.Error()
		}
		src = out
	}
	if m.Func != "" {
		a := strings.Index(src, m.Func)
		if a < 0 || strings.Count(src, m.Func) != 1 {
			return "", "function anchor not unique"
		}
		e := strings.Index(src[a:], "\n}\n")
		if e < 0 {
			return "", "function end not found"
		}
		body := src[a : a+e]
		keys := make([]string, 0, len(m.Rename))
		for k := range m.Rename {
			keys = append(keys, k)
		}
		sort.Strings(keys)
		for _, k := range keys {
			re := regexp.MustCompile(`(^|[^.\w])` + regexp.QuoteMeta(k) + `\b`)
			if !re.MatchString(body) {
				return "", "identifier " + k + " not found"
			}
			body = re.ReplaceAllString(body, "${1}"+m.Rename[k])
		}
		src = src[:a] + body + src[a+e:]
	}
	if m.Search != "" {
		if strings.Count(src, m.Search) != 1 {
			return "", "search string not unique"
		}
		src = strings.Replace(src, m.Search, m.Replace, 1)
	}
	return src, ""
}

// runBenign: behaviour-preserving source variants (renamed locals, reordered independent statements, extracted
// constants) on which the check must stay silent. Informational, like the mutants.
func runBenign(c *Ctx) {
	files, _ := filepath.Glob(filepath.Join(c.Root, "selftest", "benign", "*.json"))
	sort.Strings(files)
	var ms []mutant
	for _, f := range files {
		b, err := os.ReadFile(f)
		if err != nil {
			continue
		}
		var all []mutant
		if err := json.Unmarshal(b, &all); err != nil {
			fmt.Fprintf(os.Stderr, "benign file %s: %v\n", f, err)
			continue
		}
		for _, m := range all {
			if m.Property == c.Prop {
				ms = append(ms, m)
			}
		}
	}
	if len(ms) == 0 {
		return
	}
	self, err := os.Executable()
	if err != nil {
		return
	}
	tmp, err := os.MkdirTemp("", "verif-benign-")
	if err != nil {
		return
	}
	defer os.RemoveAll(tmp)
	results := make([]mutantResult, len(ms))
	sem := make(chan struct{}, 6)
	var wg sync.WaitGroup
	for i, m := range ms {
		wg.Add(1)
		go func(i int, m mutant) {
			defer wg.Done()
			sem <- struct{}{}
			defer func() { <-sem }()
			res := mutantResult{ID: m.ID}
			if overBudget(c) {
				res.Outcome, res.Detail = "skipped", "self-validation time budget used up"
				results[i] = res
				return
			}
			abs := filepath.Join(c.Repo, m.File)
			src, err := os.ReadFile(abs)
			if err != nil {
				res.Outcome, res.Detail = "skipped", "file missing"
				results[i] = res
				return
			}
			out, why := applyBenign(string(src), m)
			if why != "" {
				res.Outcome, res.Detail = "skipped", why
				results[i] = res
				return
			}
			mf := filepath.Join(tmp, m.ID+".go")
			os.WriteFile(mf, []byte(out), 0o644)
			ov := filepath.Join(tmp, m.ID+".overlay.json")
			ob, _ := json.Marshal(map[string]string{abs: mf})
			os.WriteFile(ov, ob, 0o644)
			cmd := exec.Command(self, c.Prop, "quick")
			cmd.Env = append(os.Environ(), "VERIF_OVERLAY="+ov, "VERIF_NO_EVIDENCE=1", "VERIF_NO_MUTANTS=1", "VERIF_REPLAY_DIR="+tmp)
			o, _ := cmd.CombinedOutput()
			if strings.Contains(string(o), "VIOLATION property=") {
				res.Outcome = "false-alarm"
				for _, l := range strings.Split(string(o), "\n") {
					t := strings.TrimSpace(l)
					if strings.HasPrefix(t, "VIOLATION C") || strings.HasPrefix(t, "UNDECIDED") {
						res.Detail = t
						break
					}
				}
			} else {
				res.Outcome = "silent"
			}
			results[i] = res
		}(i, m)
	}
	wg.Wait()
	silent := 0
	for _, r := range results {
		if r.Outcome == "silent" {
			silent++
		}
	}
	c.Extra["benign_variants"] = map[string]any{"total": len(ms), "silent": silent, "results": results,
		"note": "behaviour-preserving source variants (renamed locals etc.) applied through the overlay; the check must stay silent; informational"}
	if !c.Quiet {
		fmt.Printf("%s self-validation: silent on %d/%d behaviour-preserving variants\n", c.Prop, silent, len(ms))
		for _, r := range results {
			if r.Outcome != "silent" {
				fmt.Printf("   variant %s: %s %s\n", r.ID, r.Outcome, r.Detail)
			}
		}
	}
}

// runSeeds replays the confirmed seeded changes kept under /verif/seeded (each was demonstrated to break the property
// while compiling and passing the existing tests) through the overlay: the patch is applied to copies of the touched
// files with patch(1); /repo itself is never modified. Informational, like the mutants.
func runSeeds(c *Ctx) {
	dirs, _ := filepath.Glob(filepath.Join(c.Root, "seeded", c.Prop+"-s*"))
	sort.Strings(dirs)
	if len(dirs) == 0 {
		return
	}
	self, err := os.Executable()
	if err != nil {
		return
	}
	tmp, err := os.MkdirTemp("", "verif-seed-")
	if err != nil {
		return
	}
	defer os.RemoveAll(tmp)
	results := make([]mutantResult, len(dirs))
	sem := make(chan struct{}, 6)
	var wg sync.WaitGroup
	for i, d := range dirs {
		wg.Add(1)
		go func(i int, d string) {
			defer wg.Done()
			sem <- struct{}{}
			defer func() { <-sem }()
			res := mutantResult{ID: filepath.Base(d)}
			defer func() { results[i] = res }()
			if overBudget(c) {
				res.Outcome, res.Detail = "skipped", "self-validation time budget used up"
				return
			}
			diff, err := os.ReadFile(filepath.Join(d, "patch.diff"))
			if err != nil {
				res.Outcome, res.Detail = "skipped", "no patch.diff"
				return
			}
			work := filepath.Join(tmp, res.ID)
			var files []string
			for _, l := range strings.Split(string(diff), "\n") {
				if strings.HasPrefix(l, "+++ b/") {
					files = append(files, strings.TrimSpace(strings.TrimPrefix(l, "+++ b/")))
				}
			}
			for _, f := range files {
				src, err := os.ReadFile(filepath.Join(c.Repo, f))
				if err != nil {
					res.Outcome, res.Detail = "skipped", "file missing: "+f
					return
				}
				os.MkdirAll(filepath.Dir(filepath.Join(work, f)), 0o755)
				os.WriteFile(filepath.Join(work, f), src, 0o644)
			}
			cmd := exec.Command("patch", "-p1", "-s", "--no-backup-if-mismatch", "-d", work, "-i", filepath.Join(d, "patch.diff"))
			if out, err := cmd.CombinedOutput(); err != nil {
				res.Outcome, res.Detail = "skipped", "patch does not apply to the current tree: "+strings.TrimSpace(string(out))
				return
			}
			ovm := map[string]string{}
			for _, f := range files {
				ovm[filepath.Join(c.Repo, f)] = filepath.Join(work, f)
			}
			ov := filepath.Join(tmp, res.ID+".overlay.json")
			ob, _ := json.Marshal(ovm)
			os.WriteFile(ov, ob, 0o644)
			run := exec.Command(self, c.Prop, "quick")
			run.Env = append(os.Environ(), "VERIF_OVERLAY="+ov, "VERIF_NO_EVIDENCE=1", "VERIF_NO_MUTANTS=1", "VERIF_REPLAY_DIR="+tmp)
			o, _ := run.CombinedOutput()
			if strings.Contains(string(o), "VIOLATION property=") {
				res.Outcome = "reported"
				for _, l := range strings.Split(string(o), "\n") {
					t := strings.TrimSpace(l)
					if strings.HasPrefix(t, "VIOLATION C") || strings.HasPrefix(t, "UNDECIDED") {
						if k := strings.Index(t, ":"); k > 0 {
							res.Expect = strings.TrimPrefix(strings.TrimPrefix(t[:k], "VIOLATION "), "UNDECIDED ")
						}
						break
					}
				}
			} else {
				res.Outcome = "not-reported"
			}
		}(i, d)
	}
	wg.Wait()
	rep := 0
	for _, r := range results {
		if r.Outcome == "reported" {
			rep++
		}
	}
	c.Extra["seeded_changes"] = map[string]any{"total": len(dirs), "reported": rep, "results": results,
		"note": "breaking changes produced by independent sub-agents and confirmed by demonstration (seeded/<id>/), replayed through the overlay; informational"}
	if !c.Quiet {
		fmt.Printf("%s self-validation: %d/%d confirmed seeded breaking changes reported\n", c.Prop, rep, len(dirs))
		for _, r := range results {
			if r.Outcome != "reported" {
				fmt.Printf("   seed %s: %s %s\n", r.ID, r.Outcome, r.Detail)
			}
		}
	}
}

func runOneMutant(c *Ctx, self, tmp string, m mutant) mutantResult {
	res := mutantResult{ID: m.ID, Expect: m.Expect}
	abs := filepath.Join(c.Repo, m.File)
	src, err := os.ReadFile(abs)
	if err != nil {
		res.Outcome, res.Detail = "skipped", "file missing"
		return res
	}
	if n := strings.Count(string(src), m.Search); n != 1 {
		res.Outcome, res.Detail = "skipped", fmt.Sprintf("search string occurs %d times in the current tree", n)
		return res
	}
	mf := filepath.Join(tmp, m.ID+".go")
	os.WriteFile(mf, []byte(strings.Replace(string(src), m.Search, m.Replace, 1)), 0o644)
	ov := filepath.Join(tmp, m.ID+".overlay.json")
	ob, _ := json.Marshal(map[string]string{abs: mf})
	os.WriteFile(ov, ob, 0o644)
	cmd := exec.Command(self, c.Prop, "quick")
	cmd.Env = append(os.Environ(), "VERIF_OVERLAY="+ov, "VERIF_NO_EVIDENCE=1", "VERIF_NO_MUTANTS=1", "VERIF_REPLAY_DIR="+tmp)
	out, _ := cmd.CombinedOutput()
	s := string(out)
	if !strings.Contains(s, "VIOLATION property=") {
		res.Outcome = "survived"
		return res
	}
	if strings.Contains(s, "VIOLATION "+m.Expect) || strings.Contains(s, "UNDECIDED "+m.Expect) {
		res.Outcome = "killed"
		return res
	}
	res.Outcome = "wrong-rule"
	for _, l := range strings.Split(s, "\n") {
		if strings.HasPrefix(strings.TrimSpace(l), "VIOLATION C") || strings.HasPrefix(strings.TrimSpace(l), "UNDECIDED") {
			res.Detail = strings.TrimSpace(l)
			break
		}
	}
	return res
}

// renameAllLocals appends "_r" to every variable, parameter and named result declared inside the named functions
// (all functions of the file if names is empty). Uses the parser's own scope resolution, so only identifiers bound to
// a local object are touched; fields, methods, package-level names and labels are left alone.
func renameAllLocals(src string, names []string) (string, error) {
	fset := token.NewFileSet()
	file, err := parser.ParseFile(fset, "x.go", src, parser.ParseComments)
	if err != nil {
		return "", err
	}
	want := map[string]bool{}
	for _, n := range names {
		want[n] = true
	}
	type edit struct{ off int }
	var edits []int
	found := 0
	// identifiers used as keys of composite literals are ambiguous for the parser (field name or variable): a local
	// that shares its name with such a key is left alone
	ambiguous := map[*ast.Object]bool{}
	ast.Inspect(file, func(n ast.Node) bool {
		// fields of struct types declared inside functions are objects of kind Var too: not locals
		if st, ok := n.(*ast.StructType); ok && st.Fields != nil {
			for _, fld := range st.Fields.List {
				for _, nm := range fld.Names {
					if nm.Obj != nil {
						ambiguous[nm.Obj] = true
					}
				}
			}
		}
		if cl, ok := n.(*ast.CompositeLit); ok {
			for _, e := range cl.Elts {
				if kv, ok := e.(*ast.KeyValueExpr); ok {
					if id, ok := kv.Key.(*ast.Ident); ok && id.Obj != nil {
						ambiguous[id.Obj] = true
					}
				}
			}
		}
		return true
	})
	for _, d := range file.Decls {
		fd, ok := d.(*ast.FuncDecl)
		if !ok || fd.Body == nil || (len(want) > 0 && !want[fd.Name.Name]) {
			continue
		}
		found++
		ast.Inspect(fd, func(n ast.Node) bool {
			id, ok := n.(*ast.Ident)
			if !ok || id.Obj == nil || id.Obj.Kind != ast.Var || id.Name == "_" || ambiguous[id.Obj] {
				return true
			}
			dn, ok := id.Obj.Decl.(ast.Node)
			if !ok || dn.Pos() < fd.Pos() || dn.End() > fd.End() {
				return true
			}
			edits = append(edits, fset.Position(id.End()).Offset)
			return true
		})
	}
	if found == 0 {
		if len(names) == 0 {
			return src, nil // a file without function bodies: nothing to rename
		}
		return "", fmt.Errorf("no function matched %v", names)
	}
	sort.Sort(sort.Reverse(sort.IntSlice(edits)))
	b := []byte(src)
	last := -1
	for _, off := range edits {
		if off == last {
			continue
		}
		last = off
		b = append(b[:off], append([]byte("_r"), b[off:]...)...)
	}
	return string(b), nil
}

// swapComparisons mirrors every comparison whose operands are side-effect free (identifiers, selectors, literals,
// index expressions, len/cap calls): `a == b` becomes `b == a`, `a < b` becomes `b > a`. Behaviour is unchanged.
func swapComparisons(src string) (string, error) {
	fset := token.NewFileSet()
	file, err := parser.ParseFile(fset, "x.go", src, parser.ParseComments)
	if err != nil {
		return "", err
	}
	var simple func(e ast.Expr) bool
	simple = func(e ast.Expr) bool {
		switch x := e.(type) {
		case *ast.Ident, *ast.BasicLit:
			return true
		case *ast.SelectorExpr:
			return simple(x.X)
		case *ast.ParenExpr:
			return simple(x.X)
		case *ast.IndexExpr:
			return simple(x.X) && simple(x.Index)
		case *ast.StarExpr:
			return simple(x.X)
		case *ast.CallExpr:
			if id, ok := x.Fun.(*ast.Ident); ok && (id.Name == "len" || id.Name == "cap") && len(x.Args) == 1 {
				return simple(x.Args[0])
			}
		}
		return false
	}
	mirror := map[token.Token]token.Token{token.EQL: token.EQL, token.NEQ: token.NEQ, token.LSS: token.GTR, token.GTR: token.LSS, token.LEQ: token.GEQ, token.GEQ: token.LEQ}
	type edit struct {
		from, to int
		text     string
	}
	var edits []edit
	ast.Inspect(file, func(n ast.Node) bool {
		be, ok := n.(*ast.BinaryExpr)
		if !ok {
			return true
		}
		m, isCmp := mirror[be.Op]
		if !isCmp || !simple(be.X) || !simple(be.Y) {
			return true
		}
		// untyped constant on the left of a comparison with a typed operand is fine in Go; nil on the left too
		a, b := fset.Position(be.X.Pos()).Offset, fset.Position(be.X.End()).Offset
		c, d := fset.Position(be.Y.Pos()).Offset, fset.Position(be.Y.End()).Offset
		edits = append(edits, edit{a, d, src[c:d] + " " + m.String() + " " + src[a:b]})
		return false // do not descend: nested edits would overlap
	})
	sort.Slice(edits, func(i, j int) bool { return edits[i].from > edits[j].from })
	out := src
	for _, e := range edits {
		out = out[:e.from] + e.text + out[e.to:]
	}
	return out, nil
}
