package main

import (
	"encoding/json"
	"fmt"
	"os"
	"os/exec"
	"path/filepath"
	"sort"
	"strings"
	"sync"
)

// Checker self-validation ("both ways"): every rule has seeded mutants of /repo's source that must make it fire.
// Mutants are applied through go/packages' overlay (in memory); nothing is written into /repo. Their outcome is
// recorded in evidence and never influences the exit code.

type mutant struct {
	ID       string `json:"id"`
	Property string `json:"property"`
	File     string `json:"file"`    // repo-relative
	Search   string `json:"search"`  // must occur exactly once
	Replace  string `json:"replace"`
	Expect   string `json:"expect_rule"` // rule id prefix that must report a violation
	Note     string `json:"note"`
}

type mutantResult struct {
	ID      string `json:"id"`
	Expect  string `json:"expect_rule"`
	Outcome string `json:"outcome"` // killed | survived | skipped | wrong-rule
	Detail  string `json:"detail,omitempty"`
}

// loadOverlay reads {"<abs file>": "<replacement file path>"} (VERIF_OVERLAY).
func (c *Ctx) loadOverlay(path string) {
	b, err := os.ReadFile(path)
	if err != nil {
		fatalf("overlay: %v", err)
	}
	var m map[string]string
	if err := json.Unmarshal(b, &m); err != nil {
		fatalf("overlay: %v", err)
	}
	c.Overlay = map[string][]byte{}
	for k, v := range m {
		data, err := os.ReadFile(v)
		if err != nil {
			fatalf("overlay: %v", err)
		}
		c.Overlay[k] = data
	}
}

func loadMutants(root, prop string) []mutant {
	files, _ := filepath.Glob(filepath.Join(root, "selftest", "mutants", "*.json"))
	sort.Strings(files)
	var out []mutant
	for _, f := range files {
		b, err := os.ReadFile(f)
		if err != nil {
			continue
		}
		var ms []mutant
		if err := json.Unmarshal(b, &ms); err != nil {
			fmt.Fprintf(os.Stderr, "mutant file %s: %v\n", f, err)
			continue
		}
		for _, m := range ms {
			if m.Property == prop {
				out = append(out, m)
			}
		}
	}
	return out
}

func runMutants(c *Ctx) {
	ms := loadMutants(c.Root, c.Prop)
	if len(ms) == 0 {
		return
	}
	self, err := os.Executable()
	if err != nil {
		return
	}
	tmp, err := os.MkdirTemp("", "verif-mut-")
	if err != nil {
		return
	}
	defer os.RemoveAll(tmp)
	results := make([]mutantResult, len(ms))
	sem := make(chan struct{}, 6)
	var wg sync.WaitGroup
	for i, m := range ms {
		wg.Add(1)
		go func(i int, m mutant) {
			defer wg.Done()
			sem <- struct{}{}
			defer func() { <-sem }()
			results[i] = runOneMutant(c, self, tmp, m)
		}(i, m)
	}
	wg.Wait()
	killed := 0
	for _, r := range results {
		if r.Outcome == "killed" {
			killed++
		}
	}
	c.Extra["mutants"] = map[string]any{"total": len(ms), "killed": killed, "results": results,
		"note": "seeded source mutants applied through the go/packages overlay; outcome is informational and does not affect the verdict"}
	if !c.Quiet {
		fmt.Printf("%s self-validation: %d/%d seeded mutants reported by the expected rule\n", c.Prop, killed, len(ms))
		for _, r := range results {
			if r.Outcome != "killed" {
				fmt.Printf("   mutant %s: %s %s\n", r.ID, r.Outcome, r.Detail)
			}
		}
	}
}

func runOneMutant(c *Ctx, self, tmp string, m mutant) mutantResult {
	res := mutantResult{ID: m.ID, Expect: m.Expect}
	abs := filepath.Join(c.Repo, m.File)
	src, err := os.ReadFile(abs)
	if err != nil {
		res.Outcome, res.Detail = "skipped", "file missing"
		return res
	}
	if n := strings.Count(string(src), m.Search); n != 1 {
		res.Outcome, res.Detail = "skipped", fmt.Sprintf("search string occurs %d times in the current tree", n)
		return res
	}
	mf := filepath.Join(tmp, m.ID+".go")
	os.WriteFile(mf, []byte(strings.Replace(string(src), m.Search, m.Replace, 1)), 0o644)
	ov := filepath.Join(tmp, m.ID+".overlay.json")
	ob, _ := json.Marshal(map[string]string{abs: mf})
	os.WriteFile(ov, ob, 0o644)
	cmd := exec.Command(self, c.Prop, "quick")
	cmd.Env = append(os.Environ(), "VERIF_OVERLAY="+ov, "VERIF_NO_EVIDENCE=1", "VERIF_NO_MUTANTS=1", "VERIF_REPLAY_DIR="+tmp)
	out, _ := cmd.CombinedOutput()
	s := string(out)
	if !strings.Contains(s, "VIOLATION property=") {
		res.Outcome = "survived"
		return res
	}
	if strings.Contains(s, "VIOLATION "+m.Expect) || strings.Contains(s, "UNDECIDED "+m.Expect) {
		res.Outcome = "killed"
		return res
	}
	res.Outcome = "wrong-rule"
	for _, l := range strings.Split(s, "\n") {
		if strings.HasPrefix(strings.TrimSpace(l), "VIOLATION C") || strings.HasPrefix(strings.TrimSpace(l), "UNDECIDED") {
			res.Detail = strings.TrimSpace(l)
			break
		}
	}
	return res
}
