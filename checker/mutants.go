package main

import (
	"encoding/json"
	"os"
)

// loadOverlay reads {"<abs file>": "<replacement file path>"} (VERIF_OVERLAY) for checker self-validation.
func (c *Ctx) loadOverlay(path string) {
	b, err := os.ReadFile(path)
	if err != nil {
		fatalf("overlay: %v", err)
	}
	var m map[string]string
	if err := json.Unmarshal(b, &m); err != nil {
		fatalf("overlay: %v", err)
	}
	c.Overlay = map[string][]byte{}
	for k, v := range m {
		data, err := os.ReadFile(v)
		if err != nil {
			fatalf("overlay: %v", err)
		}
		c.Overlay[k] = data
	}
}

func runMutants(c *Ctx) {}
