// Name-independence helpers: rules must not depend on how a local variable is spelled.  Variables are identified by
// structure instead: by the values that flow into them (phi leaves), by the accumulator class they belong to
// (phi edges + append chains), by their type, or by the role they play at an anchored call site.
package main

import (
	"regexp"
	"strings"

	"golang.org/x/tools/go/ssa"
)

// PH matches a rendered phi token whatever the source variable is called.
const PH = `phi:\w+(~\d+)?`

var phTok = regexp.MustCompile(`^phi:\w+(~\d+)?`)

// phiTok returns the leading phi token of a rendered term ("" if the term does not start with one).
func phiTok(term string) string { return phTok.FindString(term) }

// valueClasses unions every phi with its incoming values and every append call with its first argument: the
// classes are the "accumulator variables" of the function, independent of their names.
type valueClasses struct{ parent map[ssa.Value]ssa.Value }

func newValueClasses(fn *ssa.Function) *valueClasses {
	vc := &valueClasses{parent: map[ssa.Value]ssa.Value{}}
	for _, b := range fn.Blocks {
		for _, ins := range b.Instrs {
			switch x := ins.(type) {
			case *ssa.Phi:
				for _, e := range x.Edges {
					if k, ok := e.(*ssa.Const); ok && k.Value == nil {
						continue
					}
					vc.union(x, e)
				}
			case *ssa.Call:
				if bi, ok := x.Call.Value.(*ssa.Builtin); ok && bi.Name() == "append" && len(x.Call.Args) > 0 {
					vc.union(x, x.Call.Args[0])
				}
			}
		}
	}
	return vc
}

func (vc *valueClasses) find(v ssa.Value) ssa.Value {
	for {
		p, ok := vc.parent[v]
		if !ok || p == v {
			return v
		}
		v = p
	}
}

func (vc *valueClasses) union(a, b ssa.Value) {
	ra, rb := vc.find(a), vc.find(b)
	if ra != rb {
		vc.parent[ra] = rb
	}
}

func (vc *valueClasses) same(a, b ssa.Value) bool { return vc.find(a) == vc.find(b) }

// phiLeaves: the non-phi values that can flow into v through phi edges (v itself if it is not a phi).
func phiLeaves(v ssa.Value) []ssa.Value {
	seen := map[ssa.Value]bool{}
	var out []ssa.Value
	var walk func(ssa.Value)
	walk = func(x ssa.Value) {
		if seen[x] {
			return
		}
		seen[x] = true
		if p, ok := x.(*ssa.Phi); ok {
			for _, e := range p.Edges {
				walk(e)
			}
			return
		}
		// type conversions between a named slice/integer type and its underlying type do not change the value
		if ct, ok := x.(*ssa.ChangeType); ok {
			walk(ct.X)
			return
		}
		out = append(out, x)
	}
	walk(v)
	return out
}

// rootParam: the parameter among the phi leaves of v (a loop variable initialised from a parameter), or nil.
func rootParam(v ssa.Value) *ssa.Parameter {
	var par *ssa.Parameter
	for _, l := range phiLeaves(v) {
		if p, ok := l.(*ssa.Parameter); ok {
			if par != nil && par != p {
				return nil
			}
			par = p
		}
	}
	return par
}

// paramIndex of p in its function (receiver included), -1 if nil.
func paramIndex(p *ssa.Parameter) int {
	if p == nil {
		return -1
	}
	for i, q := range p.Parent().Params {
		if q == p {
			return i
		}
	}
	return -1
}

// stripConvAll removes conversions / slices-to-variadic / loads that are transparent for value identity.
func stripConvAll(v ssa.Value) ssa.Value {
	for i := 0; i < 6; i++ {
		switch x := v.(type) {
		case *ssa.ChangeType:
			v = x.X
		case *ssa.Convert:
			v = x.X
		case *ssa.MakeInterface:
			v = x.X
		default:
			return v
		}
	}
	return v
}

// methodRecv: v is a call of method `name` (static or invoke); returns the receiver value.
func methodRecv(v ssa.Value, name string) ssa.Value {
	c, ok := stripConvAll(v).(*ssa.Call)
	if !ok {
		return nil
	}
	if c.Call.IsInvoke() {
		if c.Call.Method.Name() == name {
			return c.Call.Value
		}
		return nil
	}
	if f := c.Call.StaticCallee(); f != nil && f.Name() == name && f.Signature.Recv() != nil && len(c.Call.Args) > 0 {
		return c.Call.Args[0]
	}
	return nil
}

// indexBase: v is a load of X[i] (slice/array element); returns X and i.
func indexBase(v ssa.Value) (ssa.Value, ssa.Value) {
	if u, ok := v.(*ssa.UnOp); ok {
		if ia, ok := u.X.(*ssa.IndexAddr); ok {
			return ia.X, ia.Index
		}
	}
	if ix, ok := v.(*ssa.Index); ok {
		return ix.X, ix.Index
	}
	return nil, nil
}

// anyName rewrites a regular expression written with concrete phi names into its name-independent form.
func anyName(re string) string {
	return regexp.MustCompile(`phi:[A-Za-z_]\w*(\(~\\d\+\)\?)?`).ReplaceAllStringFunc(re, func(m string) string {
		if strings.HasPrefix(m, "phi:rangeindex") {
			return m // synthesised by go/ssa for range loops, not a source name
		}
		return PH
	})
}

// phiByLeaves: the last phi of fn (highest block) whose leaves all render to a term accepted by pred: a variable is
// identified by the set of values it can take, not by its name.
func phiByLeaves(c *Ctx, fn *ssa.Function, pred func(term string) bool) *ssa.Phi {
	var best *ssa.Phi
	for _, b := range fn.Blocks {
		for _, ins := range b.Instrs {
			p, ok := ins.(*ssa.Phi)
			if !ok {
				continue
			}
			leaves := phiLeaves(p)
			okAll := len(leaves) > 0
			for _, l := range leaves {
				if !pred(c.termOf(fn, l)) {
					okAll = false
				}
			}
			if okAll && (best == nil || p.Block().Index > best.Block().Index) {
				best = p
			}
		}
	}
	return best
}
