// Engine `maprange`: order-independence of `range` loops over maps (Go randomises map iteration order, so any
// effect that depends on the visiting order would make consensus results non-deterministic).
package main

import (
	"fmt"
	"regexp"
	"strings"

	"golang.org/x/tools/go/ssa"
)

// callees whose effect is keyed by their arguments or commutative (frozen, repository specific)
var mapRangeSinks = regexp.MustCompile(`^(delete|len|cap|copy|` +
	`Trie\.(TryUpdate|TryDelete|TryGet|Hash)|SecureTrie\.(TryUpdate|TryDelete|Hash|Commit)|` +
	`Database\.(insert|Insert|insertPreimage|InsertPreimage|reference|Reference|dereference|Dereference|commit|uncache|Node|TrieDB|secureKey|Get|Has)|` +
	`Batch\.(Put|ValueSize|Write|Reset)|Putter\.Put|` +
	`StateDB\.(updateStateObject|deleteStateObject|getStateObject|setStateObject|MarkStateObjectDirty|setError|AddBalance|SetBalance|SetCode|SetNonce|SetState)|` +
	`stateObject\.(updateRoot|CommitTrie|updateTrie|deepCopy|empty|setError|Address|CodeHash|Code|getTrie)|` +
	`Storage\.Copy|cachingDB\.(TrieDB|CopyTrie)|Database\.(CopyTrie|TrieDB)|` +
	`log\.\w+|fmt\.Sprintf|common\.\w+|Hash\.\w+|Address\.\w+|big\.NewInt|Int\.(Set|SetBytes|Cmp|Sign)|bytes\.\w+|rlp\.EncodeToBytes|crypto\.Keccak256(Hash)?|` +
	`core\.WritePreimages|preimageCounter\.Inc|preimageHitCounter\.Inc|Counter\.Inc|Meter\.Mark|time\.\w+|Time\.\w+|` +
	`make|new|append:sorted)$`)

// MapRangeRule checks every range-over-map loop of fn. Returns the number of loops examined.
func (c *Ctx) MapRangeRule(rule string, fn *ssa.Function) int {
	n := 0
	tr := newTermRenderer(fn)
	for _, b := range fn.Blocks {
		for _, ins := range b.Instrs {
			rg, ok := ins.(*ssa.Range)
			if !ok {
				continue
			}
			if _, isMap := rg.X.Type().Underlying().(interface{ Key() interface{} }); isMap {
				_ = isMap
			}
			if !strings.HasPrefix(rg.X.Type().Underlying().String(), "map[") {
				continue
			}
			n++
			// loop blocks: the block holding `next` and everything it dominates that can reach it again
			var head *ssa.BasicBlock
			if rg.Referrers() != nil {
				for _, r := range *rg.Referrers() {
					if nx, ok := r.(*ssa.Next); ok {
						head = nx.Block()
					}
				}
			}
			if head == nil {
				continue
			}
			var problems []string
			appended := map[string]ssa.Instruction{}
			for _, lb := range fn.Blocks {
				if lb == head || !head.Dominates(lb) || !reaches(lb, head, nil) {
					continue
				}
				for _, li := range lb.Instrs {
					switch x := li.(type) {
					case *ssa.Call:
						name := calleeName(&x.Call)
						if name == "" {
							name = "dyn:" + tr.term(nil, x.Call.Value, 0)
						}
						if name == "append" {
							appended[tr.term(nil, x.Call.Args[0], 0)] = x
							continue
						}
						if !mapRangeSinks.MatchString(name) {
							problems = append(problems, fmt.Sprintf("call %s at %s is not a known keyed/commutative sink", name, c.Position(x.Pos())))
						}
					case *ssa.Go, *ssa.Send:
						problems = append(problems, fmt.Sprintf("order-leaking effect %T at %s", li, c.Position(li.Pos())))
					case *ssa.Return:
						// returning an error aborts the whole operation (allowed); returning data out of the loop leaks order
						for _, r := range x.Results {
							if k, ok := r.(*ssa.Const); ok && (k.Value == nil || k.IsNil()) {
								continue
							}
							if isErrorType(r.Type()) {
								continue
							}
							if _, ok := r.(*ssa.Const); ok {
								continue
							}
							problems = append(problems, "return of a loop-dependent value at "+c.Position(x.Pos()))
						}
					case *ssa.Store:
						// stores into map elements come as MapUpdate; plain stores to outer memory of loop-derived values leak order
						if _, isAlloc := x.Addr.(*ssa.Alloc); isAlloc {
							continue
						}
						if fa, ok := x.Addr.(*ssa.FieldAddr); ok {
							// assignment of a field of the *element* (value pointer obtained from the loop) is keyed
							base := tr.term(nil, fa.X, 0)
							if strings.Contains(base, "next(") || strings.Contains(base, "[") {
								continue
							}
							// scalar accumulation x = x + v is commutative
							if bo, ok := x.Val.(*ssa.BinOp); ok && (bo.Op.String() == "+" || bo.Op.String() == "|") {
								continue
							}
							if _, isConst := x.Val.(*ssa.Const); isConst {
								continue
							}
							problems = append(problems, fmt.Sprintf("store of a loop-dependent value into %s at %s", tr.term(nil, x.Addr, 0), c.Position(x.Pos())))
						}
					}
				}
			}
			for target, at := range appended {
				// an appended slice must be sorted before the function uses it otherwise
				sorted := false
				for _, cs := range callSites(fn, `^sort\.`) {
					if len(cs.Common().Args) > 0 && strings.Contains(tr.term(nil, cs.Common().Args[0], 0), strings.TrimPrefix(target, "phi:")) {
						sorted = true
					}
				}
				if !sorted {
					problems = append(problems, fmt.Sprintf("append to %s at %s without a later sort (iteration order leaks into the slice)", target, c.Position(at.Pos())))
				}
			}
			c.Ob(rule, fmt.Sprintf("%s: range over map %s is order-insensitive", shortFn(fn), tr.term(nil, rg.X, 0)), c.Position(rg.Pos()), len(problems) == 0, strings.Join(problems, "; "))
		}
	}
	return n
}
