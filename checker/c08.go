package main

import (
	"go/token"
	"fmt"
	"go/constant"
	"go/types"
	"regexp"
	"sort"
	"strings"

	"golang.org/x/tools/go/ssa"
)

// C08 EVM instructions compute what the specification defines.

func init() { register("C08", []string{"./..."}, runC08) }

func runC08(c *Ctx) {
	c.Explanation = "Table and sibling-agreement rules for core/vm against a specification table embedded in the checker (Yellow Paper appendix H, EIP-7/140/145/211/214): the set of valid opcodes of every instruction set is exactly the fork's set; every entry's declared stack arity equals (delta, alpha), its constant gas equals the specification tier, its flags equal the specification's; protocol constants have their specified values; results pushed by execute functions that derive from range-escaping big.Int operations pass through math.U256; comparison-only boundary branches (shift>=256, byte index, sign-extend index, zero divisor, block-hash window, jump validity) carry the specification's guard literal; no value is both pushed and returned to the integer pool, and no peeked value is pooled. Decides table/shape conformance for every opcode and path; the numeric results of big.Int arithmetic and the dynamic gas formulas are not evaluated."
	c.NotDecided = []string{"numeric results of arithmetic opcodes over 2^256 operands", "dynamic gas formulas beyond their constants and overflow discipline (C07)"}
	c.Trusted = append(c.Trusted, "embedded EVM specification table (opcode -> delta, alpha, constant gas, flags, first fork) and protocol constant list")
	c.Assumptions = []string{"math/big implements integer arithmetic correctly"}
	tabs := c.extractVMTables()

	c.Rule("C08-R1", "valid opcode set per fork; opcode name tables complete; interpreter selects the set by fork in order", func() {
		for _, set := range tabs.order {
			fork, ok := evmSetFork[set]
			if !ok {
				c.Ob("C08-R1", "instruction set "+set+" is known to the fork schedule", "", false, "unknown constructor")
				continue
			}
			tab := tabs.sets[set]
			var missing, extra []string
			for op, sp := range evmSpec {
				e, has := tab[op]
				if sp.fork <= fork && (!has || !e.flags["valid"]) {
					missing = append(missing, op)
				}
				if sp.fork > fork && has && e.flags["valid"] {
					extra = append(extra, op)
				}
			}
			for op, e := range tab {
				if _, ok := evmSpec[op]; !ok && e.flags["valid"] {
					extra = append(extra, op)
				}
			}
			sort.Strings(missing)
			sort.Strings(extra)
			c.Ob("C08-R1", set+": valid opcodes are exactly the fork's set", c.Position(c.Fn("core/vm:"+set).Pos()), len(missing) == 0 && len(extra) == 0,
				fmt.Sprintf("%d entries; missing %v; not in specification for this fork %v", len(tab), missing, extra))
		}
		c.Ob("C08-R1", "five instruction sets found", "", len(tabs.order) == 5, strings.Join(tabs.order, ", "))
		// opcode numeric values
		p := c.Pkg("core/vm")
		want := map[string]int64{"STOP": 0, "ADD": 1, "MUL": 2, "SUB": 3, "DIV": 4, "SDIV": 5, "MOD": 6, "SMOD": 7, "ADDMOD": 8, "MULMOD": 9, "EXP": 0x0a, "SIGNEXTEND": 0x0b,
			"LT": 0x10, "GT": 0x11, "SLT": 0x12, "SGT": 0x13, "EQ": 0x14, "ISZERO": 0x15, "AND": 0x16, "OR": 0x17, "XOR": 0x18, "NOT": 0x19, "BYTE": 0x1a, "SHL": 0x1b, "SHR": 0x1c, "SAR": 0x1d,
			"SHA3": 0x20, "ADDRESS": 0x30, "BALANCE": 0x31, "ORIGIN": 0x32, "CALLER": 0x33, "CALLVALUE": 0x34, "CALLDATALOAD": 0x35, "CALLDATASIZE": 0x36, "CALLDATACOPY": 0x37,
			"CODESIZE": 0x38, "CODECOPY": 0x39, "GASPRICE": 0x3a, "EXTCODESIZE": 0x3b, "EXTCODECOPY": 0x3c, "RETURNDATASIZE": 0x3d, "RETURNDATACOPY": 0x3e,
			"BLOCKHASH": 0x40, "COINBASE": 0x41, "TIMESTAMP": 0x42, "NUMBER": 0x43, "DIFFICULTY": 0x44, "GASLIMIT": 0x45,
			"POP": 0x50, "MLOAD": 0x51, "MSTORE": 0x52, "MSTORE8": 0x53, "SLOAD": 0x54, "SSTORE": 0x55, "JUMP": 0x56, "JUMPI": 0x57, "PC": 0x58, "MSIZE": 0x59, "GAS": 0x5a, "JUMPDEST": 0x5b,
			"PUSH1": 0x60, "PUSH32": 0x7f, "DUP1": 0x80, "DUP16": 0x8f, "SWAP1": 0x90, "SWAP16": 0x9f, "LOG0": 0xa0, "LOG4": 0xa4,
			"CREATE": 0xf0, "CALL": 0xf1, "CALLCODE": 0xf2, "RETURN": 0xf3, "DELEGATECALL": 0xf4, "STATICCALL": 0xfa, "REVERT": 0xfd, "SELFDESTRUCT": 0xff}
		bad := []string{}
		for n, v := range want {
			k, ok := p.Types.Scope().Lookup(n).(*types.Const)
			if !ok {
				bad = append(bad, n+" missing")
				continue
			}
			if got, _ := constant.Int64Val(k.Val()); got != v {
				bad = append(bad, fmt.Sprintf("%s=%#x want %#x", n, got, v))
			}
		}
		sort.Strings(bad)
		c.Ob("C08-R1", "opcode byte values equal the specification", "", len(bad) == 0, strings.Join(bad, "; "))
		// NewInterpreter: selection order
		ni := c.Fn("core/vm:NewInterpreter")
		f := c.Facts(ni)
		sel := map[string]string{}
		for _, b := range ni.Blocks {
			for _, ins := range b.Instrs {
				st, ok := ins.(*ssa.Store)
				if !ok {
					continue
				}
				if fa, ok := st.Addr.(*ssa.FieldAddr); !ok || fieldName(fa) != "JumpTable" {
					continue
				}
				val := f.tr.term(nil, st.Val, 0)
				for _, s := range f.At(st) {
					sel[val] = strings.Join(guardLits(s), "; ")
				}
			}
		}
		cfg := `EVM#0.ChainConfig()`
		expect := []struct{ set, must string }{
			{"vm.springInstructionSet", cfg + ".IsHF(5, EVM#0.Context.BlockNumber)"},
			{"vm.constantinopleInstructionSet", "!" + cfg + ".IsHF(5, EVM#0.Context.BlockNumber); " + cfg + ".IsConstantinople(EVM#0.Context.BlockNumber)"},
			{"vm.byzantiumInstructionSet", "!" + cfg + ".IsConstantinople(EVM#0.Context.BlockNumber); " + cfg + ".IsByzantium(EVM#0.Context.BlockNumber)"},
			{"vm.homesteadInstructionSet", "!" + cfg + ".IsByzantium(EVM#0.Context.BlockNumber); " + cfg + ".IsHomestead(EVM#0.Context.BlockNumber)"},
			{"vm.frontierInstructionSet", "!" + cfg + ".IsHomestead(EVM#0.Context.BlockNumber)"},
		}
		for _, e := range expect {
			got, ok := sel[e.set]
			good := ok
			for _, m := range strings.Split(e.must, "; ") {
				if !strings.Contains("; "+got+";", "; "+m+";") {
					good = false
				}
			}
			c.Ob("C08-R1", "NewInterpreter selects "+e.set+" under "+e.must, c.FnPos(ni), good, "path literals: "+got)
		}
		// package-level sets are built by their constructors
		for v, ctor := range map[string]string{"frontierInstructionSet": "NewFrontierInstructionSet", "homesteadInstructionSet": "NewHomesteadInstructionSet",
			"byzantiumInstructionSet": "NewByzantiumInstructionSet", "constantinopleInstructionSet": "NewConstantinopleInstructionSet", "springInstructionSet": "NewSpringInstructionSet"} {
			init := c18InitCall(c, "core/vm", v)
			c.Ob("C08-R1", "vm."+v+" = "+ctor+"()", c.Position(c.Global("core/vm:"+v).Pos()), init == ctor+"()", "initialiser: "+init)
			c.GlobalNeverReassigned("C08-R1", "core/vm:"+v)
		}
		// name tables
		c08NameTables(c)
	})
	c.Min("C08-R1", 20)

	c.Rule("C08-R2", "declared arity (pop, push), constant gas and flags of every entry equal the specification", func() {
		done := map[string]bool{}
		for _, set := range tabs.order {
			for op, e := range tabs.own[set] {
				key := set + "/" + op
				if done[key] {
					continue
				}
				done[key] = true
				sp, ok := evmSpec[op]
				if !ok {
					continue // reported by R1
				}
				pop, push, okpp := e.popPush()
				c.Ob("C08-R2", fmt.Sprintf("%s[%s] arity", set, op), c.Position(e.pos), okpp && pop == sp.pop && push == sp.push,
					fmt.Sprintf("declared %s%v => pop %d push %d; specification delta=%d alpha=%d", e.vsName, e.vsArgs, pop, push, sp.pop, sp.push))
				g, isConst, how := c.vmConstGas(e)
				switch {
				case sp.gas >= 0:
					c.Ob("C08-R2", fmt.Sprintf("%s[%s] constant gas", set, op), c.Position(e.pos), isConst && g == sp.gas,
						fmt.Sprintf("gasCost %s%v (%s) = %d const=%v; specification %d", e.gasName, e.gasArgs, how, g, isConst, sp.gas))
				default:
					c.Ob("C08-R2", fmt.Sprintf("%s[%s] dynamic gas", set, op), c.Position(e.pos), !isConst && e.gasName != "",
						fmt.Sprintf("gasCost %s%v (%s); specification: dynamic", e.gasName, e.gasArgs, how))
				}
				var fl []string
				for _, k := range []string{"halts", "jumps", "writes", "reverts", "returns"} {
					if e.flags[k] {
						fl = append(fl, k)
					}
				}
				want := strings.Fields(sp.flags)
				sort.Strings(fl)
				sort.Strings(want)
				c.Ob("C08-R2", fmt.Sprintf("%s[%s] flags", set, op), c.Position(e.pos), strings.Join(fl, " ") == strings.Join(want, " "),
					fmt.Sprintf("declared {%s}; specification {%s}", strings.Join(fl, " "), strings.Join(want, " ")))
			}
		}
	})
	c.Min("C08-R2", 400)

	c.Rule("C08-R3", "protocol constants by value", func() {
		for spec, want := range map[string]string{
			"params:Sha3Gas": "30", "params:Sha3WordGas": "6", "params:CopyGas": "3", "params:MemoryGas": "3", "params:QuadCoeffDiv": "512",
			"params:LogGas": "375", "params:LogTopicGas": "375", "params:LogDataGas": "8", "params:SstoreSetGas": "20000", "params:SstoreResetGas": "5000",
			"params:SstoreClearGas": "5000", "params:SstoreRefundGas": "15000", "params:ExpGas": "10", "params:ExpByteGas": "10", "params:CreateGas": "32000", "params:CreateDataGas": "200",
			"params:CallValueTransferGas": "9000", "params:CallNewAccountGas": "25000", "params:CallStipend": "2300", "params:SuicideRefundGas": "24000",
			"params:JumpdestGas": "1", "params:CallCreateDepth": "1024", "params:StackLimit": "1024", "params:MaxCodeSize": "24576",
			"params:EcrecoverGas": "3000", "params:Sha256BaseGas": "60", "params:Sha256PerWordGas": "12", "params:Ripemd160BaseGas": "600", "params:Ripemd160PerWordGas": "120",
			"params:IdentityBaseGas": "15", "params:IdentityPerWordGas": "3", "params:ModExpQuadCoeffDiv": "20", "params:Bn256AddGas": "500", "params:Bn256ScalarMulGas": "40000",
			"params:Bn256PairingBaseGas": "100000", "params:Bn256PairingPerPointGas": "80000",
			"core/vm:GasQuickStep": "2", "core/vm:GasFastestStep": "3", "core/vm:GasFastStep": "5", "core/vm:GasMidStep": "8", "core/vm:GasSlowStep": "10", "core/vm:GasExtStep": "20",
		} {
			c.ConstIs("C08-R3", spec, want)
		}
		c08GasTables(c)
	})
	c.Min("C08-R3", 44)

	execFns := c08ExecFunctions(c, tabs)

	c.Rule("C08-R4", "every pushed result that derives from a range-escaping big.Int operation passes through math.U256", func() {
		n := 0
		for _, fn := range execFns {
			n += c08U256Rule(c, fn)
		}
		c.Extra["push_sites_examined"] = n
		// math.Exp and math.U256 themselves
		ex := c.Fn("common/math:Exp")
		for _, b := range ex.Blocks {
			for _, ins := range b.Instrs {
				if name, call := bigMethod(valueOf(ins)); call != nil && name == "Mul" {
					wrapped := false
					if call.Referrers() != nil {
						for _, r := range *call.Referrers() {
							if rc, ok := r.(*ssa.Call); ok {
								if f := rc.Call.StaticCallee(); f != nil && f.Name() == "U256" {
									wrapped = true
								}
							}
						}
					}
					c.Ob("C08-R4", "math.Exp: every multiplication is reduced by U256", c.Position(call.Pos()), wrapped, "")
				}
			}
		}
		// math.Exp is a binary square-and-multiply over the words of the exponent. The structure that makes it compute
		// base^exponent: every bit position of every word is visited (a counting loop 0..wordBits-1 with no other
		// exit), the base is squared on every visit, multiplied into the result exactly when the current low bit is
		// set, and the word is shifted right by one per visit. (This pins the present algorithm: a rewrite with a
		// different algorithm has to update this rule.)
		fex := c.Facts(ex)
		var sq, mulRes ssa.CallInstruction
		for _, cs := range callSites(ex, `^Int\.Mul$`) {
			a := cs.Common().Args
			t0, t1, t2 := fex.tr.term(nil, a[0], 0), fex.tr.term(nil, a[1], 0), fex.tr.term(nil, a[2], 0)
			if t0 == "Int#0" && t1 == "Int#0" && t2 == "Int#0" {
				sq = cs
			} else if t0 == t1 && t2 == "Int#0" && strings.HasPrefix(t0, "big.NewInt(1)") {
				mulRes = cs
			}
		}
		okShape, dShape := sq != nil && mulRes != nil, "squaring base.Mul(base, base) and result.Mul(result, base) found"
		if okShape {
			// the loop counter: the phi compared with the word size in the header of the innermost loop around the squaring
			var head *ssa.BasicBlock
			for _, b := range ex.Blocks {
				if iff, ok := b.Instrs[len(b.Instrs)-1].(*ssa.If); ok && b.Dominates(sq.Block()) && b != sq.Block() {
					if bo, ok := iff.Cond.(*ssa.BinOp); ok {
						_, xPhi := bo.X.(*ssa.Phi)
						_, yPhi := bo.Y.(*ssa.Phi)
						if bo.Op == token.LSS && xPhi || bo.Op == token.GTR && yPhi { // i < n, or n > i
							head = b
						}
					}
				}
			}
			if head == nil {
				okShape, dShape = false, "no counting loop `i < wordBits` around the squaring"
			} else {
				bo := head.Instrs[len(head.Instrs)-1].(*ssa.If).Cond.(*ssa.BinOp)
				cntV, limV := bo.X, bo.Y
				if bo.Op == token.GTR {
					cntV, limV = bo.Y, bo.X
				}
				cnt := cntV.(*ssa.Phi)
				lim, isC := constInt(limV)
				init, step, okl := phiInitStepOf(c, ex, cnt)
				self := fex.tr.term(nil, cnt, 0)
				okCount := isC && (lim == 64 || lim == 32) && okl && init == "0" && step == "("+self+" + 1)"
				// no exit from the loop body other than the header's own: every block dominated by the header's body
				// successor and reaching the back edge has all successors inside the loop
				body := head.Succs[0]
				okNoBreak := true
				for _, b := range ex.Blocks {
					if b != head && body.Dominates(b) {
						for _, su := range b.Succs {
							if su != head && !body.Dominates(su) {
								okNoBreak = false
							}
						}
					}
				}
				// squaring on every iteration; multiply only under (word & 1) == 1; word shifted every iteration
				back := fex.LoopBackStates(`^Int\.Mul$`)
				okSq := len(back) > 0
				for _, stt := range back {
					if !stt.lits["called:Int#0.Mul(Int#0, Int#0)"] {
						okSq = false
					}
				}
				okBit, wBit := allHave(fex.At(mulRes), mustRe(`^\(`+PH+` & 1\) == 1$`))
				okShift := false
				for _, b := range ex.Blocks {
					for _, ins := range b.Instrs {
						if p, ok := ins.(*ssa.Phi); ok && p.Block() == head && p != cnt {
							if _, stp, ok2 := phiInitStepOf(c, ex, p); ok2 && stp == "("+fex.tr.term(nil, p, 0)+" >> 1)" {
								okShift = true
							}
						}
					}
				}
				okShape = okCount && okNoBreak && okSq && okBit && okShift
				dShape = fmt.Sprintf("counter 0..%d step +1: %v; no early exit: %v; squaring on every iteration: %v; multiply iff low bit set: %v (%s); word >>= 1: %v", lim, okCount, okNoBreak, okSq, okBit, wBit, okShift)
			}
		}
		c.Ob("C08-R4", "math.Exp visits every bit position of every exponent word: square always, multiply iff the bit is set, shift by one", c.FnPos(ex), okShape, dShape)
		u := c.Fn("common/math:U256")
		okU := false
		for _, b := range u.Blocks {
			for _, ins := range b.Instrs {
				if name, call := bigMethod(valueOf(ins)); call != nil && name == "And" {
					t := c.termOf(u, call.Call.Args[2])
					okU = t == "math.tt256m1"
				}
			}
		}
		c.Ob("C08-R4", "math.U256 masks with 2^256-1", c.FnPos(u), okU, "")
		v, how := c.GlobalValue("common/math:tt256m1")
		_ = how
		init := c18InitCall(c, "common/math", "tt256m1")
		c.Ob("C08-R4", "math.tt256m1 = 2^256-1", c.Position(c.Global("common/math:tt256m1").Pos()), v == nil && init == "new(big.Int).Sub(tt256, big.NewInt(1))" && c18InitCall(c, "common/math", "tt256") == "BigPow(2, 256)", "initialisers: tt256m1="+init+", tt256="+c18InitCall(c, "common/math", "tt256"))
		c.GlobalNeverReassigned("C08-R4", "common/math:tt256m1")
	})
	c.Min("C08-R4", 40)

	c.Rule("C08-R5", "boundary guards of comparison-only paths equal the specification", func() { c08Boundaries(c) })
	c.Min("C08-R5", 14)

	c.Rule("C08-R6", "a jump stores the program counter only after destinations.has accepted the target", func() {
		for _, name := range []string{"opJump", "opJumpi"} {
			fn := c.Fn("core/vm:" + name)
			f := c.Facts(fn)
			n := 0
			for _, b := range fn.Blocks {
				for _, ins := range b.Instrs {
					st, ok := ins.(*ssa.Store)
					if !ok || f.tr.term(nil, st.Addr, 0) != "uint64#0" {
						continue
					}
					val := f.tr.term(nil, st.Val, 0)
					if val == "(uint64#0 + 1)" {
						continue // fall-through
					}
					n++
					ok2, w := allHave(f.At(st), mustRe(`^Contract#0\.jumpdests\.has\(Contract#0\.CodeHash, Contract#0\.Code, Stack#0\.pop\(\)\)$`))
					c.Ob("C08-R6", name+": *pc = "+val+" only under jumpdests.has(codehash, code, dest)", c.Position(st.Pos()), ok2 && val == "Stack#0.pop().Uint64()", w)
				}
			}
			if n == 0 {
				c.Ob("C08-R6", name+": jump target store found", c.FnPos(fn), false, "")
			}
		}
		has := c.Fn("core/vm:(destinations).has")
		c.MustOnAccept("C08-R6", has, 0, true, []LitReq{
			{Name: "destination fits in 63 bits", Re: `^Int#0\.BitLen\(\) < 63$`},
			{Name: "destination inside the code", Re: `^Int#0\.Uint64\(\) < len\(\[\]byte#0\)$`},
			{Name: "destination byte is JUMPDEST (0x5b)", Re: `^\[\]byte#0\[Int#0\.Uint64\(\)\] == 91$`},
			{Name: "destination is an opcode, not push data", Re: `^(` + PH + `|.*)\.codeSegment\(Int#0\.Uint64\(\)\)$`},
		})
		// the push-data bitmap is cached per code hash: the key must be the hash of the code that was analysed.
		// (a) has() fills the cache with codeBitmap(code) under codehash, (b) a contract's (CodeHash, Code) pair is
		// only ever set as (GetCodeHash(a), GetCode(a)) of one address or (Keccak256Hash(c), c) of one byte string
		nput := 0
		for _, b := range has.Blocks {
			for _, ins := range b.Instrs {
				if mu, ok := ins.(*ssa.MapUpdate); ok {
					nput++
					k := c.termOf(has, mu.Key)
					// the cached value: directly the call, or a load of a local whose last store in this block is the call
					val := mu.Value
					if u, isLoad := val.(*ssa.UnOp); isLoad {
						for _, prev := range mu.Block().Instrs {
							if prev == ins {
								break
							}
							if st, isSt := prev.(*ssa.Store); isSt && st.Addr == u.X {
								val = st.Val
							}
						}
					}
					okV := false
					if call, isCall := val.(*ssa.Call); isCall && calleeName(&call.Call) == "vm.codeBitmap" && len(call.Call.Args) == 1 {
						okV = c.termOf(has, call.Call.Args[0]) == "[]byte#0"
					}
					c.Ob("C08-R6", "destinations.has caches codeBitmap(code) under the hash it was given for that code", c.Position(mu.Pos()), k == "Hash#0" && okV, "d["+k+"] = "+c.termOf(has, mu.Value))
				}
			}
		}
		c.Ob("C08-R6", "destinations.has fills its cache", c.FnPos(has), nput == 1, fmt.Sprintf("%d map updates", nput))
		setters := map[*ssa.Function][2]int{}
		if f := c.FnOpt("core/vm:(*Contract).SetCallCode"); f != nil {
			setters[f] = [2]int{2, 3}
		}
		if f := c.FnOpt("core/vm:(*Contract).SetCode"); f != nil {
			setters[f] = [2]int{1, 2}
		}
		npairs := 0
		for _, caller := range c.SrcFns {
			for set, idx := range setters {
				for _, cs := range callSitesOf(caller, set) {
					npairs++
					h, cd := c.termOf(caller, cs.Common().Args[idx[0]]), c.termOf(caller, cs.Common().Args[idx[1]])
					ok := false
					if strings.HasSuffix(h, ")") {
						if i := strings.Index(h, ".GetCodeHash("); i > 0 {
							ok = cd == h[:i]+".GetCode("+h[i+len(".GetCodeHash("):]
						}
						if strings.HasPrefix(h, "crypto.Keccak256Hash(") {
							arg := strings.TrimSuffix(strings.TrimPrefix(h, "crypto.Keccak256Hash("), ")")
							ok = arg == cd || arg == "["+cd+"]"
						}
					}
					c.Ob("C08-R6", shortFn(caller)+": contract code and code hash are set as a matching pair", c.Position(cs.Pos()), ok, "hash "+h+", code "+cd)
				}
			}
		}
		c.Ob("C08-R6", "code/hash setter call sites found", "", npairs >= 5, fmt.Sprintf("%d", npairs))
		for _, fld := range []string{"CodeHash", "Code"} {
			c.fieldWrittenOnlyIn("C08-R6", "core/vm:Contract."+fld, map[string]bool{"(*core/vm.Contract).SetCallCode": true, "(*core/vm.Contract).SetCode": true, "(*core/vm.Contract).SetCodeOptionalHash": true})
		}
	})
	c.Min("C08-R6", 14)

	c.Rule("C08-R9", "operand access: stack operands are converted to machine integers only when guarded, clamped (getDataBig) or sized by memorySize, so offsets >= 2^64 read as zero padding", func() {
		vmMemoryOperandRule(c, "C08-R9", tabs)
		// the data helpers always hand back exactly `size` bytes: the available part of the source followed by zero
		// padding – a shorter result makes Memory.Set leave stale bytes where the specification requires zeros
		for _, spec := range []struct{ fn, size string }{{"core/vm:getData", "uint64#1"}, {"core/vm:getDataBig", "Int#1.Uint64()"}} {
			fn := c.Fn(spec.fn)
			f := c.Facts(fn)
			nr := 0
			for _, rs := range f.AllReturns() {
				nr++
				t := f.tr.term(rs.State, rs.Ret.Results[0], 0)
				ok := strings.HasPrefix(t, "common.RightPadBytes([]byte#0[") && strings.HasSuffix(t, "], "+spec.size+")")
				c.Ob("C08-R9", shortFn(fn)+": every return is the source slice right-padded with zeros to the requested size", c.Position(rs.Ret.Pos()), ok, "returns "+t)
			}
			c.Ob("C08-R9", shortFn(fn)+" returns", c.FnPos(fn), nr >= 1, fmt.Sprintf("%d", nr))
		}
		rp := c.Fn("common:RightPadBytes")
		frp := c.Facts(rp)
		for _, rs := range frp.AllReturns() {
			t := frp.tr.term(rs.State, rs.Ret.Results[0], 0)
			ok := t == "[]byte#0" && (rs.State.lits["int#0 <= len([]byte#0)"] || rs.State.lits["len([]byte#0) >= int#0"])
			if ms, isMake := stripConvAll(rs.Ret.Results[0]).(*ssa.MakeSlice); isMake && stripConvAll(ms.Len) == ssa.Value(rp.Params[1]) {
				// a fresh buffer of the requested length that received a copy of the input from its start
				for _, r := range *ms.Referrers() {
					if call, isCall := r.(*ssa.Call); isCall {
						if bi, isB := call.Call.Value.(*ssa.Builtin); isB && bi.Name() == "copy" && call.Call.Args[0] == ssa.Value(ms) && call.Call.Args[1] == ssa.Value(rp.Params[0]) {
							ok = true
						}
					}
				}
			}
			c.Ob("C08-R9", "common.RightPadBytes returns the input (already long enough) or a fresh buffer of the requested length", c.Position(rs.Ret.Pos()), ok, "returns "+t+" under "+strings.Join(guardLits(rs.State), "; "))
		}
	})
	c.Min("C08-R9", 66)

	c.Rule("C08-R7", "integer-pool ownership: nothing is both pushed and pooled; nothing peeked is pooled", func() {
		n := 0
		for _, fn := range c.SrcFns {
			if fn.Pkg == nil || relPkg(fn.Pkg.Pkg.Path()) != "core/vm" {
				continue
			}
			n += c08PoolRule(c, fn)
		}
		c.Extra["pool_put_operands"] = n
		c.Extra["push_sites"] = vmPushOwnershipRule(c, "C08-R7")
	})
	c.Min("C08-R7", 60)

	// "exceptional-halt behaviour" of stack instructions: the per-entry stack validation (items required, room for the
	// net growth up to 1024) and its agreement with what each execute function really pops and pushes is C07-R6
	c.Borrow("C07", runC07, map[string]string{"C07-R6": "C08-R10"})
}

// vmConstGas evaluates the gas function of an entry if it is a compile-time constant.
func (c *Ctx) vmConstGas(e vmEntry) (int64, bool, string) {
	if e.gasName == "constGasFunc" && len(e.gasArgs) == 1 {
		// verify constGasFunc's closure returns its bound argument
		fn, env, why := c.resolveVMFunc("constGasFunc", e.gasArgs)
		if fn == nil {
			return 0, false, why
		}
		v, ok := constReturn(fn, env, 0)
		return v, ok, "closure of constGasFunc"
	}
	if len(e.gasArgs) > 0 {
		return 0, false, "parameterised dynamic gas function"
	}
	fn := c.FnOpt("core/vm:" + e.gasName)
	if fn == nil {
		return 0, false, "gas function not found"
	}
	v, ok := constReturn(fn, nil, 0)
	return v, ok, "function body"
}

// constReturn: result #idx of every return of fn is the same integer constant.
func constReturn(fn *ssa.Function, env map[ssa.Value]int64, idx int) (int64, bool) {
	var val int64
	n := 0
	for _, b := range fn.Blocks {
		ret, ok := b.Instrs[len(b.Instrs)-1].(*ssa.Return)
		if !ok {
			continue
		}
		if len(ret.Results) <= idx {
			return 0, false
		}
		v, ok := fxEvalInt(ret.Results[idx], env)
		if !ok {
			return 0, false
		}
		if n > 0 && v != val {
			return 0, false
		}
		val = v
		n++
	}
	return val, n > 0
}

func c08NameTables(c *Ctx) {
	p := c.Pkg("core/vm")
	opType := c.Type("core/vm:OpCode")
	var consts []string
	for _, n := range p.Types.Scope().Names() {
		if k, ok := p.Types.Scope().Lookup(n).(*types.Const); ok && types.Identical(k.Type(), opType) {
			consts = append(consts, n)
		}
	}
	for _, tname := range []string{"opCodeToString", "stringToOp"} {
		keys := mapLiteralKeys(c, "core/vm", tname)
		var missing []string
		for _, k := range consts {
			if k == "PUSH" || k == "DUP" || k == "SWAP" {
				continue // pseudo opcodes used by the assembler only
			}
			if !keys[k] && !keys[`"`+k+`"`] {
				missing = append(missing, k)
			}
		}
		sort.Strings(missing)
		c.Ob("C08-R1", "every OpCode constant has an entry in vm."+tname, c.Position(c.Global("core/vm:"+tname).Pos()), len(missing) == 0,
			fmt.Sprintf("%d constants, %d entries; missing %v", len(consts), len(keys), missing))
	}
	// every named opcode is specified or is in the frozen defined-but-unimplemented list
	frozen := map[string]string{"PUSH": "assembler pseudo-op", "DUP": "assembler pseudo-op", "SWAP": "assembler pseudo-op", "CREATE2": "defined, not enabled in any set"}
	var unknown []string
	for _, k := range consts {
		if _, ok := evmSpec[k]; !ok && frozen[k] == "" {
			unknown = append(unknown, k)
		}
	}
	sort.Strings(unknown)
	c.Ob("C08-R1", "every OpCode constant is in the specification table or the frozen list", "", len(unknown) == 0, fmt.Sprintf("unknown: %v", unknown))
}

func c08GasTables(c *Ctx) {
	// params.GasTable rows per fork: field values by value
	// aquachain starts with the EIP-150 price row (named GasTableHomestead in this tree) and switches to the EIP-160 row at HF1
	want := map[string]map[string]int64{
		"GasTableHomestead": {"ExtcodeSize": 700, "ExtcodeCopy": 700, "Balance": 400, "SLoad": 200, "Calls": 700, "Suicide": 5000, "ExpByte": 10, "CreateBySuicide": 25000},
		"GasTableHF1":       {"ExtcodeSize": 700, "ExtcodeCopy": 700, "Balance": 400, "SLoad": 200, "Calls": 700, "Suicide": 5000, "ExpByte": 50, "CreateBySuicide": 25000},
	}
	p := c.Pkg("params")
	for name, fields := range want {
		obj := p.Types.Scope().Lookup(name)
		if obj == nil {
			c.Ob("C08-R3", "params."+name+" exists", "", false, "not found")
			continue
		}
		got := compositeFieldInts(c, "params", name)
		var bad []string
		for f, v := range fields {
			if gv, ok := got[f]; !ok && v != 0 || ok && gv != v {
				bad = append(bad, fmt.Sprintf("%s=%d want %d", f, gv, v))
			}
		}
		for f, gv := range got {
			if _, ok := fields[f]; !ok && gv != 0 {
				bad = append(bad, fmt.Sprintf("%s=%d unexpected", f, gv))
			}
		}
		sort.Strings(bad)
		c.Ob("C08-R3", "params."+name+" row equals the specification (EIP-150/160)", c.Position(obj.Pos()), len(bad) == 0, strings.Join(bad, "; "))
		c.GlobalNeverReassigned("C08-R3", "params:"+name)
	}
	// dispatch: HF1 -> GasTableHF1, otherwise GasTableHomestead
	gt := c.Fn("params:(*ChainConfig).GasTable")
	f := c.Facts(gt)
	n := 0
	for _, rs := range f.AllReturns() {
		res := f.tr.term(rs.State, rs.Ret.Results[0], 0)
		want := "params.GasTableHomestead"
		if rs.State.lits["ChainConfig#0.IsHF(1, Int#0)"] {
			want = "params.GasTableHF1"
		}
		n++
		c.Ob("C08-R3", "ChainConfig.GasTable returns "+want+" under {"+strings.Join(guardLits(rs.State), ", ")+"}", c.Position(rs.Ret.Pos()), res == want, "returns "+res)
	}
	c.Ob("C08-R3", "ChainConfig.GasTable has the HF1 and the default case", c.FnPos(gt), n >= 3, fmt.Sprintf("%d returns", n))
}

// c08ExecFunctions: the SSA functions (incl. maker closures) referenced as execute by any table entry.
func c08ExecFunctions(c *Ctx, tabs *vmTables) []*ssa.Function {
	seen := map[*ssa.Function]bool{}
	var out []*ssa.Function
	for _, set := range tabs.order {
		for _, e := range tabs.own[set] {
			fn, _, _ := c.resolveVMFunc(e.execName, e.execArgs)
			if fn != nil && !seen[fn] {
				seen[fn] = true
				out = append(out, fn)
			}
		}
	}
	sort.Slice(out, func(i, j int) bool { return out[i].String() < out[j].String() })
	return out
}

var escapingBigOps = map[string]bool{"Add": true, "Sub": true, "Mul": true, "Lsh": true, "Not": true, "Neg": true, "Exp": true, "SetInt64": true, "Or": true}
var shrinkingBigOps = map[string]bool{"Div": true, "Mod": true, "Rsh": true, "And": true, "Quo": true, "Rem": true, "SetUint64": true, "SetBytes": true, "Set": true, "Xor": true, "Abs": true}

func bigMethod(v ssa.Value) (string, *ssa.Call) {
	call, ok := v.(*ssa.Call)
	if !ok {
		return "", nil
	}
	f := call.Call.StaticCallee()
	if f == nil || f.Signature.Recv() == nil || !strings.HasSuffix(f.Signature.Recv().Type().String(), "big.Int") {
		return "", nil
	}
	return f.Name(), call
}

// escapes: may the value lie outside [0, 2^256) given operands inside it? (syntactic: outermost operation chain)
func c08Escapes(v ssa.Value, depth int) (bool, string) {
	if depth > 12 {
		return false, ""
	}
	if name, call := bigMethod(v); call != nil {
		if name == "SetInt64" {
			if k, ok := constInt(call.Call.Args[1]); ok && k < 0 {
				return true, "SetInt64(negative)"
			}
			return false, ""
		}
		if escapingBigOps[name] {
			// Or/And of in-range operands stay in range unless an operand is a Not/negative mask; treat Or as escaping only if an operand escapes
			if name == "Or" {
				for _, a := range call.Call.Args[1:] {
					if e, w := c08Escapes(a, depth+1); e {
						return true, w
					}
				}
				return false, ""
			}
			return true, name
		}
		if name == "And" || name == "Xor" {
			for _, a := range call.Call.Args[1:] {
				if e, w := c08Escapes(a, depth+1); e {
					return true, w
				}
			}
			return false, ""
		}
		if shrinkingBigOps[name] {
			if name == "Set" || name == "Abs" {
				return c08Escapes(call.Call.Args[1], depth+1)
			}
			return false, ""
		}
	}
	if call, ok := v.(*ssa.Call); ok {
		if f := call.Call.StaticCallee(); f != nil && f.Pkg != nil {
			switch f.Pkg.Pkg.Path() + "." + f.Name() {
			case modPath + "/common/math.U256":
				return false, ""
			case modPath + "/common/math.S256":
				return true, "S256"
			case modPath + "/common/math.Exp":
				return false, "" // wraps every multiplication itself: checked separately (C08-R4 math.Exp)
			}
		}
	}
	return false, ""
}

func c08U256Rule(c *Ctx, fn *ssa.Function) int {
	n := 0
	tr := newTermRenderer(fn)
	for _, b := range fn.Blocks {
		for _, ins := range b.Instrs {
			call, ok := ins.(*ssa.Call)
			if !ok || !isVMStackMethod(&call.Call, "push") {
				continue
			}
			n++
			v := call.Call.Args[1]
			esc, why := c08Escapes(v, 0)
			c.Ob("C08-R4", shortFn(fn)+": pushed value stays in [0,2^256)", c.Position(call.Pos()), !esc,
				fmt.Sprintf("pushes %s (outermost range-escaping operation: %s)", tr.term(nil, v, 0), why))
		}
	}
	// results left on the stack through a peek alias: every mutating big.Int call whose receiver roots at peek()
	for _, b := range fn.Blocks {
		for _, ins := range b.Instrs {
			name, call := bigMethod(valueOf(ins))
			if call == nil || !escapingBigOps[name] || name == "Or" {
				continue
			}
			root := bigRoot(call.Call.Args[0], 0)
			rc, ok := root.(*ssa.Call)
			if !ok || !(isVMStackMethod(&rc.Call, "peek") || isVMStackMethod(&rc.Call, "Back")) {
				continue
			}
			n++
			// the result must flow into math.U256
			wrapped := false
			if call.Referrers() != nil {
				for _, r := range *call.Referrers() {
					if rcall, ok := r.(*ssa.Call); ok {
						if f := rcall.Call.StaticCallee(); f != nil && f.Name() == "U256" {
							wrapped = true
						}
					}
				}
			}
			c.Ob("C08-R4", shortFn(fn)+": in-place result on a peeked stack item is wrapped by math.U256", c.Position(call.Pos()), wrapped,
				fmt.Sprintf("%s on the stack top alias", name))
		}
	}
	return n
}

func valueOf(ins ssa.Instruction) ssa.Value {
	v, _ := ins.(ssa.Value)
	return v
}

// bigRoot follows receiver-returning big.Int methods (and U256/S256) to the object they mutate.
func bigRoot(v ssa.Value, depth int) ssa.Value {
	if depth > 20 {
		return v
	}
	if name, call := bigMethod(v); call != nil && len(call.Call.Args) > 0 {
		if escapingBigOps[name] || shrinkingBigOps[name] {
			return bigRoot(call.Call.Args[0], depth+1)
		}
	}
	if call, ok := v.(*ssa.Call); ok {
		if f := call.Call.StaticCallee(); f != nil && f.Pkg != nil && strings.HasSuffix(f.Pkg.Pkg.Path(), "common/math") && (f.Name() == "U256" || f.Name() == "S256") {
			return bigRoot(call.Call.Args[0], depth+1)
		}
	}
	return v
}

func c08PoolRule(c *Ctx, fn *ssa.Function) int {
	kind := map[ssa.Value]string{}
	pushed := map[ssa.Value]ssa.Instruction{}
	put := map[ssa.Value]ssa.Instruction{}
	uses := false
	nput := 0
	for _, b := range fn.Blocks {
		for _, ins := range b.Instrs {
			var cc *ssa.CallCommon
			var val ssa.Value
			switch i := ins.(type) {
			case *ssa.Call:
				cc, val = &i.Call, i
			case *ssa.Defer:
				cc = &i.Call
			default:
				continue
			}
			f := cc.StaticCallee()
			if f == nil || f.Signature.Recv() == nil {
				continue
			}
			r := f.Signature.Recv().Type().String()
			switch {
			case strings.HasSuffix(r, "vm.Stack") && f.Name() == "pop":
				kind[val] = "pop"
			case strings.HasSuffix(r, "vm.Stack") && (f.Name() == "peek" || f.Name() == "Back"):
				kind[val] = "peek"
			case strings.HasSuffix(r, "vm.intPool") && f.Name() == "get":
				kind[val] = "get"
			case strings.HasSuffix(r, "vm.Stack") && f.Name() == "push":
				pushed[bigRoot(cc.Args[1], 0)] = ins
				uses = true
			case strings.HasSuffix(r, "vm.intPool") && f.Name() == "put":
				uses = true
				if sl, ok := cc.Args[1].(*ssa.Slice); ok {
					if al, ok := sl.X.(*ssa.Alloc); ok && al.Referrers() != nil {
						for _, ref := range *al.Referrers() {
							if ia, ok := ref.(*ssa.IndexAddr); ok && ia.Referrers() != nil {
								for _, r2 := range *ia.Referrers() {
									if st, ok := r2.(*ssa.Store); ok {
										put[bigRoot(st.Val, 0)] = ins
										nput++
									}
								}
							}
						}
					}
				}
			}
		}
	}
	if !uses {
		return 0
	}
	tr := newTermRenderer(fn)
	for v, at := range put {
		_, both := pushed[v]
		ok := !both && kind[v] != "peek"
		why := "origin: " + kind[v]
		if both {
			why = "the same integer is pushed on the stack and returned to the pool (later pool users overwrite a live stack item)"
		} else if kind[v] == "peek" {
			why = "a peeked (still on the stack) integer is returned to the pool"
		}
		if kind[v] == "" {
			if _, isParam := v.(*ssa.Parameter); !isParam {
				why = fmt.Sprintf("origin of pooled value is %T: not a pop()/get() result", v)
			}
		}
		c.Ob("C08-R7", shortFn(fn)+": pooled value "+tr.term(nil, v, 0)+" is owned (popped or taken from the pool) and not pushed", c.Position(at.Pos()), ok, why)
	}
	return nput
}

func c08Boundaries(c *Ctx) {
	type bcase struct {
		fn, what, at, re string
	}
	// `at`: callee pattern of the call whose path states are examined; `re`: literal that must hold there.
	cases := []bcase{
		{"opSAR", "shift >= 256 and negative value => all ones", `^Int\.SetInt64$`, `^math\.S256\(Stack#0\.pop\(\)~2\) < 0$`},
		{"opSAR", "shift >= 256 and non-negative value => zero", `^Int\.SetUint64$`, `^math\.S256\(Stack#0\.pop\(\)~2\) >= 0$`},
		{"opSAR", "saturating branch only for shift >= 256", `^Int\.Set(Ui|I)nt64$`, `^math\.U256\(Stack#0\.pop\(\)\) >= common\.Big256$`},
		{"opSAR", "arithmetic shift only for shift < 256", `^Int\.Rsh$`, `^math\.U256\(Stack#0\.pop\(\)\) < common\.Big256$`},
		{"opSHL", "shift >= 256 => zero", `^Int\.SetUint64$`, `^math\.U256\(Stack#0\.pop\(\)\) >= common\.Big256$`},
		{"opSHL", "left shift only for shift < 256", `^Int\.Lsh$`, `^math\.U256\(Stack#0\.pop\(\)\) < common\.Big256$`},
		{"opSHR", "shift >= 256 => zero", `^Int\.SetUint64$`, `^math\.U256\(Stack#0\.pop\(\)\) >= common\.Big256$`},
		{"opSHR", "logical shift only for shift < 256", `^Int\.Rsh$`, `^math\.U256\(Stack#0\.pop\(\)\) < common\.Big256$`},
		{"opByte", "byte index < 32 selects a byte", `^math\.Byte$`, `^Stack#0\.pop\(\) < common\.Big32$`},
		{"opSignExtend", "extension only for index < 31", `^Stack\.push$`, `^Stack#0\.pop\(\) < big\.NewInt\(31\)$`},
		{"opDiv", "division only by a non-zero divisor", `^Int\.Div$`, `^Stack#0\.pop\(\)~2 != 0$`},
		{"opMod", "modulo only by a non-zero divisor", `^Int\.Mod$`, `^Stack#0\.pop\(\)~2 != 0$`},
		{"opSdiv", "signed division only by a non-zero divisor", `^Int\.Div$`, `^math\.S256\(Stack#0\.pop\(\)~2\) != 0$`},
		{"opSmod", "signed modulo only by a non-zero divisor", `^Int\.Mod$`, `^math\.S256\(Stack#0\.pop\(\)~2\) != 0$`},
		{"opAddmod", "modular addition only for a positive modulus", `^Int\.Mod$`, `^Stack#0\.pop\(\)~3 > vm\.bigZero$`},
		{"opMulmod", "modular multiplication only for a positive modulus", `^Int\.Mod$`, `^Stack#0\.pop\(\)~3 > vm\.bigZero$`},
		{"opBlockhash", "hash only for number-257 < n (lower bound)", `^dyn:`, `^Stack#0\.pop\(\) > EVM#0\.interpreter\.intPool\.get\(\)\.Sub\(EVM#0\.Context\.BlockNumber, common\.Big257\)$`},
		{"opBlockhash", "hash only for n < number (upper bound)", `^dyn:`, `^Stack#0\.pop\(\) < EVM#0\.Context\.BlockNumber$`},
	}
	for _, bc := range cases {
		fn := c.Fn("core/vm:" + bc.fn)
		f := c.Facts(fn)
		re := regexp.MustCompile(bc.at)
		var sites []ssa.CallInstruction
		for _, b := range fn.Blocks {
			for _, ins := range b.Instrs {
				if ci, ok := ins.(*ssa.Call); ok {
					n := calleeName(&ci.Call)
					if n == "" && !ci.Call.IsInvoke() && ci.Call.StaticCallee() == nil {
						n = "dyn:" + f.tr.term(nil, ci.Call.Value, 0)
					}
					if re.MatchString(n) {
						sites = append(sites, ci)
					}
				}
			}
		}
		if len(sites) == 0 {
			c.Ob("C08-R5", bc.fn+": "+bc.what, c.FnPos(fn), false, "no call matching /"+bc.at+"/ found")
			continue
		}
		lre := regexp.MustCompile(bc.re)
		ok := true
		detail := ""
		pos := c.FnPos(fn)
		for _, s := range sites {
			good, w := allHave(f.At(s), lre)
			if !good {
				ok = false
				pos = c.Position(s.Pos())
				detail = "a path reaches " + calleeName(s.Common()) + " without /" + bc.re + "/; guard literals: " + w
			} else if detail == "" {
				detail = "e.g. " + w
			}
		}
		c.Ob("C08-R5", bc.fn+": "+bc.what, pos, ok, detail)
	}
	for _, cs := range []string{"common:Big256", "common:Big32", "common:Big257", "core/vm:bigZero"} {
		want := map[string]string{"common:Big256": "256", "common:Big32": "32", "common:Big257": "257", "core/vm:bigZero": "0"}[cs]
		v, how := c.GlobalValue(cs)
		got := ""
		if v != nil {
			got = v.ExactString()
		}
		if cs == "core/vm:bigZero" && v == nil {
			init := c18InitCall(c, "core/vm", "bigZero")
			c.Ob("C08-R5", cs+" is zero", c.Position(c.Global(cs).Pos()), init == "new(big.Int)", "initialiser "+init)
		} else {
			c.Ob("C08-R5", cs+" == "+want, c.Position(c.Global(cs).Pos()), got == want, "value "+got+" ("+how+")")
		}
		c.GlobalNeverReassigned("C08-R5", cs)
	}
}

// vmPushOwnershipRule: every integer pushed on the EVM stack is owned by the frame (taken from the integer pool,
// freshly allocated, or a popped stack item being reused). Pushing a shared integer (a field of the EVM context, a
// contract field, a protocol constant, a state object's balance) lets a later instruction mutate it in place or
// recycle it through the pool. Shared between C08-R7 (pool ownership) and C06-R3 (one immutable gas price).
func vmPushOwnershipRule(c *Ctx, rule string) int {
	fresh := map[string]string{
		"intPool.get": "pool", "intPool.getZero": "pool", "big.NewInt": "fresh", "Stack.pop": "popped item reused",
		"Hash.Big": "fresh (new(big.Int).SetBytes)", "Address.Big": "fresh (new(big.Int).SetBytes)", "math.BigPow": "fresh", "math.Exp": "fresh result (new big.Int)",
	}
	n := 0
	for _, fn := range c.SrcFns {
		if fn.Pkg == nil || relPkg(fn.Pkg.Pkg.Path()) != "core/vm" {
			continue
		}
		if r := fn.Signature.Recv(); r != nil && strings.HasSuffix(r.Type().String(), "vm.intPool") {
			continue // the pool keeps its free list in a Stack of its own
		}
		tr := newTermRenderer(fn)
		for _, b := range fn.Blocks {
			for _, ins := range b.Instrs {
				call, ok := ins.(*ssa.Call)
				if !ok || !isVMStackMethod(&call.Call, "push") {
					continue
				}
				n++
				okAll, why := true, ""
				seen := map[ssa.Value]bool{}
				var walk func(v ssa.Value)
				walk = func(v ssa.Value) {
					if seen[v] {
						return
					}
					seen[v] = true
					v = bigRoot(v, 0)
					switch x := v.(type) {
					case *ssa.Phi:
						for _, e := range x.Edges {
							walk(e)
						}
						return
					case *ssa.Alloc:
						return
					case *ssa.Parameter:
						// helper functions that push a value handed in by an execute function: checked at their call sites
						return
					case *ssa.Call:
						if _, good := fresh[calleeName(&x.Call)]; good {
							return
						}
					}
					okAll, why = false, tr.term(nil, v, 0)
				}
				walk(call.Call.Args[1])
				c.Ob(rule, shortFn(fn)+": pushed integer is frame-owned (pool, fresh or reused stack item), not a shared one", c.Position(call.Pos()), okAll, "pushes "+tr.term(nil, call.Call.Args[1], 0)+"; shared root: "+why)
			}
		}
	}
	return n
}
