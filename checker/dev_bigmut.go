package main

import (
	"fmt"
	"sort"
	"strings"

	"golang.org/x/tools/go/ssa"
)

// dev: classify the roots of receivers of mutating big.Int calls across the module
func bigmutCmd() {
	c := newCtx("dev", "quick")
	c.Load("./...")
	counts := map[string]int{}
	examples := map[string][]string{}
	for _, fn := range c.SrcFns {
		if fn.Pkg == nil || strings.HasPrefix(relPkg(fn.Pkg.Pkg.Path()), "cmd/") {
			continue
		}
		for _, b := range fn.Blocks {
			for _, ins := range b.Instrs {
				call, ok := ins.(*ssa.Call)
				if !ok {
					continue
				}
				f := call.Call.StaticCallee()
				if f == nil || f.Signature.Recv() == nil || !strings.HasSuffix(f.Signature.Recv().Type().String(), "big.Int") || !bigMutators[f.Name()] {
					continue
				}
				for _, r := range bigRoots(call.Call.Args[0]) {
					kind := fmt.Sprintf("%T", r)
					switch x := r.(type) {
					case *ssa.Call:
						kind = "call:" + calleeName(&x.Call)
					case *ssa.UnOp:
						kind = "load:" + fmt.Sprintf("%T", x.X)
						if fa, ok := x.X.(*ssa.FieldAddr); ok {
							kind = "field:" + fieldName(fa)
						}
					case *ssa.Extract:
						if cc, ok := x.Tuple.(*ssa.Call); ok {
							kind = "extract:" + calleeName(&cc.Call)
						}
					}
					counts[kind]++
					if len(examples[kind]) < 2 {
						examples[kind] = append(examples[kind], c.Position(call.Pos()))
					}
				}
			}
		}
	}
	var ks []string
	for k := range counts {
		ks = append(ks, k)
	}
	sort.Slice(ks, func(i, j int) bool { return counts[ks[i]] > counts[ks[j]] })
	for _, k := range ks {
		fmt.Printf("%5d %s %v\n", counts[k], k, examples[k])
	}
}
