package main

import (
	"fmt"
	"sort"
	"strings"

	"golang.org/x/tools/go/ssa"
)

// C01 Block import is deterministic and accepts only self-consistent blocks.

func init() { register("C01", []string{"./..."}, runC01) }

func runC01(c *Ctx) {
	c.Explanation = "Ordering, guard, effect and call-graph rules for the block import path: (R1) in insertChain2 every block consumes exactly its own header verdict and reaches WriteBlockWithState only after that verdict, ValidateBody, state.New(parent root), Processor.Process and ValidateState all succeeded (or the frozen sentinel cases), with the same block/state/receipts/gas values flowing through; (R2) ValidateBody/ValidateState compare every header commitment (uncle hash, tx root, gas used, bloom, receipt root, state root) with the recomputed value on every accepting path; (R3) importer, miner and chain generator run the same pipeline (hard-fork hooks under the same guard, ApplyTransaction only, Engine.Finalize), and ApplyMessage is reachable from them only through ApplyTransaction; (R4) every map iteration reachable from the consensus entry points is order-insensitive; (R5) the set of functions that can move the in-memory head is closed; (R6) code reachable from block execution never reads the canonical-number index or the current head (results cannot depend on fork-choice state). Decides these structural conditions on all paths; that EVM execution is a function of (block, parent state) and equality across restart/pruning are not decided."
	c.NotDecided = []string{"that EVM execution itself is a pure function of (block, parent state)", "equality of results across restart, pruning and cache warmth", "correctness of the recomputations (C09/C10/C16 cover structural parts)"}
	c.Assumptions = []string{"VerifyHeaders delivers verdicts in input order (C13-R4 shape)", "call graph over-approximates module-internal dynamic calls"}
	g := c.CG()

	c.Rule("C01-R1", "validate-before-write in the import loop; one verdict per block", func() {
		fn := c.Fn("core:(*BlockChain).insertChain2")
		blk := `Blocks#0\[\(phi:rangeindex(~\d+)? \+ 1\)\]`
		recv := `<-BlockChain#0\.engine\.VerifyHeaders\(BlockChain#0, make\(\[\]Header\), make\(\[\]bool\)\)#1`
		okv := `(nil|core\.ErrKnownBlock|consensus\.ErrPrunedAncestor)`
		c.MustBefore("C01-R1", fn, `^BlockChain\.WriteBlockWithState$`, 1, []LitReq{
			{Name: "this block's header verdict was received", Re: `^recv:BlockChain#0\.engine\.VerifyHeaders\(`},
			{Name: "header verdict / body validation outcome is nil or a frozen sentinel", Re: `^(` + recv + `|BlockChain#0\.Validator\(\)\.ValidateBody\(` + blk + `\)) == ` + okv + `$`},
			{Name: "body validated whenever the header verdict was nil", Unless: `^` + recv + ` != nil$`, Re: `^BlockChain#0\.Validator\(\)\.ValidateBody\(` + blk + `\) == ` + okv + `$`},
			{Name: "parent state opened", Re: `^state\.New\(.*\.Root\(\), BlockChain#0\.stateCache\)#1 == nil$`},
			{Name: "block processed without error", Re: `^BlockChain#0\.processor\.Process\(` + blk + `, state\.New\(.*\)#0, BlockChain#0\.vmConfig\)#3 == nil$`},
			{Name: "post-state validated", Re: `^BlockChain#0\.Validator\(\)\.\(BlockValidator\)\.ValidateState\(` + blk + `, .*\) == nil$`},
		})
		// value agreement between Process, ValidateState and WriteBlockWithState
		f := c.Facts(fn)
		ps := callSites(fn, `^Processor\.Process$`)
		vs := callSites(fn, `^BlockValidator\.ValidateState$`)
		ws := callSites(fn, `^BlockChain\.WriteBlockWithState$`)
		if len(ps) == 1 && len(vs) == 1 && len(ws) == 1 {
			pa, va, wa := ps[0].Common().Args, vs[0].Common().Args, ws[0].Common().Args
			t := func(v ssa.Value) string { return f.tr.term(nil, v, 0) }
			proc := t(ps[0].Value())
			okAgree := t(pa[0]) == t(va[1]) && t(pa[0]) == t(wa[1]) && // same block
				t(pa[1]) == t(va[3]) && t(pa[1]) == t(wa[3]) && // same state
				t(va[4]) == proc+"#0" && t(wa[2]) == proc+"#0" && // receipts from Process
				t(va[5]) == proc+"#2" // usedGas from Process
			c.Ob("C01-R1", "the block, state, receipts and gas validated are the ones processed and written", c.Position(ws[0].Pos()), okAgree,
				fmt.Sprintf("Process(%s, %s); ValidateState(%s, _, %s, %s, %s); WriteBlockWithState(%s, %s, %s)", t(pa[0]), t(pa[1]), t(va[1]), t(va[3]), t(va[4]), t(va[5]), t(wa[1]), t(wa[2]), t(wa[3])))
			// parent state root: i == 0 -> GetBlock(parentHash), else chain[i-1]
		} else {
			c.Ob("C01-R1", "insertChain2 has one Process, one ValidateState and one WriteBlockWithState call", c.FnPos(fn), false, fmt.Sprintf("%d/%d/%d", len(ps), len(vs), len(ws)))
		}
		// every iteration that continues the loop consumed exactly one verdict (no skipping before the receive)
		c.MustLoopBack("C01-R1", fn, `^BlockChain\.WriteBlockWithState$`, []LitReq{
			{Name: "each loop iteration receives one header verdict before continuing", Re: `^recv:BlockChain#0\.engine\.VerifyHeaders\(`},
		})
		nrecv := 0
		for _, b := range fn.Blocks {
			for _, ins := range b.Instrs {
				if u, ok := ins.(*ssa.UnOp); ok && u.Op.String() == "<-" {
					nrecv++
				}
			}
		}
		c.Ob("C01-R1", "exactly one receive from the verdict channel per iteration", c.FnPos(fn), nrecv == 1, fmt.Sprintf("%d receive instructions", nrecv))
		// headers/seals handed to the verifier are those of the chain, seal checking on
		okSeal := false
		for _, b := range fn.Blocks {
			for _, ins := range b.Instrs {
				if st, ok := ins.(*ssa.Store); ok {
					if ia, ok := st.Addr.(*ssa.IndexAddr); ok && strings.HasPrefix(f.tr.term(nil, ia.X, 0), "make([]bool)") {
						okSeal = f.tr.term(nil, st.Val, 0) == "true"
					}
				}
			}
		}
		c.Ob("C01-R1", "every header of the batch is verified with its seal", c.FnPos(fn), okSeal, "")
	})
	c.Rule("C01-R1b", "the sentinels the import loop dispatches on (known block, pruned ancestor, future block, unknown ancestor, ...) are produced unwrapped", func() {
		c.SentinelIdentityRule("C01-R1b", nil)
	})
	c.Min("C01-R1b", 1)
	c.Min("C01-R1", 10)

	c.Rule("C01-R2", "every header commitment is compared with the recomputed value on every accepting path", func() {
		vb := c.Fn("core:(*BlockValidator).ValidateBody")
		c.MustOnAccept("C01-R2", vb, -1, false, []LitReq{
			{Name: "uncles verified by the engine", Re: `^BlockValidator#0\.engine\.VerifyUncles\(BlockValidator#0\.bc, Block#0\) == nil$`},
			{Name: "uncle hash commitment", Re: `^types\.CalcUncleHash\(Block#0\.Uncles\(\)\) == Block#0\.Header\(\)\.UncleHash$`},
			{Name: "transaction root commitment", Re: `^types\.DeriveSha\(Block#0\.Transactions\(\)\) == Block#0\.Header\(\)\.TxHash$`},
			{Name: "parent block and state are available", Re: `^BlockValidator#0\.bc\.HasBlockAndState\(Block#0\.ParentHash\(\), \(Block#0\.NumberU64\(\) - 1\)\)$`},
		})
		vs := c.Fn("core:(*BlockValidator).ValidateState")
		c.MustOnAccept("C01-R2", vs, -1, false, []LitReq{
			{Name: "gas used commitment", Re: `^Block#0\.GasUsed\(\) == uint64#0$`},
			{Name: "log bloom commitment", Re: `^types\.CreateBloom\(Receipts#0\) == Block#0\.Header\(\)\.Bloom$`},
			{Name: "receipt root commitment", Re: `^types\.DeriveSha\(Receipts#0\) == Block#0\.Header\(\)\.ReceiptHash$`},
			{Name: "state root commitment", Re: `^Block#0\.Header\(\)\.Root == StateDB#0\.IntermediateRoot\(BlockValidator#0\.config\.IsEIP158\(Block#0\.Header\(\)\.Number\)\)$`},
		})
	})
	c.Min("C01-R2", 8)

	roots := []*ssa.Function{c.Fn("core:(*StateProcessor).Process"), c.Fn("opt/miner:(*worker).commitNewWork"), c.Fn("core:GenerateChain")}
	c.Rule("C01-R3", "importer, miner and chain generator share one state-transition pipeline", func() {
		type site struct{ fn, cfg, num, st string }
		for _, s := range []site{
			{"core:(*StateProcessor).Process", `StateProcessor#0\.config`, `Block#0\.Header\(\)\.Number`, ""},
			{"opt/miner:(*worker).commitNewWork", `.*\.config`, `.*\.Number`, ""},
			{"core:GenerateChain$1", `fv:[\w#]+`, `.*\.header\.Number`, ""},
		} {
			var fn *ssa.Function
			if strings.HasSuffix(s.fn, "$1") {
				p := c.Fn(strings.TrimSuffix(s.fn, "$1"))
				for _, a := range p.AnonFuncs {
					if len(callSites(a, `^misc\.ApplyHardFork4$`)) > 0 {
						fn = a
					}
				}
				if fn == nil {
					c.Ob("C01-R3", "GenerateChain block builder closure found", c.FnPos(p), false, "")
					continue
				}
			} else {
				fn = c.Fn(s.fn)
			}
			for _, hf := range []string{"4", "5"} {
				c.MustBefore("C01-R3", fn, `^misc\.ApplyHardFork`+hf+`$`, 1, []LitReq{
					{Name: "hard fork " + hf + " hook runs exactly at its fork block", Re: `^` + s.cfg + `\.GetHF\(` + hf + `\) == ` + s.num + `$`},
					{Name: "hard fork " + hf + " is scheduled", Re: `^` + s.cfg + `\.GetHF\(` + hf + `\) != nil$`},
				})
			}
			// hooks precede transaction application; Finalize follows
			hooks := callSites(fn, `^misc\.ApplyHardFork[45]$`)
			fins := callSites(fn, `^Engine\.Finalize$`)
			okOrder := len(hooks) == 2 && len(fins) >= 1
			for _, fz := range fins {
				for _, h := range hooks {
					// hook blocks are conditional: require that the hook's block index precedes and can reach Finalize
					if !reaches(h.Block(), fz.Block(), nil) {
						okOrder = false
					}
				}
			}
			c.Ob("C01-R3", shortFn(fn)+": HF4/HF5 hooks precede Engine.Finalize", c.FnPos(fn), okOrder, fmt.Sprintf("%d hooks, %d Finalize", len(hooks), len(fins)))
			// and they precede every transaction: builder and importer must edit the fork-block state at the same point of
			// the pipeline, or a transaction touching a listed account makes the node reject its own block. No call that can
			// reach ApplyTransaction may be followed by a hook.
			atFn := c.Fn("core:ApplyTransaction")
			okTx, ntx := true, 0
			for _, e := range g.out[fn] {
				if e.site == nil || e.callee == nil {
					continue
				}
				if e.callee != atFn {
					if _, ok := g.Reach([]*ssa.Function{e.callee}, ReachOpts{SkipGo: true})[atFn]; !ok {
						continue
					}
				}
				if strings.HasPrefix(calleeName(e.site.Common()), "misc.") {
					continue
				}
				ntx++
				for _, h := range hooks {
					if e.site.Block() == h.Block() {
						if instrDominates(e.site, h) {
							okTx = false
						}
					} else if reaches(e.site.Block(), h.Block(), nil) {
						okTx = false
					}
				}
			}
			c.Ob("C01-R3", shortFn(fn)+": HF4/HF5 hooks run before any transaction is applied", c.FnPos(fn), okTx && ntx >= 1, fmt.Sprintf("%d call sites that can apply transactions", ntx))
		}
		// ApplyMessage / NewStateTransition reachable from the three roots only through ApplyTransaction
		at := c.Fn("core:ApplyTransaction")
		am := c.Fn("core:ApplyMessage")
		nst := c.Fn("core:NewStateTransition")
		reach := g.Reach(roots, ReachOpts{})
		for _, target := range []*ssa.Function{am, nst} {
			for _, caller := range g.in[target] {
				if _, ok := reach[caller]; !ok || caller.Synthetic != "" {
					continue
				}
				ok := caller == at || caller == am
				c.Ob("C01-R3", shortFn(target)+" is reached from the consensus roots only via ApplyTransaction: caller "+shortFn(caller), c.FnPos(caller), ok, pathTo(reach, caller))
			}
		}
		// the miner drops a failing transaction but keeps building: the partial effects of the failed application
		// (gas purchase, nonce bump) must not stay in the block's state, or the sealed root commits to a transaction
		// that is not in the body and the node's own importer rejects the block
		ct := c.Fn("opt/miner:(*Work).commitTransaction")
		fct := c.Facts(ct)
		snaps, apps := callSites(ct, `^StateDB\.Snapshot$`), callSites(ct, `^core\.ApplyTransaction$`)
		okSnap := len(snaps) == 1 && len(apps) == 1 && instrDominates(snaps[0], apps[0])
		c.Ob("C01-R3", "miner: a state snapshot is taken before a transaction is applied", c.FnPos(ct), okSnap, fmt.Sprintf("%d Snapshot, %d ApplyTransaction", len(snaps), len(apps)))
		var failing []*pstate
		for _, rs := range fct.AllReturns() {
			if _, bad := hasLit(rs.State, mustRe(`^core\.ApplyTransaction\(.*\)#2 != nil$`)); bad {
				failing = append(failing, rs.State)
			}
		}
		c.mustStates("C01-R3", ct, "return after a failed ApplyTransaction", failing, []LitReq{
			{Name: "miner: a failed transaction's partial effects are reverted to the snapshot taken before it", Re: `^called:Work#0\.state\.RevertToSnapshot\(Work#0\.state\.Snapshot\(\)\)$`},
		})
		if len(failing) == 0 {
			c.Ob("C01-R3", "miner: failing path of commitTransaction found", c.FnPos(ct), false, "")
		}
		// transactions are executed through core.ApplyTransaction in all three
		for _, spec := range []string{"core:(*StateProcessor).Process", "opt/miner:(*Work).commitTransaction", "core:(*BlockGen).AddTx"} {
			fn := c.Fn(spec)
			c.Ob("C01-R3", shortFn(fn)+" executes transactions through core.ApplyTransaction", c.FnPos(fn), len(callSites(fn, `^core\.ApplyTransaction$`)) == 1, "")
		}
	})
	c.Min("C01-R3", 18)

	c.Rule("C01-R4", "map iteration order cannot leak into roots, receipts or blooms", func() {
		entry := []*ssa.Function{c.Fn("core:(*StateProcessor).Process"), c.Fn("core:(*BlockValidator).ValidateState"), c.Fn("core:(*BlockChain).WriteBlockWithState"),
			c.Fn("consensus/aquahash:(*Aquahash).Finalize"), c.Fn("core/types:DeriveSha"), c.Fn("core/types:CreateBloom"), c.Fn("core:(*Genesis).ToBlock")}
		reach := g.Reach(entry, ReachOpts{SkipGo: true})
		pk := map[string]bool{"core": true, "core/state": true, "core/types": true, "core/vm": true, "trie": true, "consensus/aquahash": true, "consensus/misc": true, "consensus": true, "rlp": true}
		n := 0
		var fns []*ssa.Function
		for fn := range reach {
			if fn.Pkg != nil && pk[relPkg(fn.Pkg.Pkg.Path())] {
				fns = append(fns, fn)
			}
		}
		sort.Slice(fns, func(i, j int) bool { return fns[i].String() < fns[j].String() })
		for _, fn := range fns {
			switch shortFn(fn) {
			case "(*core.BlockChain).reorg$1", "(*core.BlockChain).reorg", "(*core/state.StateDB).Logs":
				continue // event collection for subscribers, not consensus data (StateDB.Logs is reported below)
			}
			n += c.MapRangeRule("C01-R4", fn)
		}
		c.Extra["map_range_loops_on_consensus_path"] = n
		if lg := c.FnOpt("core/state:(*StateDB).Logs"); lg != nil {
			_, on := reach[lg]
			c.Ob("C01-R4", "StateDB.Logs (map-order dependent) is not reachable from the consensus entry points", c.FnPos(lg), !on, "used by the miner's event posting only")
		}
	})
	c.Min("C01-R4", 12)

	c.Rule("C01-R5", "closed set of functions that move the in-memory head", func() {
		allowed := map[string]bool{"(*core.BlockChain).insert": true, "(*core.BlockChain).SetHead": true, "(*core.BlockChain).Rollback": true, "(*core.BlockChain).FastSyncCommitHead": true,
			"(*core.BlockChain).loadLastState": true, "(*core.BlockChain).ResetWithGenesisBlock": true, "core.NewBlockChain": true, "(*core.BlockChain).InsertReceiptChain": true}
		n := 0
		for _, fn := range c.SrcFns {
			for _, s := range callSites(fn, `^Value\.Store$`) {
				t := c.termOf(fn, s.Common().Args[0])
				if !strings.HasSuffix(t, ".currentBlock") && !strings.HasSuffix(t, ".currentFastBlock") {
					continue
				}
				n++
				c.Ob("C01-R5", "head marker "+t[strings.LastIndex(t, ".")+1:]+" stored by "+shortFn(fn), c.Position(s.Pos()), allowed[shortFn(fn)], "reviewed head movers: "+strings.Join(keysOf(allowed), ", "))
			}
		}
		// from the import loop the head moves only through WriteBlockWithState (and the nested insertChain for pruned side chains)
		ic := c.Fn("core:(*BlockChain).insertChain2")
		ins := c.Fn("core:(*BlockChain).insert")
		for _, e := range g.out[ic] {
			if e.site == nil || e.isGo {
				continue
			}
			r := g.Reach([]*ssa.Function{e.callee}, ReachOpts{SkipGo: true})
			if _, moves := r[ins]; !moves && e.callee != ins {
				continue
			}
			name := shortFn(e.callee)
			ok := name == "(*core.BlockChain).WriteBlockWithState" || name == "(*core.BlockChain).insertChain" || name == "(*core.BlockChain).insertChain2"
			c.Ob("C01-R5", "insertChain2 can move the head only through WriteBlockWithState: call to "+name, c.Position(e.site.Pos()), ok, "")
		}
		_ = n
	})
	c.Min("C01-R5", 10)

	c.Rule("C01-R6", "block execution never reads fork-choice state (canonical number index, current head)", func() {
		exec := []*ssa.Function{c.Fn("core:(*StateProcessor).Process"), c.Fn("core:(*BlockValidator).ValidateState")}
		reach := g.Reach(exec, ReachOpts{SkipGo: true, Stop: func(f *ssa.Function) bool {
			// logging/metrics helpers are not followed
			return f.Pkg != nil && (strings.HasSuffix(f.Pkg.Pkg.Path(), "/common/log") || strings.HasSuffix(f.Pkg.Pkg.Path(), "/common/metrics"))
		}})
		forbidden := []string{"core:GetCanonicalHash", "core:(*BlockChain).GetBlockByNumber", "core:(*BlockChain).GetHeaderByNumber", "core:(*HeaderChain).GetHeaderByNumber",
			"core:(*BlockChain).CurrentBlock", "core:(*BlockChain).CurrentHeader", "core:(*HeaderChain).CurrentHeader", "core:(*BlockChain).CurrentFastBlock", "core:GetHeadBlockHash", "core:GetHeadHeaderHash"}
		for _, spec := range forbidden {
			fn := c.Fn(spec)
			_, hit := reach[fn]
			d := ""
			if hit {
				d = "reachable: " + pathTo(reach, fn)
			}
			c.Ob("C01-R6", "execution does not reach "+shortFn(fn), c.FnPos(fn), !hit, d)
		}
		// BLOCKHASH resolves by walking parent hashes from the executing header
		gh := c.Fn("core:GetHashFn")
		var cl *ssa.Function
		for _, a := range gh.AnonFuncs {
			cl = a
		}
		if cl == nil {
			c.Ob("C01-R6", "GetHashFn returns a closure", c.FnPos(gh), false, "")
			return
		}
		var names []string
		for _, s := range callSites(cl, `.`) {
			names = append(names, calleeName(s.Common()))
		}
		okOnly := true
		for _, n := range names {
			if n != "ChainContext.GetHeader" && !strings.HasPrefix(n, "Header.") && !strings.HasPrefix(n, "Int.") {
				okOnly = false
			}
		}
		c.Ob("C01-R6", "GetHashFn walks ancestors with GetHeader(parentHash, number) only", c.FnPos(cl), okOnly && len(names) > 0, strings.Join(names, ", "))
		for _, s := range callSites(cl, `^ChainContext\.GetHeader$`) {
			t := c.termOf(cl, s.Common().Args[0])
			c.Ob("C01-R6", "GetHashFn: ancestor looked up by its parent hash link", c.Position(s.Pos()), strings.Contains(t, "ParentHash"), "GetHeader("+t+", …)")
		}
	})
	c.Min("C01-R6", 12)

	c.Rule("C01-R7", "pruning keeps exactly the referenced states alive: root references are counted per reference and released once per block", func() {
		ref := c.Fn("trie:(*Database).reference")
		fr := c.Facts(ref)
		n := 0
		for _, rs := range fr.AllReturns() {
			n++
			L := rs.State.lits
			_, inc := hasLit(rs.State, mustRe(`^store:Database#0\.nodes\[Hash#0\]#0\.parents=\(Database#0\.nodes\[Hash#0\]#0\.parents \+ 1\)$`))
			absent := L["!Database#0.nodes[Hash#0]#1"]
			dup := L["Database#0.nodes[Hash#1].children[Hash#0]#1"] && L["Hash#1 != zero(Hash)"]
			c.Ob("C01-R7", "Database.reference counts the reference unless the child is not cached or an inner node already links it (root references always count)", c.Position(rs.Ret.Pos()),
				inc || absent || dup, strings.Join(guardLits(rs.State), "; "))
		}
		c.Ob("C01-R7", "Database.reference return paths found", c.FnPos(ref), n >= 4, fmt.Sprintf("%d", n))
		// WriteBlockWithState: one root reference and one GC-queue entry per block; every queue entry popped for
		// collection is dereferenced exactly with the root reference it stands for
		wbs := c.Fn("core:(*BlockChain).WriteBlockWithState")
		refs := callSites(wbs, `^Database\.Reference$`)
		pushes := callSites(wbs, `^Prque\.Push$`)
		okRef := len(refs) == 1 && c.termOf(wbs, refs[0].Common().Args[2]) == "zero(Hash)"
		okPush := false
		for _, p := range pushes {
			if len(refs) == 1 && c.termOf(wbs, p.Common().Args[1]) == c.termOf(wbs, refs[0].Common().Args[1]) && p.Block() == refs[0].Block() {
				okPush = true
			}
		}
		c.Ob("C01-R7", "WriteBlockWithState references the block's state root from the meta root and queues the same root for collection", c.FnPos(wbs), okRef && okPush,
			fmt.Sprintf("%d Reference sites, %d queue pushes", len(refs), len(pushes)))
		for _, fn := range []*ssa.Function{wbs, c.Fn("core:(*BlockChain).Stop")} {
			for _, d := range callSites(fn, `^Database\.Dereference$`) {
				t := c.termOf(fn, d.Common().Args[1])
				ok := c.termOf(fn, d.Common().Args[2]) == "zero(Hash)" && (strings.Contains(t, ".triegc.Pop()") || strings.Contains(t, ".triegc.PopItem()"))
				c.Ob("C01-R7", shortFn(fn)+": a root is dereferenced (from the meta root) only when popped from the collection queue", c.Position(d.Pos()), ok, "Dereference("+t+", "+c.termOf(fn, d.Common().Args[2])+")")
			}
		}
	})
	c.Min("C01-R7", 7)

	// a rejected block (and any later block) must find the parent state exactly as it was: the cached parent tries are
	// shared structures, so the trie's copy-on-write and canonical-shape discipline is part of this property as well
	c.Borrow("C10", runC10, map[string]string{"C10-R2": "C01-R8", "C10-R3": "C01-R8"})
	// "one result regardless of warm or cold caches": the recent-tries cache of the state database serves only copies
	// that still hash to the requested root (C09-R4), shared here; "a block assembled by the node's own building path is
	// accepted by its own import path": the miner keeps the verifier's uncle bookkeeping and ancestor window (C13-R2)
	c.Borrow("C09", runC09, map[string]string{"C09-R4": "C01-R10"})
	// "only self-consistent blocks are accepted": a known block is skipped, never re-executed from an unvalidated body
	// (ValidateBody returns ErrKnownBlock before it looks at the body) – the known-block rule of C04, shared here
	c.Borrow("C04", runC04, map[string]string{"C04-R6": "C01-R12"})
	c.Borrow("C13", runC13, map[string]string{"C13-R2": "C01-R11"})

	c.Rule("C01-R9", "caches consulted during execution cannot make the result depend on what was imported before", func() {
		n := c.CacheReadThroughRule("C01-R9", map[string]bool{"core/state": true})
		c.Ob("C01-R9", "read-through caches found in package core/state", "", n >= 1, fmt.Sprintf("%d", n))
		// the code-size cache is content addressed: its key is the code hash (second parameter), never the address
		cs := c.Fn("core/state:(*cachingDB).ContractCodeSize")
		for _, call := range callSites(cs, `^Cache\.(Get|Add)$`) {
			k := c.termOf(cs, call.Common().Args[1])
			c.Ob("C01-R9", "cachingDB.ContractCodeSize keys its cache by the code hash (content addressed)", c.Position(call.Pos()), k == "Hash#1", calleeName(call.Common())+"("+k+", ...)")
		}
		cc := c.Fn("core/state:(*cachingDB).ContractCode")
		for _, call := range callSites(cc, `^Database\.Node$`) {
			k := c.termOf(cc, call.Common().Args[1])
			c.Ob("C01-R9", "cachingDB.ContractCode reads the blob stored under the code hash", c.Position(call.Pos()), k == "Hash#1", "Node("+k+")")
		}
	})
	c.Min("C01-R9", 5)
}
