package main

import (
	"fmt"
	"strings"
	"go/types"
	"sort"

	"golang.org/x/tools/go/ssa"
)

// dev: list non-constant indexes into fixed-size arrays in the given packages
func arraysCmd(pkgs []string) {
	c := newCtx("dev", "quick")
	c.Load("./...")
	want := map[string]bool{}
	for _, p := range pkgs {
		want[p] = true
	}
	var out []string
	for _, fn := range c.SrcFns {
		if fn.Pkg == nil || !want[relPkg(fn.Pkg.Pkg.Path())] {
			continue
		}
		f := c.Facts(fn)
		for _, b := range fn.Blocks {
			for _, ins := range b.Instrs {
				var x, idx ssa.Value
				switch i := ins.(type) {
				case *ssa.IndexAddr:
					x, idx = i.X, i.Index
				case *ssa.Index:
					x, idx = i.X, i.Index
				default:
					continue
				}
				t := x.Type().Underlying()
				if p, ok := t.(*types.Pointer); ok {
					t = p.Elem().Underlying()
				}
				arr, ok := t.(*types.Array)
				if !ok {
					continue
				}
				if _, isC := constInt(idx); isC {
					continue
				}
				out = append(out, fmt.Sprintf("%s %s: %s[%s] len %d", c.Position(ins.Pos()), shortFn(fn), f.tr.term(nil, x, 0), f.tr.term(nil, idx, 0), arr.Len()))
			}
		}
	}
	sort.Strings(out)
	for _, l := range out {
		fmt.Println(l)
	}
}

// dev: database key terms per accessor in core/database_util.go
func dbkeysCmd() {
	c := newCtx("dev", "quick")
	c.Load("./...")
	for _, fn := range c.SrcFns {
		if fn.Pkg == nil || relPkg(fn.Pkg.Pkg.Path()) != "core" || !strings.HasSuffix(c.FnPos(fn), "") {
			continue
		}
		if !strings.Contains(c.FnPos(fn), "database_util.go") {
			continue
		}
		for _, cs := range callSites(fn, `\.(Put|Get|Delete|Has)$`) {
			if len(cs.Common().Args) == 0 {
				continue
			}
			k := cs.Common().Args[0]
			if cs.Common().IsInvoke() {
				k = cs.Common().Args[0]
			}
			fmt.Printf("%-28s %-22s %s\n", fn.Name(), calleeName(cs.Common()), c.termOf(fn, k))
		}
	}
}
