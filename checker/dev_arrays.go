package main

import (
	"fmt"
	"go/types"
	"sort"

	"golang.org/x/tools/go/ssa"
)

// dev: list non-constant indexes into fixed-size arrays in the given packages
func arraysCmd(pkgs []string) {
	c := newCtx("dev", "quick")
	c.Load("./...")
	want := map[string]bool{}
	for _, p := range pkgs {
		want[p] = true
	}
	var out []string
	for _, fn := range c.SrcFns {
		if fn.Pkg == nil || !want[relPkg(fn.Pkg.Pkg.Path())] {
			continue
		}
		f := c.Facts(fn)
		for _, b := range fn.Blocks {
			for _, ins := range b.Instrs {
				var x, idx ssa.Value
				switch i := ins.(type) {
				case *ssa.IndexAddr:
					x, idx = i.X, i.Index
				case *ssa.Index:
					x, idx = i.X, i.Index
				default:
					continue
				}
				t := x.Type().Underlying()
				if p, ok := t.(*types.Pointer); ok {
					t = p.Elem().Underlying()
				}
				arr, ok := t.(*types.Array)
				if !ok {
					continue
				}
				if _, isC := constInt(idx); isC {
					continue
				}
				out = append(out, fmt.Sprintf("%s %s: %s[%s] len %d", c.Position(ins.Pos()), shortFn(fn), f.tr.term(nil, x, 0), f.tr.term(nil, idx, 0), arr.Len()))
			}
		}
	}
	sort.Strings(out)
	for _, l := range out {
		fmt.Println(l)
	}
}
