package main

import (
	"fmt"
	"sort"

	"golang.org/x/tools/go/ssa"
)

// reachablePanics lists functions containing an explicit panic() reachable (synchronously) from roots.
func reachablePanics(c *Ctx, roots []*ssa.Function, stop func(*ssa.Function) bool) map[string]string {
	g := c.CG()
	reach := g.Reach(roots, ReachOpts{SkipGo: false, Stop: stop})
	out := map[string]string{}
	for fn := range reach {
		if fn.Pkg == nil {
			continue
		}
		for _, b := range fn.Blocks {
			for _, ins := range b.Instrs {
				if _, ok := ins.(*ssa.Panic); ok {
					out[shortFn(fn)] = pathTo(reach, fn)
				}
			}
		}
	}
	return out
}

func devPanics(c *Ctx, specs []string) {
	var roots []*ssa.Function
	for _, s := range specs {
		roots = append(roots, c.Fn(s))
	}
	m := reachablePanics(c, roots, nil)
	var ks []string
	for k := range m {
		ks = append(ks, k)
	}
	sort.Strings(ks)
	for _, k := range ks {
		fmt.Println(k, "   <=", m[k])
	}
	fmt.Println(len(ks))
}
