package main

import (
	"fmt"
	"go/token"
	"regexp"
	"strings"

	"golang.org/x/tools/go/ssa"
)

// C03 The canonical index describes exactly the chain that ends at the head.

func init() { register("C03", []string{"./..."}, runC03) }

// phiInitStep returns the rendered initial and step values of the loop variable phi named `name` in fn.
func phiInitStep(c *Ctx, fn *ssa.Function, name string) (init, step string, ok bool) {
	for _, b := range fn.Blocks {
		for _, ins := range b.Instrs {
			p, isPhi := ins.(*ssa.Phi)
			if !isPhi || p.Comment != name || len(p.Edges) != 2 {
				continue
			}
			f := c.Facts(fn)
			a, bb := f.tr.term(nil, p.Edges[0], 0), f.tr.term(nil, p.Edges[1], 0)
			self := f.tr.term(nil, p, 0)
			if strings.Contains(bb, self) {
				return a, bb, true
			}
			if strings.Contains(a, self) {
				return bb, a, true
			}
		}
	}
	return "", "", false
}

// phiInitStepOf: initial value and step expression of a two-edge loop phi (identified by the caller through its role).
func phiInitStepOf(c *Ctx, fn *ssa.Function, p *ssa.Phi) (init, step string, ok bool) {
	if p == nil || len(p.Edges) != 2 {
		return "", "", false
	}
	f := c.Facts(fn)
	a, bb := f.tr.term(nil, p.Edges[0], 0), f.tr.term(nil, p.Edges[1], 0)
	self := f.tr.term(nil, p, 0)
	if strings.Contains(bb, self) {
		return a, bb, true
	}
	if strings.Contains(a, self) {
		return bb, a, true
	}
	return "", "", false
}

// indexPhiOf: the loop phi used (possibly inside arithmetic) as the index of v = X[idx] / &X[idx].
func indexPhiOf(v ssa.Value) *ssa.Phi {
	_, idx := indexBase(v)
	if idx == nil {
		if ia, ok := v.(*ssa.IndexAddr); ok {
			idx = ia.Index
		}
	}
	var find func(x ssa.Value, d int) *ssa.Phi
	find = func(x ssa.Value, d int) *ssa.Phi {
		if d > 4 || x == nil {
			return nil
		}
		switch y := x.(type) {
		case *ssa.Phi:
			return y
		case *ssa.BinOp:
			if p := find(y.X, d+1); p != nil {
				return p
			}
			return find(y.Y, d+1)
		case *ssa.Convert:
			return find(y.X, d+1)
		}
		return nil
	}
	return find(idx, 0)
}

func runC03(c *Ctx) {
	c.Explanation = "Value-flow, ordering and sibling-agreement rules for the canonical index: BlockChain.insert and HeaderChain.WriteHeader write the canonical number entry, the head pointer and the in-memory head for one and the same block/header; reorg inserts every block of the new chain oldest-first together with its transaction lookup entries and deletes exactly the lookup entries of TxDifference(all dropped, all added); every function that can make a lower block the head (reorg, WriteHeader, HeaderChain.SetHead) clears the number entries above the new head with an unbounded upward loop starting at head+1 (sibling agreement; finding F5 was the missing loop in reorg); rewinds delete header, TD and number of every unwound height and re-derive the head pointers; a block written with state always has its body and receipts written and, when canonical, its lookup entries. Decides these shapes on all paths; exactness of the index over arbitrary histories is not decided."
	c.NotDecided = []string{"the full iff for transaction lookups and number entries over arbitrary import/reorg/rewind histories", "retrievability of data written by earlier sessions"}
	c.Assumptions = []string{"database_util accessors read/write the key they are named after"}

	c.Rule("C03-R1", "index, head pointer and in-memory head name the same block", func() {
		in := c.Fn("core:(*BlockChain).insert")
		var st []*pstate
		f := c.Facts(in)
		for _, rs := range f.AllReturns() {
			st = append(st, rs.State)
		}
		c.mustStates("C03-R1", in, "return", st, []LitReq{
			{Name: "number -> hash entry of the block", Re: `^called:core\.WriteCanonicalHash\(BlockChain#0\.db, Block#0\.Hash\(\), Block#0\.NumberU64\(\)\)$`},
			{Name: "head block pointer of the block", Re: `^called:core\.WriteHeadBlockHash\(BlockChain#0\.db, Block#0\.Hash\(\)\)$`},
			{Name: "in-memory head is the block", Re: `^called:BlockChain#0\.currentBlock\.Store\(Block#0\)$`},
			{Name: "header head and fast head follow when the block was not canonical before", Unless: `^core\.GetCanonicalHash\(BlockChain#0\.db, Block#0\.NumberU64\(\)\) == Block#0\.Hash\(\)$`,
				Re: `^called:BlockChain#0\.hc\.SetCurrentHeader\(Block#0\.Header\(\)\)$`},
		})
		wh := c.Fn("core:(*HeaderChain).WriteHeader")
		fw := c.Facts(wh)
		var can []*pstate
		for _, rs := range fw.AcceptingReturns(-1, false) {
			if _, moved := hasLit(rs.State, mustRe(`^called:HeaderChain#0\.currentHeader\.Store\(`)); moved {
				can = append(can, rs.State)
			}
		}
		c.mustStates("C03-R1", wh, "canonical return", can, []LitReq{
			{Name: "number -> hash entry of the header", Re: `^called:core\.WriteCanonicalHash\(HeaderChain#0\.chainDb, Header#0\.Hash\(\), Header#0\.Number\.Uint64\(\)\)$`},
			{Name: "head header pointer of the header", Re: `^called:core\.WriteHeadHeaderHash\(HeaderChain#0\.chainDb, Header#0\.Hash\(\)\)$`},
			{Name: "in-memory head header is a copy of the header", Re: `^called:HeaderChain#0\.currentHeader\.Store\(types\.CopyHeader\(Header#0\)\)$`},
		})
		c.storeIs("C03-R1", wh, "currentHeaderHash", `^Header#0\.Hash\(\)$`, "currentHeaderHash = header hash")
	})
	c.Min("C03-R1", 8)

	c.Rule("C03-R1b", "read-through caches in front of the chain database hold only what was loaded, under the key it was asked for", func() {
		n := c.CacheReadThroughRule("C03-R1b", map[string]bool{"core": true})
		c.Ob("C03-R1b", "read-through caches found in package core", "", n >= 5, fmt.Sprintf("%d functions that look up and fill an lru cache", n))
	})
	c.Min("C03-R1b", 6)

	c.Rule("C03-R2", "reorg bookkeeping: new chain inserted oldest-first with lookups; dropped-minus-added lookups deleted", func() {
		rg := c.Fn("core:(*BlockChain).reorg")
		f := c.Facts(rg)
		vc := newValueClasses(rg)
		// classify the accumulators by what flows into them (no variable names): blocks rooted at the old-head
		// parameter (#1) or the new-head parameter (#2), and transactions of such blocks
		const oldP, newP = 1, 2
		var newBlocksAcc ssa.Value     // slice accumulating blocks of the new branch
		var dropped, added []ssa.Value // append results accumulating transactions of old / new blocks
		nDropSites := 0
		for _, s := range callSites(rg, `^append$`) {
			call, isCall := s.(*ssa.Call)
			if !isCall || len(call.Call.Args) < 2 {
				continue
			}
			arg := stripConvAll(call.Call.Args[1])
			// append(blocks, X) is lowered to a one-element slice literal: look through it
			if sl, isSl := arg.(*ssa.Slice); isSl {
				if al, isAl := sl.X.(*ssa.Alloc); isAl {
					for _, st := range storesInto(rg, al) {
						if paramIndex(rootParam(st)) == newP {
							newBlocksAcc = call
						}
					}
				}
			}
			if recv := methodRecv(arg, "Transactions"); recv != nil {
				if paramIndex(rootParam(recv)) == oldP {
					dropped = append(dropped, call)
					nDropSites++
				} else if base, _ := indexBase(recv); base != nil && newBlocksAcc != nil && vc.same(base, newBlocksAcc) {
					added = append(added, call)
				} else if paramIndex(rootParam(recv)) == newP {
					added = append(added, call)
				}
			}
		}
		inClass := func(v ssa.Value, set []ssa.Value) bool {
			for _, x := range set {
				if vc.same(v, x) {
					return true
				}
			}
			return false
		}
		// the added transactions cover the whole new branch: they are collected in the insert loop (which visits every new
		// block), not in one of the walk loops (the lock-step walk misses the blocks above the old head's height)
		if len(added) == 1 {
			okCover, whyCover := false, "the new-branch transactions are not collected in the loop that inserts the new chain"
			var insSite ssa.CallInstruction
			for _, s0 := range callSites(rg, `^BlockChain\.insert$`) {
				insSite = s0
			}
			if ai, isI := added[0].(ssa.Instruction); isI && insSite != nil {
				if p0, isPhi := indexPhiOfArg(insSite.Common().Args[1]); isPhi {
					h := p0.Block()
					if h.Dominates(ai.Block()) && (ai.Block() == h || reaches(ai.Block(), h, nil)) {
						okCover, whyCover = true, ""
					}
				}
			}
			c.Ob("C03-R2", "reorg: the added transactions are collected for every block of the new chain (in the insert loop)", c.FnPos(rg), okCover, whyCover)
		}
		c.Ob("C03-R2", "reorg: dropped transactions are collected in both walk loops and added ones in the insert loop", c.FnPos(rg),
			nDropSites == 2 && len(added) == 1 && newBlocksAcc != nil, fmt.Sprintf("%d sites appending old-branch transactions, %d appending new-branch transactions", nDropSites, len(added)))
		var ins, lk ssa.CallInstruction
		for _, s := range callSites(rg, `^BlockChain\.insert$`) {
			ins = s
		}
		for _, s := range callSites(rg, `^core\.WriteTxLookupEntries$`) {
			lk = s
		}
		good := ins != nil && lk != nil && newBlocksAcc != nil
		d := ""
		okOrder := false
		if good {
			ia, ib := ins.Common().Args[1], lk.Common().Args[1]
			ba, xa := indexBase(ia)
			bb, xb := indexBase(ib)
			good = ba != nil && bb != nil && vc.same(ba, newBlocksAcc) && vc.same(bb, newBlocksAcc) && xa == xb && ins.Block() == lk.Block() && instrDominates(ins, lk)
			d = "insert(" + f.tr.term(nil, ia, 0) + "); WriteTxLookupEntries(db, " + f.tr.term(nil, ib, 0) + ")"
			// iteration order: the index starts at len(newChain)-1 and steps down by one
			if p, isPhi := xa.(*ssa.Phi); isPhi && len(p.Edges) == 2 {
				self := f.tr.term(nil, p, 0)
				for k := 0; k < 2; k++ {
					init, step := p.Edges[k], f.tr.term(nil, p.Edges[1-k], 0)
					if bo, isB := init.(*ssa.BinOp); isB && bo.Op == token.SUB && step == "("+self+" - 1)" {
						if ln, isLen := bo.X.(*ssa.Call); isLen && calleeName(&ln.Call) == "len" && vc.same(ln.Call.Args[0], newBlocksAcc) {
							if k1, isC := constInt(bo.Y); isC && k1 == 1 {
								okOrder = true
							}
						}
					}
				}
			}
		}
		if good {
			if p, isPhi := indexPhiOfArg(ins.Common().Args[1]); isPhi {
				okExit, why := loopExitsAfter(p.Block(), ins)
				if !okExit {
					good = false
					d += "; " + why
				}
			} else {
				good = false
				d += "; insert's argument is not indexed by the loop variable"
			}
		}
		c.Ob("C03-R2", "reorg: each new-chain block (the new head included) is inserted and its lookup entries written in the same iteration; the loop is left early only after the insert", c.FnPos(rg), good, d)
		c.Ob("C03-R2", "reorg: the new chain is applied oldest block first (index from len-1 down)", c.FnPos(rg), okOrder, "")
		for _, s := range callSites(rg, `^core\.DeleteTxLookupEntry$`) {
			t := f.tr.term(nil, s.Common().Args[1], 0)
			ok := false
			// Hash() of an element of TxDifference(dropped accumulator, added accumulator)
			if recv := methodRecv(s.Common().Args[1], "Hash"); recv != nil {
				el := recv
				if base, _ := indexBase(el); base != nil {
					el = base
				}
				for _, l := range phiLeaves(el) {
					if base, _ := indexBase(l); base != nil {
						l = base
					}
					if call, isCall := l.(*ssa.Call); isCall && calleeName(&call.Call) == "types.TxDifference" {
						ok = inClass(call.Call.Args[0], dropped) && inClass(call.Call.Args[1], added)
					}
				}
			}
			if !ok {
				// range over the difference: the element comes from a Range/Next or an index into the call result
				ok = mustRe(`^types\.TxDifference\(`+PH+`, `+PH+`\)\[.*\]\.Hash\(\)$`).MatchString(t) && c03DiffArgs(rg, vc, dropped, added)
			}
			c.Ob("C03-R2", "reorg: deleted lookup entries are those of TxDifference(dropped, added)", c.Position(s.Pos()), ok, "DeleteTxLookupEntry(db, "+t+")")
		}
		// the deletion is unconditional for every element of the difference
		c.MustLoopBack("C03-R2", rg, `^core\.DeleteTxLookupEntry$`, []LitReq{
			{Name: "every transaction of the difference has its lookup entry deleted (no element is skipped)", Re: `^call:core\.DeleteTxLookupEntry$`},
		})
		if len(callSites(rg, `^core\.DeleteTxLookupEntry$`)) != 1 {
			c.Ob("C03-R2", "reorg has one DeleteTxLookupEntry site", c.FnPos(rg), false, "")
		}
	})
	c.Min("C03-R2", 5)

	c.Rule("C03-R3", "sibling agreement: whoever can lower the head clears the number entries above it", func() {
		type sib struct{ spec, db, start string }
		for _, s := range []sib{
			{"core:(*BlockChain).reorg", `BlockChain#0\.db`, `^\(BlockChain#0\.CurrentBlock\(\)\.NumberU64\(\) \+ 1\)$`},
			{"core:(*HeaderChain).WriteHeader", `HeaderChain#0\.chainDb`, `^\(Header#0\.Number\.Uint64\(\) \+ 1\)$`},
		} {
			fn := c.Fn(s.spec)
			f := c.Facts(fn)
			dels := callSites(fn, `^core\.DeleteCanonicalHash$`)
			if len(dels) != 1 {
				c.Ob("C03-R3", shortFn(fn)+": has the stale-number deletion loop", c.FnPos(fn), false, fmt.Sprintf("%d DeleteCanonicalHash sites", len(dels)))
				continue
			}
			idx := dels[0].Common().Args[1]
			p, isPhi := idx.(*ssa.Phi)
			okLoop := false
			d := ""
			if isPhi && len(p.Edges) == 2 {
				a, b := f.tr.term(nil, p.Edges[0], 0), f.tr.term(nil, p.Edges[1], 0)
				self := f.tr.term(nil, p, 0)
				okLoop = mustRe(s.start).MatchString(a) && b == "("+self+" + 1)"
				d = "i := " + a + "; step " + b
			}
			c.Ob("C03-R3", shortFn(fn)+": deletion loop starts at new head + 1 and counts upwards", c.Position(dels[0].Pos()), okLoop, d)
			// the loop ends only at the first empty slot: every path leaving the loop carries GetCanonicalHash(i) == zero
			self := ""
			if isPhi {
				self = f.tr.term(nil, p, 0)
			}
			lit := `^core\.GetCanonicalHash\(` + s.db + `, ` + strings.ReplaceAll(strings.ReplaceAll(self, "(", `\(`), ")", `\)`) + `\) == zero\(Hash\)$`
			// states right after the loop: use the first instruction that is dominated by the loop exit: the next call site after the deletion in source order
			var after ssa.CallInstruction
			for _, cs := range callSites(fn, `.`) {
				if cs.Pos() > dels[0].Pos() && !instrDominates(dels[0], cs) && cs.Block() != dels[0].Block() && reaches(p.Block(), cs.Block(), nil) && !reaches(cs.Block(), p.Block(), nil) {
					if after == nil || cs.Pos() < after.Pos() {
						after = cs
					}
				}
			}
			if after == nil {
				c.Ob("C03-R3", shortFn(fn)+": code after the deletion loop found", c.FnPos(fn), false, "")
				continue
			}
			ok2, w := allHave(f.At(after), mustRe(lit))
			c.Ob("C03-R3", shortFn(fn)+": the loop stops only at the first height without a canonical entry (no upper bound)", c.Position(after.Pos()), ok2, w)
			// the canonical writes of this function are on paths that ran the loop
			if strings.HasSuffix(s.spec, "reorg") {
				okAfter := false
				for _, is := range callSites(fn, `^BlockChain\.insert$`) {
					okAfter = reaches(is.Block(), dels[0].Block(), nil) && !reaches(dels[0].Block(), is.Block(), nil)
				}
				c.Ob("C03-R3", shortFn(fn)+": stale numbers are cleared after the new chain was inserted (relative to the new head)", c.Position(dels[0].Pos()), okAfter, "")
			}
		}
		sh := c.Fn("core:(*HeaderChain).SetHead")
		f := c.Facts(sh)
		dels := callSites(sh, `^core\.DeleteCanonicalHash$`)
		okS := false
		d := ""
		if len(dels) == 1 {
			if p, ok := dels[0].Common().Args[1].(*ssa.Phi); ok && len(p.Edges) == 2 {
				a, b := f.tr.term(nil, p.Edges[0], 0), f.tr.term(nil, p.Edges[1], 0)
				// the loop variable starts at the old height (a value computed before the unwind loop) and steps down by one
				_, startsAtPhi := p.Edges[0].(*ssa.Phi)
				okS = (startsAtPhi || strings.Contains(a, ".Number.Uint64()")) && b == "("+f.tr.term(nil, p, 0)+" - 1)"
				d = "i := " + a + "; step " + b
				_, lit := allHave(f.At(dels[0]), mustRe(`^`+regexp.QuoteMeta(f.tr.term(nil, p, 0))+` > uint64#0$`))
				d += "; guard " + lit
			}
		}
		c.Ob("C03-R3", "HeaderChain.SetHead deletes the number entries from the old height down to head+1", c.FnPos(sh), okS, d)
		// WriteHeader re-points the stale assignments below the new header by walking its ancestors downwards; the walk
		// ends only at a height already mapped to the walked ancestor (an unassigned height in between is a gap to fill,
		// not the end: header chains overtake total difficulty several heights above the old head)
		wh := c.Fn("core:(*HeaderChain).WriteHeader")
		c.MustBefore("C03-R3", wh, `^core\.WriteHeadHeaderHash$`, 1, []LitReq{
			{Name: "the ancestor walk ends only where the number already maps to the walked ancestor", Re: `^core\.GetCanonicalHash\(HeaderChain#0\.chainDb, ` + PH + `\) == ` + PH + `$`},
		})
		for _, s := range callSites(wh, `^core\.WriteCanonicalHash$`) {
			a := s.Common().Args
			ph, isPhi := stripConvAll(a[1]).(*ssa.Phi)
			if !isPhi {
				continue // the header's own entry (C03-R1)
			}
			pn, _ := stripConvAll(a[2]).(*ssa.Phi)
			ih, sh, ok1 := phiEntryBack(c, wh, ph)
			in, sn, ok2 := phiEntryBack(c, wh, pn)
			ok := ok1 && ok2 && ih == "Header#0.ParentHash" && in == "(Header#0.Number.Uint64() - 1)" && strings.HasSuffix(sh, ".ParentHash") && strings.HasSuffix(sn, ".Number.Uint64() - 1)")
			c.Ob("C03-R3", "WriteHeader: the walk starts at the parent and steps to (ParentHash, Number-1) of the walked header", c.Position(s.Pos()), ok, fmt.Sprintf("hash: %s -> %s; number: %s -> %s", ih, sh, in, sn))
		}
	})
	c.Min("C03-R3", 8)

	c.Rule("C03-R4", "rewind deletes header, TD and number of every unwound height and re-derives the head pointers", func() {
		sh := c.Fn("core:(*HeaderChain).SetHead")
		c.MustLoopBack("C03-R4", sh, `^core\.DeleteHeader$`, []LitReq{
			{Name: "only headers above the target are unwound", OnePhi: true, Re: `^` + PH + `\.Number\.Uint64\(\) > uint64#0$`},
			{Name: "header deleted", OnePhi: true, Re: `^called:core\.DeleteHeader\(HeaderChain#0\.chainDb, ` + PH + `\.Hash\(\), ` + PH + `\.Number\.Uint64\(\)\)$`},
			{Name: "total difficulty deleted", OnePhi: true, Re: `^called:core\.DeleteTd\(HeaderChain#0\.chainDb, ` + PH + `\.Hash\(\), ` + PH + `\.Number\.Uint64\(\)\)$`},
			{Name: "head steps to the parent", OnePhi: true, Re: `^called:HeaderChain#0\.currentHeader\.Store\(HeaderChain#0\.GetHeader\(` + PH + `\.ParentHash, \(` + PH + `\.Number\.Uint64\(\) - 1\)\)\)$`},
		})
		f := c.Facts(sh)
		var rs []*pstate
		for _, r := range f.AllReturns() {
			rs = append(rs, r.State)
		}
		c.mustStates("C03-R4", sh, "return", rs, []LitReq{
			{Name: "head header pointer rewritten", Re: `^called:core\.WriteHeadHeaderHash\(HeaderChain#0\.chainDb, HeaderChain#0\.currentHeaderHash\)$`},
		})
		bs := c.Fn("core:(*BlockChain).SetHead")
		fb := c.Facts(bs)
		var bsr []*pstate
		for _, r := range fb.AllReturns() {
			bsr = append(bsr, r.State)
		}
		c.mustStates("C03-R4", bs, "return", bsr, []LitReq{
			{Name: "header chain rewound with a body-deleting callback", Re: `^called:BlockChain#0\.hc\.SetHead\(uint64#0, closure:`},
			{Name: "head block pointer rewritten from the in-memory head", Re: `^called:core\.WriteHeadBlockHash\(BlockChain#0\.db, BlockChain#0\.CurrentBlock\(\)\.Hash\(\)\)$`},
			{Name: "head fast-block pointer rewritten", Re: `^called:core\.WriteHeadFastBlockHash\(BlockChain#0\.db, BlockChain#0\.CurrentFastBlock\(\)\.Hash\(\)\)$`},
			{Name: "state reloaded from disk", Re: `^called:BlockChain#0\.loadLastState\(\)$`},
		})
		// the callback that removes an unwound block: its transactions stop resolving (lookup entries deleted while
		// the body can still be read) and the body is deleted, for every unwound block
		var delFn *ssa.Function
		for _, a := range bs.AnonFuncs {
			if len(callSites(a, `^core\.DeleteBody$`)) > 0 {
				delFn = a
			}
		}
		if delFn == nil {
			c.Ob("C03-R4", "BlockChain.SetHead passes a callback that deletes block bodies", c.FnPos(bs), false, "")
		} else {
			fd := c.Facts(delFn)
			var all, withBody []*pstate
			for _, r := range fd.AllReturns() {
				all = append(all, r.State)
				if _, has := hasLit(r.State, mustRe(`^core\.GetBody\w*\(.*\) != nil$`)); has {
					withBody = append(withBody, r.State)
				}
			}
			c.mustStates("C03-R4", delFn, "return", all, []LitReq{
				{Name: "the unwound block's body is deleted", Re: `^called:core\.DeleteBody\(fv:[\w#]+\.db, Hash#0, uint64#0\)$`},
			})
			c.mustStates("C03-R4", delFn, "return with a stored body", withBody, []LitReq{
				{Name: "the loop over the unwound block's transactions ran to completion", Re: `^\(phi:rangeindex(~\d+)? \+ 1\) >= len\(core\.GetBody\w*\(.*\)\.Transactions\)$`},
			})
			c.MustLoopBack("C03-R4", delFn, `^core\.DeleteTxLookupEntry$`, []LitReq{
				{Name: "every transaction of an unwound block loses its lookup entry", Re: `^called:core\.DeleteTxLookupEntry\(fv:[\w#]+\.db, core\.GetBody\w*\(.*\)\.Transactions\[.*\]\.Hash\(\)\)$`},
			})
			okOrd := false
			gets, dels := callSites(delFn, `^core\.GetBody\w*$`), callSites(delFn, `^core\.DeleteBody$`)
			if len(gets) == 1 && len(dels) == 1 {
				okOrd = instrDominates(gets[0], dels[0])
			}
			c.Ob("C03-R4", "the body is read before it is deleted", c.FnPos(delFn), okOrd, "")
		}
	})
	c.Min("C03-R4", 13)

	c.Rule("C03-R5", "a block written with state always has body and receipts written; canonical blocks get lookup entries", func() {
		wbs := c.Fn("core:(*BlockChain).WriteBlockWithState")
		batch := `BlockChain#0\.db\.NewBatch\(\)`
		ff := c.FactsFocus(wbs, `WriteBlock|WriteBlockReceipts|WriteTxLookupEntries|WriteTd|\.Write\(\)|status|CanonStatTy|== nil$|!= nil$|^nil [!=]=|\.insert\(`, false)
		var acc []*pstate
		for _, rs := range ff.AcceptingReturns(-1, false) {
			acc = append(acc, rs.State)
		}
		c.mustStates("C03-R5", wbs, "accepting return", acc, []LitReq{
			{Name: "block (header and body) written unconditionally", Re: `^core\.WriteBlock\(` + batch + `, Block#0\) == nil$`},
			{Name: "receipts written unconditionally", Re: `^core\.WriteBlockReceipts\(` + batch + `, Block#0\.Hash\(\), Block#0\.NumberU64\(\), \[\]Receipt#0\) == nil$`},
			{Name: "total difficulty written", Re: `^BlockChain#0\.hc\.WriteTd\(.*\) == nil$`},
			{Name: "batch flushed", Re: `^` + batch + `\.Write\(\) == nil$`},
		})
		var ins []*pstate
		for _, s := range ff.Calls(mustRe(`^BlockChain\.insert$`)) {
			ins = append(ins, ff.At(s)...)
		}
		c.mustStates("C03-R5", wbs, "call of insert", ins, []LitReq{
			{Name: "a block that becomes head has its transaction lookup entries written", Re: `^core\.WriteTxLookupEntries\(` + batch + `, Block#0\) == nil$`},
		})
		// and only such a block: a side block's transactions must not resolve (or re-point a transaction that is also
		// mined canonically) – on every accepting path that wrote lookup entries the block is then made head
		lkRe := mustRe(`^core\.WriteTxLookupEntries\(` + batch + `, Block#0\) == nil$`)
		nlk, okOnly := 0, true
		for _, st := range acc {
			if _, has := hasLit(st, lkRe); has {
				nlk++
				if !st.lits["called:BlockChain#0.insert(Block#0)"] {
					okOnly = false
				}
			}
		}
		c.Ob("C03-R5", "WriteBlockWithState writes lookup entries only for a block it then makes head", c.FnPos(wbs), okOnly && nlk > 0, fmt.Sprintf("%d accepting path states wrote lookup entries", nlk))
	})
	c.Min("C03-R5", 5)

	c.Rule("C03-R6", "what is stored for a block can be read back: the storage and wire codecs of receipts, logs and blocks are symmetric", func() {
		for _, p := range [][3]string{
			{"receiptStorageRLP", "(*ReceiptForStorage).EncodeRLP", "(*ReceiptForStorage).DecodeRLP"},
			{"receiptRLP", "(*Receipt).EncodeRLP", "(*Receipt).DecodeRLP"},
			{"rlpLog", "(*Log).EncodeRLP", "(*Log).DecodeRLP"},
			{"rlpStorageLog", "(*LogForStorage).EncodeRLP", "(*LogForStorage).DecodeRLP"},
			{"extblock", "(*Block).EncodeRLP", "(*Block).DecodeRLP"},
			{"storageblock", "", "(*StorageBlock).DecodeRLP"},
		} {
			c.CodecSymmetryRule("C03-R6", "core/types", p[0], p[1], p[2])
		}
	})
	c.Min("C03-R6", 10)

	c.Rule("C03-R7", "the chain database accessors agree on their keys: per entity, Get reads and Delete removes exactly what Write stores", func() {
		n := c.DBKeyAgreementRule("C03-R7")
		c.Ob("C03-R7", "database entity families found", "", n >= 10, fmt.Sprintf("%d", n))
		// the one-letter table prefixes are pairwise different (two tables under one prefix would overwrite each other)
		seen := map[string]string{}
		okP, dP := true, ""
		for _, v := range []string{"headerPrefix", "blockHashPrefix", "bodyPrefix", "blockReceiptsPrefix", "lookupPrefix", "bloomBitsPrefix"} {
			init := c18InitCall(c, "core", v)
			if prev, dup := seen[init]; dup || init == "" {
				okP, dP = false, v+" and "+prev+" share the initialiser "+init
			}
			seen[init] = v
			c.GlobalNeverReassigned("C03-R7", "core:"+v)
		}
		sfx := map[string]bool{c18InitCall(c, "core", "tdSuffix"): true, c18InitCall(c, "core", "numSuffix"): true}
		c.Ob("C03-R7", "table prefixes (h, H, b, r, l, B) and the t/n suffixes are pairwise distinct", "", okP && len(sfx) == 2, dP)
	})
	c.Min("C03-R7", 14)

	c.Rule("C03-R9", "the legacy de-duplication pass deletes a row keyed by a hash starting with 'l' only when that hash names a live transaction", func() {
		if c.FnOpt("aqua:upgradeDeduplicateData") == nil {
			// the legacy pass was removed altogether: nothing rewrites rows behind the accessors' back
			c.Ob("C03-R9", "legacy de-duplication pass absent (nothing to decide)", "", true, "aqua.upgradeDeduplicateData does not exist")
			return
		}
		up := c.FnOpt("aqua:upgradeDeduplicateData$1")
		if up == nil {
			c.Ob("C03-R9", "legacy de-duplication goroutine found", "", false, "aqua:upgradeDeduplicateData$1 not found")
			return
		}
		// `hash` is the first 32 bytes of the iterated key; a 33-byte key <hash>0x01 whose hash starts with 'l' may be a
		// new-format lookup row of a transaction whose hash ends in 0x01 – it is rewritten/deleted only when the
		// candidate hash resolves to a stored transaction that hashes to it
		unlessNotL := `^108 != .*\.Key\(\)\[:32\]\[0\]$`
		for _, callRe := range []string{`\.Delete$`, `\.Put$`} {
			min := 3
			if callRe == `\.Put$` {
				min = 1
			}
			var sites []ssa.CallInstruction
			for _, s := range c.Facts(up).Calls(mustRe(callRe)) {
				// the completion marker is written after the loop (constant key): not a row operation
				if len(s.Common().Args) > 0 && strings.Contains(c.Facts(up).tr.term(nil, s.Common().Args[0], 0), "Key()") {
					sites = append(sites, s)
				}
			}
			var states []*pstate
			for _, s := range sites {
				states = append(states, c.Facts(up).At(s)...)
			}
			c.Ob("C03-R9", "row operations "+callRe+" on the iterated key found", c.FnPos(up), len(sites) >= min, fmt.Sprintf("%d sites", len(sites)))
			c.mustStates("C03-R9", up, "row operation "+callRe, states, []LitReq{
				{Name: "an 'l'-prefixed candidate is touched only if it resolves to a stored transaction", Unless: unlessNotL,
					Re: `^nil != core\.GetTransaction\(fv:[\w#]+, common\.BytesToHash\(.*\.Key\(\)\[:32\]\)\)#0$`},
				{Name: "... whose own hash is the candidate", Unless: unlessNotL,
					Re: `^core\.GetTransaction\(fv:[\w#]+, common\.BytesToHash\(.*\.Key\(\)\[:32\]\)\)#0\.Hash\(\)\.Bytes\(\) == .*\.Key\(\)\[:32\]$`},
				{Name: "only keys of the old metadata shape <hash>0x01 are touched", Re: `^1 == .*\.Key\(\)\[32\]$`},
				{Name: "only 33-byte keys are touched", Re: `^33 == len\(.*\.Key\(\)\)$`},
				{Name: "only rows whose value decodes as lookup metadata are touched", Re: `^nil == rlp\.DecodeBytes\(.*\.Value\(\), new\(T\)\)$`},
			})
		}
	})
	if c.FnOpt("aqua:upgradeDeduplicateData") == nil {
		c.Min("C03-R9", 1)
	} else {
		c.Min("C03-R9", 12)
	}
}

// storesInto: values stored into (elements of) the allocation.
func storesInto(fn *ssa.Function, al *ssa.Alloc) []ssa.Value {
	var out []ssa.Value
	for _, b := range fn.Blocks {
		for _, ins := range b.Instrs {
			if st, ok := ins.(*ssa.Store); ok {
				switch a := st.Addr.(type) {
				case *ssa.IndexAddr:
					if a.X == al {
						out = append(out, st.Val)
					}
				case *ssa.Alloc:
					if a == al {
						out = append(out, st.Val)
					}
				}
			}
		}
	}
	return out
}

// c03DiffArgs: every TxDifference call in fn takes (dropped accumulator, added accumulator).
func c03DiffArgs(fn *ssa.Function, vc *valueClasses, dropped, added []ssa.Value) bool {
	in := func(v ssa.Value, set []ssa.Value) bool {
		for _, x := range set {
			if vc.same(v, x) {
				return true
			}
		}
		return false
	}
	n := 0
	for _, s := range callSites(fn, `^types\.TxDifference$`) {
		n++
		if !in(s.Common().Args[0], dropped) || !in(s.Common().Args[1], added) {
			return false
		}
	}
	return n > 0
}

// indexPhiOfArg: the loop phi indexing X[phi] (through the element load).
func indexPhiOfArg(v ssa.Value) (*ssa.Phi, bool) {
	_, idx := indexBase(v)
	p, ok := idx.(*ssa.Phi)
	return p, ok
}

// phiEntryBack: for a two-edge loop phi, the value on the edge entering the loop and the value on the back edge
// (told apart by dominance, so the step need not mention the phi itself).
func phiEntryBack(c *Ctx, fn *ssa.Function, p *ssa.Phi) (entry, back string, ok bool) {
	if p == nil || len(p.Edges) != 2 {
		return "", "", false
	}
	b := p.Block()
	tr := c.Facts(fn).tr
	for i := 0; i < 2; i++ {
		if b.Dominates(b.Preds[i]) && !b.Dominates(b.Preds[1-i]) {
			return tr.term(nil, p.Edges[1-i], 0), tr.term(nil, p.Edges[i], 0), true
		}
	}
	return "", "", false
}
