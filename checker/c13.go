package main

func init() {
	register("C13", []string{"./consensus/aquahash", "./params", "./core", "./core/types"}, func(c *Ctx) {})
}
