package main

import (
	"fmt"
	"golang.org/x/tools/go/ssa"
	"regexp"
	"strings"
)

// C13 Headers and uncles are accepted iff they satisfy the consensus rules.
//
// Decided structurally: every accepting path of the header/uncle verifiers carries each acceptance literal of the
// statement, with operator and constant by value; protocol variables are never reassigned; difficulty dispatch
// clamps and resets with the scheduled constants.

func init() {
	register("C13", []string{"./..."}, runC13)
}

const (
	reHdr = `Header#0`
	rePar = `Header#1`
)

func runC13(c *Ctx) {
	c.Explanation = "Static must-guard analysis (path-sensitive dataflow over go/ssa) of the aquahash header and uncle verifiers: on every path that returns acceptance, each rule of the property statement is present as a normalised branch literal with the right operator and constant; the protocol variables feeding those literals are initialised to the specified values and are never assigned elsewhere in the module; difficulty selection clamps to the fork minimum and resets at fork blocks. Decides the presence and shape of every acceptance guard for all inputs; does not evaluate the numeric difficulty formula or scheduling of the batch verifier."
	c.NotDecided = []string{"numeric value of the difficulty adjustment formula", "batch-vs-sequential agreement under all worker schedules (only the shared verifier and in-order emission shape are checked)"}
	c.Assumptions = []string{"header fields are not mutated between a guard and the accepting return (terms are access paths)", "ModeFullFake (PowMode==4) test engine paths are exempt"}
	c.Trusted = append(c.Trusted, "acceptance-rule table taken from the property statement (C13) and params constants by value")

	c.Rule("C13-R1", "on every accepting path of (*Aquahash).verifyHeader each header acceptance literal holds", func() {
		fn := c.Fn("consensus/aquahash:(*Aquahash).verifyHeader")
		c.MustOnAccept("C13-R1", fn, -1, false, []LitReq{
			{Name: "extra data at most 32 bytes", Re: `^len\(Header#0\.Extra\) <= 32$`},
			{Name: "non-uncle: time not more than allowedFutureBlockTime ahead of the clock", Unless: `^bool#0$`,
				Re: `^Header#0\.Time <= big\.NewInt\(time\.Now\(\)\.Add\(aquahash\.allowedFutureBlockTime\)\.Unix\(\)\)$`},
			{Name: "time strictly later than parent", Re: `^Header#0\.Time > Header#1\.Time$`},
			{Name: "difficulty equals CalcDifficulty(time, parent, grandparent)", Re: `^Header#0\.Difficulty == Aquahash#0\.CalcDifficulty\(ChainReader#0, Header#0\.Time\.Uint64\(\), Header#1, Header#2\)$`},
			{Name: "gas limit <= 2^63-1", Re: `^Header#0\.GasLimit <= 9223372036854775807$`},
			{Name: "gas used <= gas limit", Re: `^Header#0\.GasUsed <= Header#0\.GasLimit$`},
			{Name: "gas limit moved by less than parent/1024 (non-negative delta)", Unless: `^\(Header#1\.GasLimit - Header#0\.GasLimit\) < 0$`,
				Re: `^\(Header#1\.GasLimit - Header#0\.GasLimit\) < \(Header#1\.GasLimit / 1024\)$`},
			{Name: "gas limit moved by less than parent/1024 (negative delta)", Unless: `^\(Header#1\.GasLimit - Header#0\.GasLimit\) >= 0$`,
				Re: `^\(\(Header#1\.GasLimit - Header#0\.GasLimit\) \* -1\) < \(Header#1\.GasLimit / 1024\)$`},
			{Name: "gas limit >= 5000", Re: `^Header#0\.GasLimit >= 5000$`},
			{Name: "number is parent's plus one", Re: `^new\(Int\)\.Sub\(Header#0\.Number, Header#1\.Number\) == big\.NewInt\(1\)$`},
			{Name: "seal requested => VerifySeal succeeded", Unless: `^!bool#1$`, Re: `^Aquahash#0\.VerifySeal\(ChainReader#0, Header#0\) == nil$`},
		})
		c.ConstIs("C13-R1", "consensus/aquahash:allowedFutureBlockTime", "15000000000")
		c.GlobalNeverReassigned("C13-R1", "consensus/aquahash:allowedFutureBlockTime")
		c.ConstIs("C13-R1", "params:MaximumExtraDataSize", "32")
		c.ConstIs("C13-R1", "params:GasLimitBoundDivisor", "1024")
		c.ConstIs("C13-R1", "params:MinGasLimit", "5000")
	})
	c.Min("C13-R1", 16)

	c.Rule("C13-R1b", "every public header verifier funnels into verifyHeader and propagates its verdict", func() {
		vh := c.Fn("consensus/aquahash:(*Aquahash).VerifyHeader")
		c.MustOnAccept("C13-R1b", vh, -1, false, []LitReq{
			{Name: "accepts only what verifyHeader accepts (or a known header / full-fake engine)",
				Unless: `^(Aquahash#0\.config\.PowMode == 4|ChainReader#0\.GetHeader\(Header#0\.Hash\(\), Header#0\.Number\.Uint64\(\)\) != nil)$`,
				Re:     `^Aquahash#0\.verifyHeader\(ChainReader#0, Header#0, ChainReader#0\.GetHeader\(Header#0\.ParentHash, \(Header#0\.Number\.Uint64\(\) - 1\)\), .*, false, bool#0\) == nil$`},
			{Name: "parent must be known", Unless: `^(Aquahash#0\.config\.PowMode == 4|ChainReader#0\.GetHeader\(Header#0\.Hash\(\), Header#0\.Number\.Uint64\(\)\) != nil)$`,
				Re: `^ChainReader#0\.GetHeader\(Header#0\.ParentHash, \(Header#0\.Number\.Uint64\(\) - 1\)\) != nil$`},
		})
		w := c.Fn("consensus/aquahash:(*Aquahash).verifyHeaderWorker")
		c.MustOnAccept("C13-R1b", w, -1, false, []LitReq{
			{Name: "batch worker accepts only what verifyHeader accepts (or a known header)",
				Unless: `^ChainReader#0\.GetHeader\(\[\]Header#0\[int#0\]\.Hash\(\), \[\]Header#0\[int#0\]\.Number\.Uint64\(\)\) != nil$`,
				Re:     `^Aquahash#0\.verifyHeader\(ChainReader#0, \[\]Header#0\[int#0\], .*, false, \[\]bool#0\[int#0\]\) == nil$`},
		})
		// header-first import: the batch verifier takes headers[i-1] as the parent of headers[i]; that is sound only
		// because ValidateHeaderChain first checks both the number and the parent hash link of every adjacent pair
		vhc := c.Fn("core:(*HeaderChain).ValidateHeaderChain")
		prev := `\[\]Header#0\[\((` + PH + `|\(phi:rangeindex(~\d+)? \+ 1\)) - 1\)\]`
		cur := `\[\]Header#0\[(` + PH + `|\(phi:rangeindex(~\d+)? \+ 1\))\]`
		c.MustLoopBack("C13-R1b", vhc, `^Header\.Hash$`, []LitReq{
			{Name: "ValidateHeaderChain: adjacent headers are numbered consecutively", Re: `^` + cur + `\.Number\.Uint64\(\) == \(` + prev + `\.Number\.Uint64\(\) \+ 1\)$`},
			{Name: "ValidateHeaderChain: each header's ParentHash is the hash of its predecessor in the batch", Re: `^` + cur + `\.ParentHash == ` + prev + `\.Hash\(\)$`},
		})
	})
	c.Min("C13-R1b", 3)

	c.Rule("C13-R2", "uncle acceptance literals on every accepting path / loop iteration of VerifyUncles", func() {
		fn := c.Fn("consensus/aquahash:(*Aquahash).VerifyUncles")
		fake := `^Aquahash#0\.config\.PowMode == 4$`
		c.MustOnAccept("C13-R2", fn, -1, false, []LitReq{
			{Name: "at most maxUncles uncles", Unless: fake, Re: `^len\(Block#0\.Uncles\(\)\) <= aquahash\.maxUncles$`},
			{Name: "at most maxUnclesHF5 uncles from HF5", Unless: fake,
				Re: `^(len\(Block#0\.Uncles\(\)\) <= aquahash\.maxUnclesHF5|!ChainReader#0\.Config\(\)\.IsHF\(5, Block#0\.Number\(\)\))$`},
		})
		c.ConstIs("C13-R2", "consensus/aquahash:maxUncles", "2")
		c.ConstIs("C13-R2", "consensus/aquahash:maxUnclesHF5", "1")
		c.GlobalNeverReassigned("C13-R2", "consensus/aquahash:maxUncles")
		c.GlobalNeverReassigned("C13-R2", "consensus/aquahash:maxUnclesHF5")
		// per-uncle rules: at the end of every iteration that continues the loop
		un := `Block#0\.Uncles\(\)\[\(phi:rangeindex(~\d+)? \+ 1\)\]`
		hash := un + `\.SetVersion\(ChainReader#0\.Config\(\)\.GetBlockVersion\(` + un + `\.Number\)\)`
		legacy := `^` + PH + ` <= 15000$` // historical main-net exceptions below block 15000 are consensus, frozen
		c.MustLoopBack("C13-R2", fn, `^Aquahash\.verifyHeader$`, []LitReq{
			{Name: "uncle not seen before (unique)", Unless: legacy, Re: `^!mapset\.NewSet\(nil\)\.Contains\(.*\)$`},
			{Name: "uncle is not an ancestor", Re: `^make\(map\[Hash\]Header\)\[` + hash + `\] == nil$`},
			{Name: "uncle's parent is a recent ancestor", Unless: legacy, Re: `^make\(map\[Hash\]Header\)\[` + un + `\.ParentHash\] != nil$`},
			{Name: "uncle is not a sibling of the block", Unless: legacy, Re: `^` + un + `\.ParentHash != Block#0\.ParentHash\(\)$`},
			{Name: "uncle header individually valid (verifyHeader, uncle=true, seal=true)",
				Re: `^Aquahash#0\.verifyHeader\(ChainReader#0, ` + un + `, .*, true, true\) == nil$`},
		})
		// uniform hashing: every member of the "already included" set is hashed exactly like the candidate that is
		// looked up in it (version from the uncle's own number), or is the block's own hash
		adds := callSites(fn, `^Set\.Add$`)
		uh := regexp.MustCompile(`^(.+)\.SetVersion\(ChainReader#0\.Config\(\)\.GetBlockVersion\((.+)\.Number\)\)$`)
		for _, a := range adds {
			t := c.termOf(fn, a.Common().Args[0])
			m := uh.FindStringSubmatch(t)
			ok := t == "Block#0.Hash()" || (m != nil && m[1] == m[2])
			c.Ob("C13-R2", "VerifyUncles: set member hashed like the looked-up candidate", c.Position(a.Pos()), ok, "added: "+t)
		}
		// sibling: the miner keeps the same "already included" sets while it assembles a block; it must hash their
		// members exactly as the verifier will (version from the uncle's own number), or it re-includes an uncle
		if mc := c.FnOpt("opt/miner:(*worker).makeCurrent"); mc == nil {
			c.Ob("C13-R2", "miner makeCurrent found", "", false, "")
		} else {
			nm := 0
			for _, a := range callSites(mc, `^Set\.Add$`) {
				t := c.termOf(mc, a.Common().Args[0])
				if !strings.Contains(t, ".Uncles()") {
					continue
				}
				nm++
				// SSA identity (rendered terms are depth-elided): X.SetVersion(cfg.GetBlockVersion(X.Number)) for one X
				okSame := false
				if sv, ok := stripConvAll(a.Common().Args[0]).(*ssa.Call); ok && strings.HasSuffix(calleeName(&sv.Call), ".SetVersion") && len(sv.Call.Args) == 2 {
					x := sv.Call.Args[0]
					if gv, ok := stripConvAll(sv.Call.Args[1]).(*ssa.Call); ok && strings.HasSuffix(calleeName(&gv.Call), ".GetBlockVersion") {
						okSame = fieldLoadBase(gv.Call.Args[len(gv.Call.Args)-1], "Number") == x
					}
				}
				c.Ob("C13-R2", "miner: uncles of recent ancestors are remembered under the hash the verifier computes (version of the uncle's own height)", c.Position(a.Pos()), okSame, "added: "+t)
			}
			c.Ob("C13-R2", "miner records the uncles of recent ancestors", c.FnPos(mc), nm >= 1, fmt.Sprintf("%d", nm))
			// the miner looks back exactly as far as the verifier (7 generations): one more and it packs an uncle
			// whose parent the verifier no longer knows, one less is merely conservative
			ws := callSites(mc, `\.GetBlocksFromHash$`)
			for _, w := range ws {
				a := w.Common().Args
				k, isC := constInt(a[len(a)-1])
				c.Ob("C13-R2", "miner: ancestor window for uncle candidates is at most the verifier's 7 generations", c.Position(w.Pos()), isC && k >= 1 && k <= 7, c.termOf(mc, a[len(a)-1]))
			}
			c.Ob("C13-R2", "miner gathers its ancestor window at one site", c.FnPos(mc), len(ws) == 1, fmt.Sprintf("%d", len(ws)))
		}
		if len(adds) < 3 {
			c.Ob("C13-R2", "VerifyUncles: past uncles, block hash and candidates are added to the set", c.FnPos(fn), false, fmt.Sprintf("%d Add sites", len(adds)))
		}
		for _, cs := range callSites(fn, `^Set\.Contains$`) {
			t := c.termOf(fn, cs.Common().Args[0])
			m := regexp.MustCompile(`^\[(.+)\.SetVersion\(ChainReader#0\.Config\(\)\.GetBlockVersion\((.+)\.Number\)\)\]$`).FindStringSubmatch(t)
			c.Ob("C13-R2", "VerifyUncles: duplicate lookup uses the candidate's versioned hash", c.Position(cs.Pos()), m != nil && m[1] == m[2], "looked up: "+t)
		}
		// ancestor window: the ancestor loop is bounded by 7
		c.MustOnAccept("C13-R2", fn, -1, false, []LitReq{
			{Name: "ancestor window is 7 generations", Unless: fake, Re: `^(` + PH + ` >= 7|ChainReader#0\.GetBlock\(` + PH + `, ` + PH + `\) == nil)$`},
		})
	})
	c.Min("C13-R2", 18)

	c.Rule("C13-R3", "difficulty dispatch: general path clamps to the fork minimum; fork blocks reset to scheduled constants; constants by value", func() {
		for spec, want := range map[string]string{
			"params:MinimumDifficultyGenesis": "99999999", "params:MinimumDifficultyHF1": "100001792",
			"params:MinimumDifficultyHF3": "30959185800", "params:MinimumDifficultyHF5": "46039386",
			"params:MinimumDifficultyHF5Testnet": "46039386",
			"params:DifficultyBoundDivisor":      "2048", "params:DifficultyBoundDivisorHF5": "16",
			"params:DifficultyBoundDivisorHF6": "128", "params:DifficultyBoundDivisorHF8": "1024",
			"params:DurationLimit": "240", "params:DurationLimitHF6": "180",
		} {
			c.ConstIs("C13-R3", spec, want)
			c.GlobalNeverReassigned("C13-R3", spec)
		}
		c13Difficulty(c)
	})
	c.Min("C13-R3", 24)

	c.Rule("C13-R4", "batch verification uses the same verifier and emits results in index order (shape only)", func() {
		fn := c.Fn("consensus/aquahash:(*Aquahash).VerifyHeaders")
		n := 0
		for _, cl := range fn.AnonFuncs {
			f := c.Facts(cl)
			if len(f.Calls(mustRe(`^Aquahash\.verifyHeaderWorker$`))) > 0 {
				n++
			}
		}
		c.Ob("C13-R4", "VerifyHeaders workers call verifyHeaderWorker", c.FnPos(fn), n >= 1, "")
	})
}

// c13Difficulty checks the dispatch structure of calcDifficultyHFX against the documented fork schedule.
func c13Difficulty(c *Ctx) {
	fn := c.Fn("consensus/aquahash:calcDifficultyHFX")
	next := `new(Int).Add(Header#0.Number, aquahash.big1)`
	isHF := func(s *pstate, k int) int { // 1 true, -1 false, 0 unknown
		l := fmt.Sprintf("ChainConfig#0.IsHF(%d, %s)", k, next)
		if s.lits[l] {
			return 1
		}
		if s.lits["!"+l] {
			return -1
		}
		return 0
	}
	atBlock := func(s *pstate, k int) int {
		l := fmt.Sprintf("%s == ChainConfig#0.GetHF(%d)", next, k)
		n := fmt.Sprintf("%s != ChainConfig#0.GetHF(%d)", next, k)
		if s.lits[l] {
			return 1
		}
		if s.lits[n] {
			return -1
		}
		return 0
	}
	and := func(a, b int) int {
		if a == -1 || b == -1 {
			return -1
		}
		if a == 1 && b == 1 {
			return 1
		}
		return 0
	}
	// (a) selection tables for min / limit / adjust
	sel := func(name string, order []int, vals map[int]string, def string) {
		// the selected variable is identified by the values it can take (the scheduled constants), not by its name
		f := c.FactsFocus(fn, `^!?ChainConfig#0\.IsHF\(`, true, "type:Int")
		domain := map[string]bool{def: true}
		for _, v := range vals {
			domain[v] = true
		}
		phi := phiByLeaves(c, fn, func(t string) bool { return domain[t] })
		rows := f.PhiTableOf(phi)
		if phi == nil || len(rows) == 0 {
			c.Ob("C13-R3", "calcDifficultyHFX selects "+name+" by fork", c.FnPos(fn), false, "no variable selected among the scheduled "+name+" constants found")
			return
		}
		seen := map[string]bool{}
		for _, r := range rows {
			want := ""
			for _, k := range order {
				v := isHF(r.State, k)
				if v == 1 {
					want = vals[k]
					break
				}
				if v == 0 {
					want = "?"
					break
				}
			}
			if want == "" {
				want = def
			}
			ok := want != "?" && r.Val == want
			seen[want] = true
			c.Ob("C13-R3", fmt.Sprintf("calcDifficultyHFX %s under {%s}", name, strings.Join(guardLits(r.State), ", ")), c.Position(phi.Pos()), ok,
				fmt.Sprintf("selected %s, fork schedule prescribes %s", r.Val, want))
		}
		for _, k := range order {
			if !seen[vals[k]] {
				c.Ob("C13-R3", fmt.Sprintf("calcDifficultyHFX %s has a case for HF%d", name, k), c.FnPos(fn), false, "no path selects "+vals[k])
			}
		}
	}
	sel("min", []int{5, 3, 1}, map[int]string{5: "params.MinimumDifficultyHF5", 3: "params.MinimumDifficultyHF3", 1: "params.MinimumDifficultyHF1"}, "params.MinimumDifficultyGenesis")
	sel("limit", []int{6}, map[int]string{6: "params.DurationLimitHF6"}, "params.DurationLimit")
	div := func(d string) string { return "new(Int)~2.Div(Header#0.Difficulty, params." + d + ")" }
	_ = div
	{
		f := c.FactsFocus(fn, `^!?ChainConfig#0\.IsHF\(`, true, "type:Int")
		adjRe := regexp.MustCompile(`^new\(Int\)(~\d+)?\.Div\(Header#0\.Difficulty, params\.DifficultyBoundDivisor\w*\)$`)
		phi := phiByLeaves(c, fn, func(t string) bool { return adjRe.MatchString(t) })
		rows := f.PhiTableOf(phi)
		if phi == nil {
			c.Ob("C13-R3", "calcDifficultyHFX selects adjust by fork", c.FnPos(fn), false, "no variable selected among parent.Difficulty / DifficultyBoundDivisor* found")
		}
		for _, r := range rows {
			want := "DifficultyBoundDivisor"
			for _, k := range []int{8, 6, 5} {
				v := isHF(r.State, k)
				if v == 1 {
					want = map[int]string{8: "DifficultyBoundDivisorHF8", 6: "DifficultyBoundDivisorHF6", 5: "DifficultyBoundDivisorHF5"}[k]
					break
				}
				if v == 0 {
					want = "?"
					break
				}
			}
			re := regexp.MustCompile(`^new\(Int\)(~\d+)?\.Div\(Header#0\.Difficulty, params\.` + want + `\)$`)
			c.Ob("C13-R3", fmt.Sprintf("calcDifficultyHFX adjust under {%s}", strings.Join(guardLits(r.State), ", ")), c.Position(phi.Pos()), re.MatchString(r.Val),
				fmt.Sprintf("selected %s, fork schedule prescribes parent.Difficulty / params.%s", r.Val, want))
		}
	}
	// (b) clamp on the general path
	{
		f := c.FactsFocus(fn, `^(called:)?new\(Int\)(~\d+)?\.Set\(Header#0\.Difficulty\)(\.Set\(| >= | < )`, true)
		n := 0
		for _, rs := range f.AllReturns() {
			res := f.tr.term(rs.State, rs.Ret.Results[0], 0)
			if !regexp.MustCompile(`^new\(Int\)(~\d+)?\.Set\(Header#0\.Difficulty\)$`).MatchString(res) {
				continue
			}
			n++
			_, ge := hasLit(rs.State, regexp.MustCompile(`^new\(Int\)(~\d+)?\.Set\(Header#0\.Difficulty\) >= `+PH+`$`))
			_, set := hasLit(rs.State, regexp.MustCompile(`^called:new\(Int\)(~\d+)?\.Set\(Header#0\.Difficulty\)\.Set\(`+PH+`\)$`))
			c.Ob("C13-R3", "calcDifficultyHFX general path result is clamped to min", c.Position(rs.Ret.Pos()), ge || set,
				"path literals: "+strings.Join(rs.State.Lits(), "; "))
		}
		if n == 0 {
			c.Ob("C13-R3", "calcDifficultyHFX general path result is clamped to min", c.FnPos(fn), false, "no general-path return found")
		}
	}
	// (c) dispatch decision list (documented schedule): first matching row decides the result
	type row struct {
		name string
		cond func(s *pstate) int
		want string // regexp on the result term
	}
	general := `^new\(Int\)(~\d+)?\.Set\(Header#0\.Difficulty\)$`
	rowsSpec := []row{
		{"fake-difficulty test mode", func(s *pstate) int {
			if s.lits["aquahash.fakedifficultymode"] {
				return 1
			}
			if s.lits["!aquahash.fakedifficultymode"] {
				return -1
			}
			return 0
		}, `^params\.MinimumDifficultyHF5$`},
		{"HF10: grandparent algorithm", func(s *pstate) int { return isHF(s, 10) }, `^aquahash\.calcDifficultyGrandparent\(uint64#0, Header#0, Header#1, ChainConfig#0, ChainConfig#0\.ChainId\.Uint64\(\)\)$`},
		{"HF8 fork block: reset", func(s *pstate) int { return and(isHF(s, 8), atBlock(s, 8)) }, `^params\.MinimumDifficultyHF5$`},
		{"HF6 fork block: general", func(s *pstate) int { return and(isHF(s, 6), atBlock(s, 6)) }, general},
		{"HF7 fork block: general", func(s *pstate) int { return and(isHF(s, 7), atBlock(s, 7)) }, general},
		{"HF5 fork block: reset", func(s *pstate) int { return and(isHF(s, 5), atBlock(s, 5)) }, `^params\.MinimumDifficultyHF5$`},
		{"HF3 fork block: reset", func(s *pstate) int { return and(isHF(s, 3), atBlock(s, 3)) }, `^params\.MinimumDifficultyHF3$`},
		{"HF2 and later: general", func(s *pstate) int { return isHF(s, 2) }, general},
		{"HF1 fork block: reset", func(s *pstate) int { return and(isHF(s, 1), atBlock(s, 1)) }, `^params\.MinimumDifficultyHF1$`},
		{"HF1: modified homestead", func(s *pstate) int { return isHF(s, 1) }, `^aquahash\.calcDifficultyHF1\(uint64#0, Header#0, ChainConfig#0\.ChainId\.Uint64\(\)\)$`},
		{"before HF1: starting algorithm", func(s *pstate) int { return 1 }, `^aquahash\.calcDifficultyStarting\(uint64#0, Header#0, ChainConfig#0\.ChainId\.Uint64\(\)\)$`},
	}
	f := c.FactsFocus(fn, `IsHF\(|GetHF\(|fakedifficultymode`, true)
	hit := map[string]bool{}
	for _, rs := range f.AllReturns() {
		res := f.tr.term(rs.State, rs.Ret.Results[0], 0)
		decided := false
		for _, r := range rowsSpec {
			v := r.cond(rs.State)
			if v == -1 {
				continue
			}
			decided = true
			if v == 0 {
				c.Ob("C13-R3", "calcDifficultyHFX dispatch: return "+res, c.Position(rs.Ret.Pos()), false,
					fmt.Sprintf("cannot decide row %q for this path; literals: %s", r.name, strings.Join(guardLits(rs.State), "; ")))
				break
			}
			hit[r.name] = true
			c.Ob("C13-R3", "calcDifficultyHFX dispatch row "+r.name, c.Position(rs.Ret.Pos()), regexp.MustCompile(r.want).MatchString(res),
				fmt.Sprintf("returns %s; schedule prescribes /%s/; path: %s", res, r.want, strings.Join(guardLits(rs.State), "; ")))
			break
		}
		_ = decided
	}
	for _, r := range rowsSpec {
		if !hit[r.name] {
			c.Ob("C13-R3", "calcDifficultyHFX dispatch row "+r.name+" exists", c.FnPos(fn), false, "no return path matches this row of the fork schedule")
		}
	}
	// (d) the three older algorithms clamp with BigMax on main-net
	main := `^uint64#1 == params\.MainnetChainConfig\.ChainId\.Uint64\(\)$`
	for _, t := range []struct{ fn, min string }{
		{"calcDifficultyStarting", "MinimumDifficultyGenesis"}, {"calcDifficultyHF1", "MinimumDifficultyHF1"},
	} {
		g := c.Fn("consensus/aquahash:" + t.fn)
		fg := c.Facts(g)
		n := 0
		for _, rs := range fg.AllReturns() {
			if _, ok := hasLit(rs.State, regexp.MustCompile(main)); !ok {
				continue
			}
			n++
			res := fg.tr.term(rs.State, rs.Ret.Results[0], 0)
			ok := regexp.MustCompile(`^math\.BigMax\((new\(Int\)(~\d+)?, params\.` + t.min + `|params\.` + t.min + `, new\(Int\)(~\d+)?)\)$`).MatchString(res)
			c.Ob("C13-R3", t.fn+" main-net result is max(x, params."+t.min+")", c.Position(rs.Ret.Pos()), ok, "returns "+res)
		}
		if n == 0 {
			c.Ob("C13-R3", t.fn+" main-net result is max(x, params."+t.min+")", c.FnPos(g), false, "no main-net return path found")
		}
	}
	g := c.Fn("consensus/aquahash:calcDifficultyGrandparent")
	fg := c.Facts(g)
	for _, rs := range fg.AllReturns() {
		res := fg.tr.term(rs.State, rs.Ret.Results[0], 0)
		if rs.State.lits["Header#1 == nil"] {
			continue // no grandparent: parent difficulty is kept
		}
		want := "MinimumDifficultyHF5Testnet"
		if rs.State.lits["uint64#1 == params.MainnetChainConfig.ChainId.Uint64()"] {
			want = "MinimumDifficultyHF5"
		}
		ok := regexp.MustCompile(`^math\.BigMax\((new\(Int\)(~\d+)?, params\.` + want + `|params\.` + want + `, new\(Int\)(~\d+)?)\)$`).MatchString(res)
		c.Ob("C13-R3", "calcDifficultyGrandparent result is max(x, params."+want+")", c.Position(rs.Ret.Pos()), ok, "returns "+res)
	}
}
