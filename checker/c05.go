package main

import (
	"fmt"
	"go/types"
	"sort"
	"strings"

	"golang.org/x/tools/go/ssa"
)

// C05 Coins are created only by the block reward schedule.

func init() { register("C05", []string{"./..."}, runC05) }

func runC05(c *Ctx) {
	c.Explanation = "Whole-module who-may-credit analysis plus pairing shapes: the functions reachable (call graph: VTA over CHA, module-interface CHA, function values) from the consensus entry points (StateProcessor.Process, miner commitNewWork, GenerateChain, Genesis.ToBlock) that call a balance-credit primitive (StateDB/stateObject AddBalance/SetBalance, the vm.StateDB interface methods, direct stores to Account.Balance) form a closed, reviewed set; each member has the conserving shape (transfer debits then credits the same amount; self-destruct credits the contract's own balance and zeroes it; refund and fee are remaining-gas and used-gas times the same gasPrice as the purchase, with the fee computed after the refund; hard fork 4 only stores zero); the reward function credits only under height < MaxMoney with amounts built from BlockReward, 8 and 32; balances are stored as fresh integers; and no mutating big.Int method is ever applied to a package-level protocol constant. Decides that no other code path can mint; the arithmetic identities are not evaluated."
	c.NotDecided = []string{"the arithmetic identity debit = refund + fee", "value conservation inside EVM execution beyond snapshot/revert (C07) and journalling (C09)"}
	c.Assumptions = []string{"call graph over-approximates dynamic calls between module functions", "RPC/simulation callers outside the consensus roots are out of scope (listed in evidence)"}
	g := c.CG()

	// credit primitives
	prims := map[*ssa.Function]string{}
	for _, spec := range []string{"core/state:(*StateDB).AddBalance", "core/state:(*StateDB).SetBalance", "core/state:(*stateObject).AddBalance",
		"core/state:(*stateObject).SetBalance", "core/state:(*stateObject).setBalance"} {
		prims[c.Fn(spec)] = spec
	}
	credits := func(fn *ssa.Function) []string {
		var out []string
		for _, b := range fn.Blocks {
			for _, ins := range b.Instrs {
				switch x := ins.(type) {
				case ssa.CallInstruction:
					cc := x.Common()
					if cc.IsInvoke() {
						if (cc.Method.Name() == "AddBalance" || cc.Method.Name() == "SetBalance") && typeShort(cc.Value.Type()) == "StateDB" {
							out = append(out, "vm.StateDB."+cc.Method.Name())
						}
						continue
					}
					if f := cc.StaticCallee(); f != nil {
						if _, ok := prims[f]; ok {
							out = append(out, shortFn(f))
						}
					}
				case *ssa.Store:
					if c09FieldOf(x.Addr) == "Account.Balance" {
						out = append(out, "store Account.Balance")
					}
				}
			}
		}
		return out
	}
	roots := []*ssa.Function{c.Fn("core:(*StateProcessor).Process"), c.Fn("opt/miner:(*worker).commitNewWork"), c.Fn("core:GenerateChain"), c.Fn("core:(*Genesis).ToBlock")}
	reach := g.Reach(roots, ReachOpts{})

	reviewed := map[string]string{
		"core.Transfer":                        "value transfer: SubBalance(sender, amount) then AddBalance(recipient, same amount)",
		"(*core.StateTransition).refundGas":    "refund of unused gas at the purchase price",
		"(*core.StateTransition).TransitionDb": "fee = gasUsed x gasPrice to the coinbase",
		"consensus/aquahash.accumulateRewards": "the block reward schedule (the only issuance)",
		"core/vm.opSuicide":                    "moves the self-destructing contract's whole balance, then Suicide zeroes it",
		"consensus/misc.ApplyHardFork4":        "one-time zeroing of the listed genesis allocation",
		"(*core.Genesis).ToBlock":              "genesis allocation",
		"(*core/state.StateDB).AddBalance":     "state internals (primitive wrapper)",
		"(*core/state.StateDB).SubBalance":     "state internals",
		"(*core/state.StateDB).SetBalance":     "state internals (primitive wrapper)",
		"(*core/state.stateObject).AddBalance": "state internals: new(big.Int).Add(balance, amount)",
		"(*core/state.stateObject).SubBalance": "state internals: new(big.Int).Sub(balance, amount)",
		"(*core/state.stateObject).SetBalance": "state internals: journalled setter",
		"(*core/state.stateObject).setBalance": "state internals: raw setter",
		"(*core/state.StateDB).CreateAccount":  "carries the previous balance of a re-created account over",
		"(*core/state.StateDB).Suicide":        "zeroes the balance of the self-destructed account",
		"core/state.newObject":                 "replaces a nil balance by zero",
		"(core/state.balanceChange).undo":      "journal undo",
		"(core/state.suicideChange).undo":      "journal undo",
		"(*core/state.stateObject).deepCopy":   "copy",
		"consensus/clique.accumulateRewards":   "clique has no block reward: function body credits nothing (checked)",
	}
	c.Rule("C05-R1", "closed set of balance-credit sites reachable from block processing, mining, chain generation and genesis", func() {
		var found []string
		for fn := range reach {
			if fn.Pkg == nil || !strings.HasPrefix(fn.Pkg.Pkg.Path(), modPath) || fn.Synthetic != "" {
				continue
			}
			cs := credits(fn)
			if len(cs) == 0 {
				continue
			}
			name := shortFn(fn)
			found = append(found, name)
			why, ok := reviewed[name]
			detail := fmt.Sprintf("credits via %v; reachable: %s", uniq(cs), pathTo(reach, fn))
			if ok {
				detail = why + "; " + detail
			}
			c.Ob("C05-R1", name+" is a reviewed credit site", c.FnPos(fn), ok, detail)
		}
		sort.Strings(found)
		c.Extra["credit_sites_reachable_from_consensus_roots"] = found
		// credit sites outside the reachable set (informational)
		var outside []string
		for _, fn := range c.SrcFns {
			if _, ok := reach[fn]; ok || fn.Synthetic != "" {
				continue
			}
			if len(credits(fn)) > 0 {
				outside = append(outside, shortFn(fn))
			}
		}
		sort.Strings(outside)
		c.Extra["credit_sites_not_reachable_from_consensus_roots"] = outside
	})
	c.Min("C05-R1", 14)

	c.Rule("C05-R2", "pairing shapes of the reviewed credit sites", func() {
		tr := c.Fn("core:Transfer")
		var sub, add ssa.CallInstruction
		for _, s := range callSites(tr, `^StateDB\.SubBalance$`) {
			sub = s
		}
		for _, s := range callSites(tr, `^StateDB\.AddBalance$`) {
			add = s
		}
		ok := sub != nil && add != nil && instrDominates(sub, add) && sub.Common().Args[1] == add.Common().Args[1] &&
			len(callSites(tr, `^StateDB\.`)) == 2 && c.termOf(tr, sub.Common().Args[0]) == "Address#0" && c.termOf(tr, add.Common().Args[0]) == "Address#1"
		c.Ob("C05-R2", "Transfer: debit sender then credit recipient the same amount, nothing else", c.FnPos(tr), ok, "")
		// EVM call sites of Transfer are guarded by CanTransfer (C07-R2) - here: CanTransfer compares balance >= amount
		ct := c.Fn("core:CanTransfer")
		c.MustOnAccept("C05-R2", ct, 0, true, []LitReq{{Name: "CanTransfer: balance >= amount", Re: `^StateDB#0\.GetBalance\(Address#0\) >= Int#0$`}})
		for _, n := range []string{"Call", "CallCode", "Create"} {
			fn := c.Fn("core/vm:(*EVM)." + n)
			sites := callSites(fn, `^dyn:EVM#0\.Context\.Transfer$`)
			if n == "CallCode" {
				c.Ob("C05-R2", "EVM.CallCode performs no transfer", c.FnPos(fn), len(sites) == 0, "")
				continue
			}
			f := c.Facts(fn)
			for _, s := range sites {
				a := s.Common().Args
				good, w := allHave(f.At(s), mustRe(`^dyn:EVM#0\.Context\.CanTransfer\(EVM#0\.StateDB, ContractRef#0\.Address\(\), Int#0\)$`))
				c.Ob("C05-R2", "EVM."+n+": Transfer(caller, to, value) only after CanTransfer(caller, value)", c.Position(s.Pos()),
					good && c.termOf(fn, a[1]) == "ContractRef#0.Address()" && c.termOf(fn, a[3]) == "Int#0", w)
			}
			if len(sites) != 1 {
				c.Ob("C05-R2", "EVM."+n+": exactly one transfer", c.FnPos(fn), false, fmt.Sprintf("%d", len(sites)))
			}
		}
		// Context.Transfer / CanTransfer are bound to core.Transfer / core.CanTransfer by NewEVMContext
		ne := c.Fn("core:NewEVMContext")
		bound := map[string]string{}
		for _, b := range ne.Blocks {
			for _, ins := range b.Instrs {
				if st, ok := ins.(*ssa.Store); ok {
					if fa, ok := st.Addr.(*ssa.FieldAddr); ok {
						bound[fieldName(fa)] = c.termOf(ne, st.Val)
					}
				}
			}
		}
		c.Ob("C05-R2", "NewEVMContext binds Transfer/CanTransfer to core.Transfer/core.CanTransfer", c.FnPos(ne),
			bound["Transfer"] == "func:core.Transfer" && bound["CanTransfer"] == "func:core.CanTransfer", fmt.Sprintf("%v", bound))
		// self-destruct
		os := c.Fn("core/vm:opSuicide")
		fo := c.Facts(os)
		var st []*pstate
		for _, rs := range fo.AllReturns() {
			st = append(st, rs.State)
		}
		c.mustStates("C05-R2", os, "return", st, []LitReq{
			{Name: "beneficiary is credited exactly the contract's current balance", Re: `^called:EVM#0\.StateDB\.AddBalance\(common\.BigToAddress\(Stack#0\.pop\(\)\), EVM#0\.StateDB\.GetBalance\(Contract#0\.Address\(\)\)\)$`},
			{Name: "the contract is then self-destructed (balance zeroed)", Re: `^called:EVM#0\.StateDB\.Suicide\(Contract#0\.Address\(\)\)$`},
		})
		c.AllDominatedBy("C05-R2", os, `^StateDB\.AddBalance$`, `^StateDB\.Suicide$`, 1, "credit precedes Suicide")
		su := c.Fn("core/state:(*StateDB).Suicide")
		zero := false
		for _, b := range su.Blocks {
			for _, ins := range b.Instrs {
				if s, ok := ins.(*ssa.Store); ok && c09FieldOf(s.Addr) == "Account.Balance" {
					zero = strings.HasPrefix(c.termOf(su, s.Val), "new(Int)") && !strings.Contains(c.termOf(su, s.Val), ".")
				}
			}
		}
		c.Ob("C05-R2", "StateDB.Suicide stores a fresh zero balance", c.FnPos(su), zero, "")
		// gas purchase, refund and fee use the same price; fee after refund (shared with C06-R3)
		tdb := c.Fn("core:(*StateTransition).TransitionDb")
		c.AllDominatedBy("C05-R2", tdb, `^StateTransition\.refundGas$`, `^StateTransition\.gasUsed$`, 2, "fee and reported gas are computed after the refund (otherwise refund x price is minted)")
		c.AllDominatedBy("C05-R2", tdb, `^StateTransition\.refundGas$`, `^StateDB\.AddBalance$`, 1, "coinbase is credited after the refund")
		stp := `StateTransition#0`
		ft := c.Facts(tdb)
		var acc []*pstate
		for _, rs := range ft.AcceptingReturns(-1, false) {
			acc = append(acc, rs.State)
		}
		c.mustStates("C05-R2", tdb, "accepting return", acc, []LitReq{
			{Name: "fee = gasUsed x the purchase gasPrice, to evm.Coinbase", Re: `^called:` + stp + `\.state\.AddBalance\(` + stp + `\.evm\.Context\.Coinbase, new\(Int\)(~\d+)?\.Mul\(new\(Int\)(~\d+)?\.SetUint64\(` + stp + `\.gasUsed\(\)\), ` + stp + `\.gasPrice\)\)$`},
		})
		c.Ob("C05-R2", "TransitionDb credits only the coinbase", c.FnPos(tdb), len(callSites(tdb, `^StateDB\.AddBalance$`)) == 1, "")
		rf := c.Fn("core:(*StateTransition).refundGas")
		fr := c.Facts(rf)
		var rs []*pstate
		for _, r := range fr.AllReturns() {
			rs = append(rs, r.State)
		}
		c.mustStates("C05-R2", rf, "return", rs, []LitReq{
			{Name: "refund = remaining gas x the purchase gasPrice, to the sender", Re: `^called:` + stp + `\.state\.AddBalance\(` + stp + `\.from\(\)\.Address\(\), new\(Int\)(~\d+)?\.Mul\(new\(Int\)(~\d+)?\.SetUint64\(` + stp + `\.gas\), ` + stp + `\.gasPrice\)\)$`},
		})
		c.Ob("C05-R2", "refundGas credits only the sender", c.FnPos(rf), len(callSites(rf, `^StateDB\.AddBalance$`)) == 1, "")
		by := c.Fn("core:(*StateTransition).buyGas")
		fb := c.Facts(by)
		var bs []*pstate
		for _, r := range fb.AcceptingReturns(-1, false) {
			bs = append(bs, r.State)
		}
		c.mustStates("C05-R2", by, "accepting return", bs, []LitReq{
			{Name: "purchase debits gasLimit x the same gasPrice from the sender", Re: `^called:` + stp + `\.state\.SubBalance\(` + stp + `\.from\(\)\.Address\(\), new\(Int\)(~\d+)?\.Mul\(new\(Int\)(~\d+)?\.SetUint64\(` + stp + `\.msg\.Gas\(\)\), ` + stp + `\.gasPrice\)\)$`},
		})
		c.fieldWrittenOnlyIn("C05-R2", "core:StateTransition.gasPrice", map[string]bool{"core.NewStateTransition": true})
		// hard fork 4 stores zero only
		hf := c.Fn("consensus/misc:ApplyHardFork4")
		for _, s := range callSites(hf, `^StateDB\.SetBalance$`) {
			t := c.termOf(hf, s.Common().Args[2])
			c.Ob("C05-R2", "ApplyHardFork4 only ever stores a zero balance", c.Position(s.Pos()), t == "new(Int)", "stores "+t)
		}
		c.Ob("C05-R2", "ApplyHardFork4 has one SetBalance site and no AddBalance", c.FnPos(hf), len(callSites(hf, `^StateDB\.SetBalance$`)) == 1 && len(callSites(hf, `^StateDB\.AddBalance$`)) == 0, "")
		// balances are stored as fresh integers
		for _, m := range []string{"AddBalance", "SubBalance"} {
			fn := c.Fn("core/state:(*stateObject)." + m)
			sites := callSites(fn, `^stateObject\.SetBalance$`)
			for _, s := range sites {
				t := c.termOf(fn, s.Common().Args[1])
				op := map[string]string{"AddBalance": "Add", "SubBalance": "Sub"}[m]
				c.Ob("C05-R2", "stateObject."+m+" stores new(big.Int)."+op+"(balance, amount): a fresh integer, no alias of the caller's", c.Position(s.Pos()),
					t == "new(Int)."+op+"(stateObject#0.Balance(), Int#0)", "SetBalance("+t+")")
			}
			if len(sites) != 1 {
				c.Ob("C05-R2", "stateObject."+m+" has exactly one SetBalance", c.FnPos(fn), false, fmt.Sprintf("%d", len(sites)))
			}
		}
		// clique mints nothing
		ca := c.FnOpt("consensus/clique:accumulateRewards")
		if ca != nil {
			c.Ob("C05-R2", "clique.accumulateRewards credits nothing", c.FnPos(ca), len(credits(ca)) == 0, "")
		}
		// SELFDESTRUCT pays the contract's balance to the beneficiary and relies on StateDB.Suicide to remove it from
		// the contract: whenever Suicide reports success the balance was zeroed (and journalled), also for a contract
		// that already self-destructed earlier in the transaction and was funded again
		sui := c.Fn("core/state:(*StateDB).Suicide")
		c.MustOnAccept("C05-R2", sui, 0, true, []LitReq{
			{Name: "StateDB.Suicide zeroes the balance whenever it returns true", Re: `^store:StateDB#0\.getStateObject\(Address#0\)\.data\.Balance=new\(Int\)(~\d+)?$`},
			{Name: "StateDB.Suicide journals the previous balance whenever it returns true", Re: `^store:var:\w+\.prevbalance=new\(Int\)(~\d+)?\.Set\(StateDB#0\.getStateObject\(Address#0\)\.Balance\(\)\)$`},
		})
	})
	c.Min("C05-R2", 22)

	c.Rule("C05-R3", "reward schedule: credits only below MaxMoney; amounts from BlockReward, 8 and 32", func() {
		ar := c.Fn("consensus/aquahash:accumulateRewards")
		c.MustBefore("C05-R3", ar, `^StateDB\.AddBalance$`, 2, []LitReq{
			{Name: "rewards only for heights below MaxMoney", Re: `^Header#0\.Number < params\.MaxMoney$`},
		})
		f := c.Facts(ar)
		sites := callSites(ar, `^StateDB\.AddBalance$`)
		if len(sites) == 2 {
			t0 := f.tr.term(nil, sites[0].Common().Args[2], 0)
			t1 := f.tr.term(nil, sites[1].Common().Args[2], 0)
			a0 := f.tr.term(nil, sites[0].Common().Args[1], 0)
			a1 := f.tr.term(nil, sites[1].Common().Args[1], 0)
			// uncle reward: ((uncle.Number + 8 - header.Number) * BlockReward) / 8, accumulated in r
			c.Ob("C05-R3", "uncle miner is credited the scratch value r built as (uncleNumber+8-number)*reward/8", c.Position(sites[0].Pos()),
				strings.HasSuffix(a0, ".Coinbase") && strings.HasPrefix(t0, "new(Int)~2") && len(callSites(ar, `^Int\.(Add|Sub|Mul|Div)$`)) == 6, "credited "+t0+" to "+a0)
			c.Ob("C05-R3", "block miner is credited reward = BlockReward + sum(BlockReward/32)", c.Position(sites[1].Pos()),
				a1 == "Header#0.Coinbase" && strings.HasPrefix(t1, "new(Int).Set(aquahash.BlockReward)"), "credited "+t1+" to "+a1)
		} else {
			c.Ob("C05-R3", "accumulateRewards has exactly two credit sites", c.FnPos(ar), false, fmt.Sprintf("%d", len(sites)))
		}
		// the arithmetic chain on r, in order: Add(uncle.Number, big8), Sub(r, header.Number), Mul(r, blockReward), Div(r, big8), Div(blockReward, big32), reward.Add(reward, r)
		var chain []string
		for _, s := range callSites(ar, `^Int\.(Add|Sub|Mul|Div)$`) {
			var as []string
			for _, a := range s.Common().Args[1:] {
				as = append(as, shortArg(f.tr.term(nil, a, 0)))
			}
			chain = append(chain, calleeName(s.Common())+"("+strings.Join(as, ",")+")")
		}
		want := "Int.Add(uncle.Number,big8) Int.Sub(r,Header#0.Number) Int.Mul(r,BlockReward) Int.Div(r,big8) Int.Div(BlockReward,big32) Int.Add(reward,r)"
		c.Ob("C05-R3", "reward arithmetic is the specified chain", c.FnPos(ar), strings.Join(chain, " ") == want, strings.Join(chain, " "))
		c.ConstIs("C05-R3", "params:MaxMoney", "42000000")
		c.ConstIs("C05-R3", "params:BlockReward", "1000000000000000000")
		c.ConstIs("C05-R3", "consensus/aquahash:big8", "8")
		c.ConstIs("C05-R3", "consensus/aquahash:big32", "32")
		init := c18InitCall(c, "consensus/aquahash", "BlockReward")
		c.Ob("C05-R3", "aquahash.BlockReward is params.BlockReward", c.Position(c.Global("consensus/aquahash:BlockReward").Pos()), init == "params.BlockReward", "initialiser "+init)
		for _, g := range []string{"params:MaxMoney", "params:BlockReward", "consensus/aquahash:BlockReward", "consensus/aquahash:big8", "consensus/aquahash:big32"} {
			c.GlobalNeverReassigned("C05-R3", g)
		}
		// Finalize calls accumulateRewards exactly once before computing the root
		fin := c.Fn("consensus/aquahash:(*Aquahash).Finalize")
		c.AllDominatedBy("C05-R3", fin, `^aquahash\.accumulateRewards$`, `^StateDB\.IntermediateRoot$`, 1, "rewards are applied before the state root is taken")
		c.Ob("C05-R3", "Finalize applies the rewards exactly once", c.FnPos(fin), len(callSites(fin, `^aquahash\.accumulateRewards$`)) == 1, "")
	})
	c.Min("C05-R3", 16)

	c.Rule("C05-R4", "shared protocol integers are never mutated in place (whole module)", func() {
		n, bad := c05SharedBigRule(c)
		c.Extra["mutating_bigint_calls_examined"] = n
		_ = bad
		c.Extra["mutating_bigint_receivers_classified"] = bigOwnershipRule(c, "C05-R4")
		// copies handed out by accessors are deep: CopyHeader re-allocates every reference-typed field of the header
		// (big integers and the extra bytes), so a caller mutating its copy cannot reach the original
		ch := c.Fn("core/types:CopyHeader")
		hdr := c.Type("core/types:Header").Underlying().(*types.Struct)
		fresh := map[string]bool{}
		for _, b := range ch.Blocks {
			for _, ins := range b.Instrs {
				if stI, ok := ins.(*ssa.Store); ok {
					if fa, ok := stI.Addr.(*ssa.FieldAddr); ok {
						if _, isAl := fa.X.(*ssa.Alloc); isAl {
							switch stI.Val.(type) {
							case *ssa.Alloc, *ssa.MakeSlice:
								fresh[fieldName(fa)] = true
							}
						}
					}
				}
			}
		}
		var missing []string
		for i := 0; i < hdr.NumFields(); i++ {
			f := hdr.Field(i)
			switch t := f.Type().(type) {
			case *types.Pointer:
				if strings.HasSuffix(t.Elem().String(), "big.Int") && !fresh[f.Name()] {
					missing = append(missing, f.Name())
				}
			case *types.Slice:
				if !fresh[f.Name()] {
					missing = append(missing, f.Name())
				}
			}
		}
		// block accessors hand out copies, never the block's own integers or header
		for _, m := range []string{"Number", "Difficulty", "Time", "Header"} {
			fn := c.Fn("core/types:(*Block)." + m)
			okAcc, d := true, ""
			for _, b := range fn.Blocks {
				if ret, isRet := b.Instrs[len(b.Instrs)-1].(*ssa.Return); isRet {
					for _, r := range bigRoots(ret.Results[0]) {
						switch x := r.(type) {
						case *ssa.Alloc:
						case *ssa.Call:
							if calleeName(&x.Call) != "types.CopyHeader" && calleeName(&x.Call) != "big.NewInt" {
								okAcc, d = false, "returns "+c.termOf(fn, r)
							}
						default:
							okAcc, d = false, "returns "+c.termOf(fn, r)
						}
					}
				}
			}
			c.Ob("C05-R4", "Block."+m+" returns a copy", c.FnPos(fn), okAcc, d)
		}
		c.Ob("C05-R4", "CopyHeader re-allocates every big-integer and byte-slice field of the header", c.FnPos(ch), len(missing) == 0, "shared with the original: "+strings.Join(missing, ", "))
	})
	c.Min("C05-R4", 1)

	c.Rule("C05-R6", "who may store a balance by reference: the aliasing setters are reached only from code that hands them a fresh or recorded integer", func() {
		// stateObject.setBalance / SetBalance store the pointer they are given. AddBalance/SubBalance hand them a fresh
		// sum, undo methods the recorded previous value, CreateAccount the replaced object's balance, ApplyHardFork4 a
		// constant zero (through StateDB.SetBalance). Any other caller stores the transaction's or the reward loop's
		// scratch integer, which later arithmetic overwrites in place.
		g := c.CG()
		allowed := map[string]map[string]string{
			"(*core/state.stateObject).setBalance": {"(*core/state.stateObject).SetBalance": "journalled setter", "(core/state.balanceChange).undo": "recorded previous value",
				"(core/state.suicideChange).undo": "recorded previous value", "(*core/state.StateDB).CreateAccount": "balance of the replaced object carried over"},
			"(*core/state.stateObject).SetBalance": {"(*core/state.stateObject).AddBalance": "fresh sum", "(*core/state.stateObject).SubBalance": "fresh difference",
				"(*core/state.StateDB).SetBalance": "primitive wrapper (callers: hard fork 4 with a constant zero, tests)",
				"(*aqua/accounts/abi/bind/backends.SimulatedBackend).callContract": "simulation of eth_call on a throw-away state: the caller gets the constant MaxBig256 (never on the consensus path)"},
		}
		for spec, al := range allowed {
			fn := c.Fn(strings.Replace(strings.Replace(spec, "(*core/state.stateObject).", "core/state:(*stateObject).", 1), "(*core/state.StateDB).", "core/state:(*StateDB).", 1))
			n := 0
			for _, caller := range g.in[fn] {
				if caller.Synthetic != "" {
					continue
				}
				for _, e := range g.out[caller] {
					if e.callee != fn || e.site == nil {
						continue
					}
					n++
					why, ok := al[shortFn(caller)]
					c.Ob("C05-R6", shortFn(caller)+" may call "+shortFn(fn), c.Position(e.site.Pos()), ok, why)
				}
			}
			c.Ob("C05-R6", "callers of "+shortFn(fn)+" found", c.FnPos(fn), n >= 3, fmt.Sprintf("%d", n))
		}
	})
	c.Min("C05-R6", 8)

	// "exactly the scheduled issuance": a credit that is never flushed burns coins. The dirty-tracking protocol that
	// guarantees every modified account reaches the trie is C09-R5, shared here (its known finding F9 included)
	c.Borrow("C09", runC09, map[string]string{"C09-R5": "C05-R5"})
}

func uniq(xs []string) []string {
	m := map[string]bool{}
	var out []string
	for _, x := range xs {
		if !m[x] {
			m[x] = true
			out = append(out, x)
		}
	}
	sort.Strings(out)
	return out
}

func shortArg(t string) string {
	switch {
	case strings.HasPrefix(t, "new(Int)~2"):
		return "r"
	case strings.HasPrefix(t, "new(Int).Set(aquahash.BlockReward)"):
		return "reward"
	case strings.HasSuffix(t, ".Number") && !strings.HasPrefix(t, "Header#0"):
		return "uncle.Number"
	case strings.HasPrefix(t, "aquahash."):
		return strings.TrimPrefix(t, "aquahash.")
	}
	return t
}

var bigMutators = map[string]bool{"Add": true, "Sub": true, "Mul": true, "Div": true, "Mod": true, "Quo": true, "Rem": true, "Exp": true, "Lsh": true, "Rsh": true,
	"And": true, "Or": true, "Xor": true, "Not": true, "Neg": true, "Abs": true, "Set": true, "SetUint64": true, "SetInt64": true, "SetBytes": true, "SetString": true,
	"SetBit": true, "SetBits": true, "DivMod": true, "QuoRem": true, "Sqrt": true, "ModInverse": true, "GCD": true, "Rand": true, "AndNot": true, "MulRange": true, "Binomial": true}

// c05SharedBigRule: the receiver of every mutating (*big.Int) method, followed through phis and receiver-returning
// methods, never is (a load of) a package-level *big.Int variable, nor the result of a function that returns one.
func c05SharedBigRule(c *Ctx) (int, int) {
	// functions returning a package-level *big.Int directly
	returnsGlobal := map[*ssa.Function]string{}
	for _, fn := range c.SrcFns {
		for _, b := range fn.Blocks {
			if ret, ok := b.Instrs[len(b.Instrs)-1].(*ssa.Return); ok {
				for _, r := range ret.Results {
					if g := globalBigOf(r, 0); g != "" {
						returnsGlobal[fn] = g
					}
				}
			}
		}
	}
	n, bad := 0, 0
	for _, fn := range c.SrcFns {
		if fn.Pkg == nil || strings.HasPrefix(relPkg(fn.Pkg.Pkg.Path()), "cmd/") {
			continue
		}
		for _, b := range fn.Blocks {
			for _, ins := range b.Instrs {
				call, ok := ins.(*ssa.Call)
				if !ok {
					continue
				}
				f := call.Call.StaticCallee()
				if f == nil || f.Signature.Recv() == nil || !strings.HasSuffix(f.Signature.Recv().Type().String(), "big.Int") || !bigMutators[f.Name()] {
					continue
				}
				n++
				g := ""
				for _, root := range bigRoots(call.Call.Args[0]) {
					if g == "" {
						g = globalBigOf(root, 0)
					}
					if g == "" {
						if rc, ok := root.(*ssa.Call); ok {
							if cf := rc.Call.StaticCallee(); cf != nil {
								g = returnsGlobal[cf]
							}
						}
					}
				}
				if g != "" {
					bad++
					c.Ob("C05-R4", fmt.Sprintf("%s: big.Int.%s is not applied to shared %s", shortFn(fn), f.Name(), g), c.Position(call.Pos()), false,
						"in-place mutation of a package-level integer changes a protocol constant for the whole process")
				}
			}
		}
	}
	c.Ob("C05-R4", "no mutating big.Int call has a package-level integer as receiver", "", bad == 0, fmt.Sprintf("%d mutating calls examined in the module", n))
	return n, bad
}

// bigRoots: every value the receiver of a big.Int operation may alias, following receiver-returning (mutating)
// methods and all phi edges (cycle-safe).
func bigRoots(v ssa.Value) []ssa.Value {
	seen := map[ssa.Value]bool{}
	var out []ssa.Value
	var walk func(ssa.Value)
	walk = func(x ssa.Value) {
		if seen[x] {
			return
		}
		seen[x] = true
		if call, ok := x.(*ssa.Call); ok {
			if f := call.Call.StaticCallee(); f != nil && f.Signature.Recv() != nil && strings.HasSuffix(f.Signature.Recv().Type().String(), "big.Int") && bigMutators[f.Name()] && len(call.Call.Args) > 0 {
				walk(call.Call.Args[0])
				return
			}
		}
		if p, ok := x.(*ssa.Phi); ok {
			for _, e := range p.Edges {
				walk(e)
			}
			return
		}
		out = append(out, x)
	}
	walk(v)
	return out
}

func globalBigOf(v ssa.Value, depth int) string {
	if u, ok := v.(*ssa.UnOp); ok {
		if g, ok := u.X.(*ssa.Global); ok {
			if p, ok := g.Type().Underlying().(*types.Pointer); ok && strings.HasSuffix(p.Elem().String(), "*math/big.Int") {
				return g.Pkg.Pkg.Name() + "." + g.Name()
			}
		}
	}
	return ""
}

// bigOwnershipRule (whole module): the receiver of every mutating (*big.Int) method is owned by the function that
// mutates it - a fresh allocation, a value from an integer pool, a popped stack item, the function's own parameter
// (its documented contract), a field of a structure allocated in the same function or of the method's own receiver,
// or the result of a callee known to return a fresh integer. Anything else is an integer handed out by an accessor
// (a cached total difficulty, an account balance, a header or transaction field, a protocol constant): mutating it in
// place silently changes that shared value for everyone else.
func bigOwnershipRule(c *Ctx, rule string) int {
	fresh := map[string]string{
		"big.NewInt": "fresh", "bnPool.Get": "pool", "intPool.get": "pool", "intPool.getZero": "pool", "Stack.pop": "popped item is owned by the instruction",
		"Stack.peek": "top-of-stack slot updated in place by design", "Stack.Back": "stack slot updated in place by design",
		"math.U256": "returns its (owned) argument", "math.S256": "returns its (owned) argument or a fresh integer", "Bloom.Big": "fresh (SetBytes)",
		"Block.Number": "returns a copy", "Block.Difficulty": "returns a copy", "Block.Time": "returns a copy", "Hash.Big": "fresh", "Address.Big": "fresh",
		"math.BigPow": "fresh", "math.Exp": "fresh", "math.MustParseBig256": "fresh", "math.ParseBig256": "fresh", "Transaction.Value": "returns a copy",
		"Transaction.GasPrice": "returns a copy", "Transaction.Cost": "fresh", "Message.Value": "n/a", "rand.Int": "fresh",
	}
	exemptPkg := func(p string) bool {
		return strings.HasPrefix(p, "crypto/bn256") || strings.HasPrefix(p, "crypto/secp256k1") || p == "common/math" || strings.HasPrefix(p, "cmd/") || strings.HasPrefix(p, "crypto/ecies")
	}
	n := 0
	for _, fn := range c.SrcFns {
		if fn.Pkg == nil || exemptPkg(relPkg(fn.Pkg.Pkg.Path())) || fn.Synthetic != "" {
			continue
		}
		if shortFn(fn) == "(*core/vm.intPool).put" {
			continue // the pool takes ownership of the integers handed back to it (C08-R7 decides who may hand them back)
		}
		var tr *termRenderer
		for _, b := range fn.Blocks {
			for _, ins := range b.Instrs {
				call, ok := ins.(*ssa.Call)
				if !ok {
					continue
				}
				f := call.Call.StaticCallee()
				if f == nil || f.Signature.Recv() == nil || !strings.HasSuffix(f.Signature.Recv().Type().String(), "big.Int") || !bigMutators[f.Name()] {
					continue
				}
				n++
				for _, r := range bigRoots(call.Call.Args[0]) {
					ok, why := false, ""
					switch x := r.(type) {
					case *ssa.Alloc, *ssa.Parameter, *ssa.FreeVar, *ssa.TypeAssert:
						ok = true
					case *ssa.Const:
						ok = true // nil receiver: would panic, not alias
					case *ssa.Call:
						_, ok = fresh[calleeName(&x.Call)]
					case *ssa.Extract:
						if cc, isC := x.Tuple.(*ssa.Call); isC {
							_, ok = fresh[calleeName(&cc.Call)]
							if strings.HasSuffix(calleeName(&cc.Call), ".SetString") || calleeName(&cc.Call) == "math.ParseBig256" {
								ok = true
							}
						}
					case *ssa.UnOp:
						// a field / element: owned if the enclosing structure was allocated here, is the method's receiver, or a local cell
						base := x.X
						for i := 0; i < 6; i++ {
							switch y := base.(type) {
							case *ssa.FieldAddr:
								base = y.X
								continue
							case *ssa.IndexAddr:
								base = y.X
								continue
							case *ssa.UnOp:
								base = y.X
								continue
							}
							break
						}
						switch y := base.(type) {
						case *ssa.Alloc, *ssa.FreeVar, *ssa.MakeSlice:
							ok = true
						case *ssa.Parameter:
							ok = len(fn.Params) > 0 && y == fn.Params[0] && fn.Signature.Recv() != nil
							why = "field of a parameter that is not the method's own receiver"
						case *ssa.Global:
							why = "package-level integer"
						}
					}
					if ok {
						continue
					}
					if tr == nil {
						tr = newTermRenderer(fn)
					}
					c.Ob(rule, shortFn(fn)+": big.Int."+f.Name()+" mutates an integer the function does not own", c.Position(call.Pos()), false,
						"receiver may be "+tr.term(nil, r, 0)+" "+why+": an accessor hands out the shared value; copy it first (new(big.Int).Set)")
				}
			}
		}
	}
	c.Ob(rule, "every in-place big.Int operation in the module works on an integer owned by the function", "", true, fmt.Sprintf("%d mutating calls classified", n))
	return n
}
