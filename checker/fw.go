// Framework: loading /repo's current working tree, anchors, obligations, known findings, evidence.
package main

import (
	"strconv"
	"encoding/json"
	"fmt"
	"go/ast"
	"go/token"
	"go/types"
	"os"
	"path/filepath"
	"runtime/debug"
	"sort"
	"strings"
	"time"

	"golang.org/x/tools/go/packages"
	"golang.org/x/tools/go/ssa"
	"golang.org/x/tools/go/ssa/ssautil"
)

const modPath = "gitlab.com/aquachain/aquachain"

// Obligation is one (rule, construct) pair that the checker decides.
type Obligation struct {
	Rule      string `json:"rule"`
	Construct string `json:"construct"`
	Pos       string `json:"pos,omitempty"`
	Status    string `json:"status"` // ok | violation | known-finding | undecided | info
	Detail    string `json:"detail,omitempty"`
}

type knownFinding struct {
	Property  string `json:"property"`
	Rule      string `json:"rule"`
	Construct string `json:"construct"`
	What      string `json:"what"`
	ID        string `json:"id"`
}

type knownFile struct {
	Known []knownFinding `json:"known_findings"`
	Fixed []string       `json:"fixed"`
}

// Ctx carries everything one property check needs.
type Ctx struct {
	Prop    string
	Tier    string
	Repo    string
	Root    string
	Overlay map[string][]byte
	Quiet   bool
	mutMemo map[*ssa.Function]bool

	Fset    *token.FileSet
	Pkgs    []*packages.Package
	ByPath  map[string]*packages.Package
	Prog    *ssa.Program
	SrcFns  []*ssa.Function // all functions (incl. anonymous) with bodies in module packages
	fnByObj map[*types.Func]*ssa.Function

	Obs         []*Obligation
	obKeys      map[string]bool
	curRule     string
	borrow      map[string]string
	borrowOwner string
	Explanation string
	RuleDocs    []string
	NotDecided  []string
	Assumptions []string
	Trusted     []string
	Extra       map[string]any
	MinCounts   map[string]int // rule -> minimum number of obligations confirmed by hand
	known       knownFile
	cg          *cgraph
	start       time.Time
}

func newCtx(prop, tier string) *Ctx {
	c := &Ctx{Prop: prop, Tier: tier, Repo: envOr("VERIF_REPO", "/repo"), Root: envOr("VERIF_ROOT", "/verif"),
		ByPath: map[string]*packages.Package{}, obKeys: map[string]bool{}, Extra: map[string]any{},
		MinCounts: map[string]int{}, fnByObj: map[*types.Func]*ssa.Function{}, start: time.Now()}
	if b, err := os.ReadFile(filepath.Join(c.Root, "known_findings.json")); err == nil {
		if err := json.Unmarshal(b, &c.known); err != nil {
			fatalf("known_findings.json: %v", err)
		}
	}
	return c
}

func envOr(k, d string) string {
	if v := os.Getenv(k); v != "" {
		return v
	}
	return d
}

func fatalf(format string, a ...any) {
	fmt.Fprintf(os.Stderr, "verif-check: "+format+"\n", a...)
	os.Exit(2)
}

// Load type-checks the module packages matched by patterns from source (deps from export data) and builds SSA
// for them. patterns are relative to the repository root ("./core", "./...").
func (c *Ctx) Load(patterns ...string) {
	cfg := &packages.Config{
		Mode:  packages.LoadSyntax | packages.NeedModule,
		Dir:   c.Repo,
		Tests: false,
		Env:   append(os.Environ(), "GOFLAGS=-mod=mod", "GOWORK=off"),
	}
	if len(c.Overlay) > 0 {
		cfg.Overlay = c.Overlay
	}
	pkgs, err := packages.Load(cfg, patterns...)
	if err != nil {
		c.undecidedFatal("load", fmt.Sprintf("packages.Load: %v", err))
		return
	}
	nerr := 0
	packages.Visit(pkgs, nil, func(p *packages.Package) {
		for _, e := range p.Errors {
			nerr++
			c.Ob("LOAD", "type-check "+p.PkgPath, "", false, e.Error())
		}
	})
	if len(pkgs) == 0 {
		c.undecidedFatal("load", "no packages matched "+strings.Join(patterns, " "))
		return
	}
	if nerr > 0 {
		// an ill-typed tree cannot be analysed: undecided (fails), never a silent pass or a checker crash
		c.undecidedFatal("LOAD", fmt.Sprintf("%d type/parse errors in the working tree; no analysis performed", nerr))
		return
	}
	c.Pkgs = pkgs
	c.Fset = pkgs[0].Fset
	for _, p := range pkgs {
		c.ByPath[p.PkgPath] = p
	}
	prog, _ := ssautil.Packages(pkgs, ssa.InstantiateGenerics)
	prog.Build()
	c.Prog = prog
	for fn := range ssautil.AllFunctions(prog) {
		if fn.Pkg == nil || len(fn.Blocks) == 0 {
			continue
		}
		if !strings.HasPrefix(fn.Pkg.Pkg.Path(), modPath) {
			continue
		}
		c.SrcFns = append(c.SrcFns, fn)
		if o, ok := fn.Object().(*types.Func); ok && o != nil {
			c.fnByObj[o] = fn
		}
	}
	sort.Slice(c.SrcFns, func(i, j int) bool { return fnKey(c.SrcFns[i]) < fnKey(c.SrcFns[j]) })
	c.Extra["packages_loaded"] = len(pkgs)
	c.Extra["functions_with_bodies"] = len(c.SrcFns)
}

func fnKey(fn *ssa.Function) string {
	return fn.String()
}

func (c *Ctx) undecidedFatal(rule, msg string) {
	c.Obs = append(c.Obs, &Obligation{Rule: rule, Construct: "framework", Status: "undecided", Detail: msg})
}

// Pkg returns the loaded package with the given module-relative path ("core/vm").
func (c *Ctx) Pkg(rel string) *packages.Package {
	p := c.ByPath[modPath+"/"+rel]
	if p == nil {
		panic(anchorErr{"package " + rel + " not loaded/found"})
	}
	return p
}

type anchorErr struct{ msg string }

// Fn resolves "core:(*BlockChain).insert", "core:Transfer" or "core/vm:opAdd" to its SSA function.
func (c *Ctx) Fn(spec string) *ssa.Function {
	fn := c.FnOpt(spec)
	if fn == nil {
		panic(anchorErr{"function " + spec + " not found"})
	}
	return fn
}

func (c *Ctx) FnOpt(spec string) *ssa.Function {
	if k := strings.LastIndex(spec, "$"); k > 0 { // closure: parent$N (1-based, source order)
		parent := c.FnOpt(spec[:k])
		n, err := strconv.Atoi(spec[k+1:])
		if parent == nil || err != nil || n < 1 || n > len(parent.AnonFuncs) {
			return nil
		}
		return parent.AnonFuncs[n-1]
	}
	i := strings.Index(spec, ":")
	rel, name := spec[:i], spec[i+1:]
	p := c.ByPath[modPath+"/"+rel]
	if p == nil {
		panic(anchorErr{"package " + rel + " not loaded/found"})
	}
	sp := c.Prog.Package(p.Types)
	if sp == nil {
		panic(anchorErr{"no SSA package for " + rel})
	}
	if strings.HasPrefix(name, "(") { // (*T).M or (T).M
		j := strings.Index(name, ").")
		tn := strings.TrimPrefix(name[1:j], "*")
		ptr := strings.HasPrefix(name[1:j], "*")
		mn := name[j+2:]
		obj := p.Types.Scope().Lookup(tn)
		if obj == nil {
			return nil
		}
		var t types.Type = obj.Type()
		if ptr {
			t = types.NewPointer(t)
		}
		sel := c.Prog.MethodSets.MethodSet(t).Lookup(p.Types, mn)
		if sel == nil {
			return nil
		}
		fn := c.Prog.MethodValue(sel)
		if fn == nil || len(fn.Blocks) == 0 {
			return fn
		}
		// A method promoted through embedding gets a synthetic wrapper; reject those.
		if fn.Synthetic != "" {
			if o, ok := sel.Obj().(*types.Func); ok {
				if f := c.Prog.FuncValue(o); f != nil {
					return f
				}
			}
		}
		return fn
	}
	return sp.Func(name)
}

// Type resolves "core/types:Header" to its named type.
func (c *Ctx) Type(spec string) *types.Named {
	i := strings.Index(spec, ":")
	p := c.Pkg(spec[:i])
	o := p.Types.Scope().Lookup(spec[i+1:])
	if o == nil {
		panic(anchorErr{"type " + spec + " not found"})
	}
	n, ok := o.Type().(*types.Named)
	if !ok {
		panic(anchorErr{spec + " is not a named type"})
	}
	return n
}

// Field resolves "core/types:Header.Version" to its *types.Var.
func (c *Ctx) Field(spec string) *types.Var {
	i := strings.LastIndex(spec, ".")
	n := c.Type(spec[:i])
	st, ok := n.Underlying().(*types.Struct)
	if !ok {
		panic(anchorErr{spec[:i] + " is not a struct"})
	}
	for k := 0; k < st.NumFields(); k++ {
		if st.Field(k).Name() == spec[i+1:] {
			return st.Field(k)
		}
	}
	panic(anchorErr{"field " + spec + " not found"})
}

// Global resolves "params:MaxMoney" to the package-level object (var or const).
func (c *Ctx) Global(spec string) types.Object {
	i := strings.Index(spec, ":")
	p := c.Pkg(spec[:i])
	o := p.Types.Scope().Lookup(spec[i+1:])
	if o == nil {
		panic(anchorErr{"object " + spec + " not found"})
	}
	return o
}

func (c *Ctx) Position(p token.Pos) string {
	if !p.IsValid() || c.Fset == nil {
		return ""
	}
	ps := c.Fset.Position(p)
	f := ps.Filename
	if r, err := filepath.Rel(c.Repo, f); err == nil && !strings.HasPrefix(r, "..") {
		f = r
	}
	return fmt.Sprintf("%s:%d", f, ps.Line)
}

func (c *Ctx) FnPos(fn *ssa.Function) string {
	if fn == nil {
		return ""
	}
	return c.Position(fn.Pos())
}

// Rule runs one rule body; a panic (unresolved anchor, checker bug) becomes an undecided obligation, which fails.
// Borrow evaluates selected rules of another property's rule set under this property's rule ids (a clause shared by
// two properties is decided by one implementation). mapping: foreign rule id -> local rule id.
func (c *Ctx) Borrow(owner string, run func(*Ctx), mapping map[string]string) {
	if c.borrow != nil {
		return // rules shared into a property whose rules are themselves being shared: not transitive
	}
	expl, nd, as, tr := c.Explanation, c.NotDecided, c.Assumptions, c.Trusted
	c.borrow, c.borrowOwner = mapping, owner
	func() {
		defer func() {
			if r := recover(); r != nil {
				c.Obs = append(c.Obs, &Obligation{Rule: "borrowed", Construct: "checker", Status: "undecided", Detail: fmt.Sprintf("checker panic in shared rules: %v", r)})
			}
		}()
		run(c)
	}()
	c.borrow = nil
	c.Explanation, c.NotDecided, c.Assumptions, c.Trusted = expl, nd, as, tr
}

func (c *Ctx) Rule(id, doc string, body func()) {
	if c.borrow != nil {
		target, ok := c.borrow[id]
		if !ok {
			return
		}
		doc += " (rule shared with " + id + ")"
		id = target
	}
	c.curRule = id
	c.RuleDocs = append(c.RuleDocs, id+": "+doc)
	t0 := time.Now()
	defer func() {
		if c.Extra["rule_wall_s"] == nil {
			c.Extra["rule_wall_s"] = map[string]float64{}
		}
		c.Extra["rule_wall_s"].(map[string]float64)[id] = time.Since(t0).Seconds()
		if os.Getenv("VERIF_TIMING") != "" {
			fmt.Fprintf(os.Stderr, "  [%s %.2fs]\n", id, time.Since(t0).Seconds())
		}
		if r := recover(); r != nil {
			if a, ok := r.(anchorErr); ok {
				c.Obs = append(c.Obs, &Obligation{Rule: id, Construct: "anchor", Status: "undecided", Detail: "unresolved anchor: " + a.msg})
			} else {
				c.Obs = append(c.Obs, &Obligation{Rule: id, Construct: "checker", Status: "undecided",
					Detail: fmt.Sprintf("checker panic: %v\n%s", r, trimStack(debug.Stack()))})
			}
		}
		c.curRule = ""
	}()
	body()
}

func trimStack(b []byte) string {
	s := string(b)
	if len(s) > 1500 {
		s = s[:1500]
	}
	return s
}

// Ob records the verdict of one obligation of the current rule.
func (c *Ctx) Ob(rule, construct, pos string, ok bool, detail string) *Obligation {
	if rule == "" {
		rule = c.curRule
	}
	origRule := rule
	if c.borrow != nil {
		if t, has := c.borrow[rule]; has {
			rule = t
		}
	}
	key := rule + "|" + construct
	if c.obKeys[key] {
		// keep keys distinct: same construct evaluated twice (e.g. two call sites) gets a numeric suffix
		for i := 2; ; i++ {
			k := fmt.Sprintf("%s#%d", key, i)
			if !c.obKeys[k] {
				construct = fmt.Sprintf("%s#%d", construct, i)
				key = k
				break
			}
		}
	}
	c.obKeys[key] = true
	o := &Obligation{Rule: rule, Construct: construct, Pos: pos, Detail: detail}
	if ok {
		o.Status = "ok"
	} else {
		o.Status = "violation"
		for _, k := range c.known.Known {
			// a shared rule sees the same construct as its owner: a finding recorded for the owner is the same finding here
			if (k.Property == c.Prop && k.Rule == rule || c.borrow != nil && k.Property == c.borrowOwner && k.Rule == origRule) && k.Construct == construct {
				o.Status = "known-finding"
				o.Detail = k.ID + ": " + k.What + " — " + detail
			}
		}
	}
	c.Obs = append(c.Obs, o)
	if g := os.Getenv("VERIF_GREP"); g != "" && strings.Contains(construct+" "+detail, g) {
		fmt.Fprintf(os.Stderr, "  [%s] %s %s: %s\n", o.Status, rule, construct, detail)
	}
	return o
}

func (c *Ctx) Info(rule, construct, pos, detail string) {
	if rule == "" {
		rule = c.curRule
	}
	if c.borrow != nil {
		if t, has := c.borrow[rule]; has {
			rule = t
		}
	}
	c.Obs = append(c.Obs, &Obligation{Rule: rule, Construct: construct, Pos: pos, Status: "info", Detail: detail})
}

// Min declares the number of obligations of a rule that were confirmed by hand on the pinned tree; fewer is a failure
// (a rule that matches nothing must not pass vacuously).
func (c *Ctx) Min(rule string, n int) {
	if c.borrow != nil {
		t, has := c.borrow[rule]
		if !has {
			return
		}
		c.MinCounts[t] += n
		return
	}
	c.MinCounts[rule] += n
}

// ---- evidence -------------------------------------------------------------------------------------------------

type evidence struct {
	PropertyID  string         `json:"property_id"`
	Tier        string         `json:"tier"`
	Seed        int            `json:"seed"`
	Level       string         `json:"level"`
	Coverage    map[string]any `json:"coverage"`
	Assumptions []string       `json:"assumptions"`
	WallS       float64        `json:"wall_s"`
	Violations  int            `json:"violations"`
}

// Finish evaluates min-counts, prints the verdict lines, writes evidence (and a replay file on violation) and
// returns the exit code.
func (c *Ctx) Finish() int {
	perRule := map[string]int{}
	for _, o := range c.Obs {
		if o.Status != "info" {
			perRule[o.Rule]++
		}
	}
	var rules []string
	for r, n := range c.MinCounts {
		rules = append(rules, r)
		_ = n
	}
	sort.Strings(rules)
	for _, r := range rules {
		if perRule[r] < c.MinCounts[r] {
			c.Obs = append(c.Obs, &Obligation{Rule: r, Construct: "instance-count", Status: "undecided",
				Detail: fmt.Sprintf("rule matched %d constructs, fewer than the %d confirmed by hand on the pinned tree (vacuous pass not allowed)", perRule[r], c.MinCounts[r])})
		}
	}
	var bad, known, okc, undecided, info []*Obligation
	for _, o := range c.Obs {
		switch o.Status {
		case "ok":
			okc = append(okc, o)
		case "known-finding":
			known = append(known, o)
		case "undecided":
			undecided = append(undecided, o)
		case "info":
			info = append(info, o)
		default:
			bad = append(bad, o)
		}
	}
	total := len(okc) + len(known) + len(bad) + len(undecided)
	distinct := map[string]bool{}
	for _, o := range c.Obs {
		if o.Status != "info" {
			distinct[o.Rule+"|"+o.Construct] = true
		}
	}
	for _, o := range known {
		fmt.Printf("KNOWN-FINDING: property=%s %s [%s %s %s]\n", c.Prop, o.Detail, o.Rule, o.Construct, o.Pos)
	}
	fails := append(append([]*Obligation{}, bad...), undecided...)
	replay := ""
	if len(fails) > 0 {
		dir := envOr("VERIF_REPLAY_DIR", filepath.Join(c.Root, "evidence", "replay"))
		os.MkdirAll(dir, 0o755)
		replay = filepath.Join(dir, fmt.Sprintf("%s.json", c.Prop))
		rb, _ := json.MarshalIndent(map[string]any{"property": c.Prop, "tier": c.Tier, "failed_obligations": fails}, "", " ")
		os.WriteFile(replay, rb, 0o644)
		for _, o := range fails {
			fmt.Printf("  %s %s: %s @ %s\n      %s\n", strings.ToUpper(o.Status), o.Rule, o.Construct, o.Pos, strings.ReplaceAll(o.Detail, "\n", "\n      "))
		}
	}
	if !c.Quiet {
		fmt.Printf("%s %s: %d obligations, %d ok, %d known findings, %d violations, %d undecided, %d informational (%.1fs)\n",
			c.Prop, c.Tier, total, len(okc), len(known), len(bad), len(undecided), len(info), time.Since(c.start).Seconds())
	}

	samples := []any{}
	add := func(list []*Obligation, n int) {
		step := 1
		if len(list) > n && n > 0 {
			step = len(list) / n
		}
		for i := 0; i < len(list) && len(samples) < 400; i += step {
			samples = append(samples, list[i])
		}
	}
	add(bad, 50)
	add(undecided, 20)
	add(known, 20)
	add(okc, 40)
	add(info, 10)
	ruleCounts := map[string]map[string]int{}
	for _, o := range c.Obs {
		if ruleCounts[o.Rule] == nil {
			ruleCounts[o.Rule] = map[string]int{}
		}
		ruleCounts[o.Rule][o.Status]++
	}
	cov := map[string]any{
		"explanation":         c.Explanation,
		"rule":                strings.Join(c.RuleDocs, "\n"),
		"obligations":         total,
		"discharged":          len(okc),
		"evaluations":         total,
		"distinct_nontrivial": len(distinct),
		"samples":             samples,
		"per_rule":            ruleCounts,
		"min_counts":          c.MinCounts,
		"not_decided":         c.NotDecided,
		"known_findings":      known,
		"checker_cmd":         "scripts/check.sh " + c.Prop + " " + c.Tier,
		"trusted_base": append([]string{"go/types + go/packages (go1.26.8) type-checking of /repo's working tree", "go/ssa (x/tools v0.50.0) lowering",
			"static call resolution; VTA/CHA call graph for non-reflective calls"}, c.Trusted...),
		"exhaustive": true,
	}
	fileSet := map[string]bool{}
	for _, o := range c.Obs {
		if i := strings.LastIndex(o.Pos, ":"); i > 0 {
			fileSet[o.Pos[:i]] = true
		}
	}
	var files []string
	for f := range fileSet {
		files = append(files, f)
	}
	sort.Strings(files)
	cov["files_with_obligations"] = files
	for k, v := range c.Extra {
		cov[k] = v
	}
	ev := evidence{PropertyID: c.Prop, Tier: c.Tier, Seed: seedEnv(), Level: "other", Coverage: cov,
		Assumptions: c.Assumptions, WallS: time.Since(c.start).Seconds(), Violations: len(fails)}
	if ev.Assumptions == nil {
		ev.Assumptions = []string{}
	}
	if os.Getenv("VERIF_NO_EVIDENCE") == "" {
		os.MkdirAll(filepath.Join(c.Root, "evidence"), 0o755)
		eb, _ := json.MarshalIndent(ev, "", " ")
		if err := os.WriteFile(filepath.Join(c.Root, "evidence", c.Prop+".json"), eb, 0o644); err != nil {
			fatalf("write evidence: %v", err)
		}
	}
	if len(fails) > 0 {
		fmt.Printf("VIOLATION property=%s replay=%s\n", c.Prop, replay)
		return 1
	}
	return 0
}

func seedEnv() int {
	var s int
	fmt.Sscanf(os.Getenv("VERIF_SEED"), "%d", &s)
	return s
}

// ---- small AST/type helpers -----------------------------------------------------------------------------------

// FuncDecl returns the syntax of a source function.
func (c *Ctx) FuncDecl(fn *ssa.Function) *ast.FuncDecl {
	if d, ok := fn.Syntax().(*ast.FuncDecl); ok {
		return d
	}
	return nil
}

func (c *Ctx) PkgOf(fn *ssa.Function) *packages.Package {
	if fn == nil || fn.Pkg == nil {
		return nil
	}
	return c.ByPath[fn.Pkg.Pkg.Path()]
}

func relPkg(path string) string {
	return strings.TrimPrefix(strings.TrimPrefix(path, modPath), "/")
}

func isNamed(t types.Type, pkgRel, name string) bool {
	if p, ok := t.(*types.Pointer); ok {
		t = p.Elem()
	}
	n, ok := t.(*types.Named)
	if !ok || n.Obj().Pkg() == nil {
		return false
	}
	pp := n.Obj().Pkg().Path()
	if pkgRel != "" && pp != modPath+"/"+pkgRel && pp != pkgRel {
		return false
	}
	return n.Obj().Name() == name
}

func shortFn(fn *ssa.Function) string {
	if fn == nil {
		return "<nil>"
	}
	s := fn.String()
	return strings.ReplaceAll(s, modPath+"/", "")
}
