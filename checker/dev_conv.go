package main

import (
	"fmt"
	"strings"

	"golang.org/x/tools/go/ssa"
)

// development aid: list big.Int -> machine integer conversions in a package
func devConversions(c *Ctx, pkg string) {
	for _, fn := range c.SrcFns {
		if fn.Pkg == nil || relPkg(fn.Pkg.Pkg.Path()) != pkg {
			continue
		}
		f := c.Facts(fn)
		for _, b := range fn.Blocks {
			for _, ins := range b.Instrs {
				name, call := bigMethod(valueOf(ins))
				if call == nil || (name != "Uint64" && name != "Int64") {
					continue
				}
				recv := f.tr.term(nil, call.Call.Args[0], 0)
				var gl []string
				for _, s := range f.At(call) {
					var ls []string
					for _, l := range guardLits(s) {
						if strings.Contains(l, recv) {
							ls = append(ls, l)
						}
					}
					gl = append(gl, "{"+strings.Join(ls, "; ")+"}")
				}
				fmt.Printf("%-40s %s.%s()  %s\n", shortFn(fn), recv, name, strings.Join(gl, " "))
			}
		}
	}
	_ = ssa.Function{}
}
