// Engine `codec`: an encoder/decoder pair that goes through a helper struct (the wire or storage form) is symmetric only
// if the encoder fills every field of the helper and the decoder reads every field of it back. Dropping a field on one
// side compiles, keeps the other side's tests green and silently loses data on the next restart.
package main

import (
	"fmt"
	"go/types"
	"sort"
	"strings"

	"golang.org/x/tools/go/ssa"
)

// helperFieldUse: which fields of the helper struct type `st` are stored to / loaded from in fn (through FieldAddr on a
// value of that struct type).
func helperFieldUse(fn *ssa.Function, st *types.Named) (written, read map[string]bool) {
	written, read = map[string]bool{}, map[string]bool{}
	isHelper := func(t types.Type) bool {
		if p, ok := t.Underlying().(*types.Pointer); ok {
			t = p.Elem()
		}
		return types.Identical(t, st)
	}
	for _, b := range fn.Blocks {
		for _, ins := range b.Instrs {
			switch x := ins.(type) {
			case *ssa.Store:
				if fa, ok := x.Addr.(*ssa.FieldAddr); ok && isHelper(fa.X.Type()) {
					written[fieldName(fa)] = true
				}
			case *ssa.UnOp:
				if fa, ok := x.X.(*ssa.FieldAddr); ok && isHelper(fa.X.Type()) {
					read[fieldName(fa)] = true
				}
			case *ssa.Field:
				if isHelper(x.X.Type()) {
					s := x.X.Type().Underlying().(*types.Struct)
					read[s.Field(x.Field).Name()] = true
				}
			}
		}
	}
	return
}

// CodecSymmetryRule: enc fills every field of the helper struct, dec reads every field of it.
func (c *Ctx) CodecSymmetryRule(rule, pkg, helper, enc, dec string) {
	t := c.Type(pkg + ":" + helper)
	if _, isStruct := t.Underlying().(*types.Struct); !isStruct {
		c.Ob(rule, "helper type "+helper+" is a struct", "", false, "")
		return
	}
	s := t.Underlying().(*types.Struct)
	var all []string
	for i := 0; i < s.NumFields(); i++ {
		all = append(all, s.Field(i).Name())
	}
	check := func(spec, what string, use func(w, r map[string]bool) map[string]bool) {
		if spec == "" {
			return
		}
		fn := c.Fn(pkg + ":" + spec)
		w, r := helperFieldUse(fn, t)
		got := use(w, r)
		var missing []string
		for _, f := range all {
			if !got[f] {
				missing = append(missing, f)
			}
		}
		sort.Strings(missing)
		c.Ob(rule, fmt.Sprintf("%s %s every field of %s", spec, what, helper), c.FnPos(fn), len(missing) == 0, fmt.Sprintf("fields %v; not covered: %s", all, strings.Join(missing, ", ")))
	}
	check(enc, "fills", func(w, r map[string]bool) map[string]bool { return w })
	check(dec, "reads back", func(w, r map[string]bool) map[string]bool { return r })
}
