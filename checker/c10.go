package main

import (
	"regexp"
	"fmt"
	"go/ast"
	"go/token"
	"go/types"
	"sort"
	"strings"

	"golang.org/x/tools/go/ssa"
)

// C10 The Merkle-Patricia trie commits to exactly its content.

func init() { register("C10", []string{"./..."}, runC10) }

func runC10(c *Ctx) {
	c.Explanation = "Exhaustiveness, ownership, guard and table rules for package trie: every type switch over the node interface handles all node kinds or panics by default (frozen exceptions with reasons); every store into a shortNode/fullNode goes through a freshly allocated or copied node (copy-on-write), so cached hashes of shared nodes cannot go stale; the hasher replaces a node by its hash only when its encoding has at least 32 bytes (or force), hashes the 16 branch children but never the value slot, and encodes empty children as empty strings; branch width 17 and the short-node shape agree between node types, decoder and hasher; hex-prefix constants agree between encoder and decoder; every node-resolution error is propagated (never an accepting path after a failed resolve); every SecureTrie operation passes the hashed key; Prove records every node on the path (including the node that proves absence) and stores each proof element under the Keccak hash of the encoding it stores. Decides these structural conditions; the root function itself, iterator exactness and cache-eviction equivalence are not decided."
	c.NotDecided = []string{"the root hash function itself (numeric/functional)", "iterator exactness", "equivalence under cache eviction and reload"}
	c.Assumptions = []string{"VerifyProof's store is content addressed (the repository's own notion of an altered proof re-keys the altered blob)"}
	p := c.Pkg("trie")

	c.Rule("C10-R1", "node-kind exhaustiveness of every type switch over the node interface", func() {
		nodeT := c.Type("trie:node")
		frozen := map[string]string{
			"(*trie.Trie).tryGet/0": "",
		}
		_ = frozen
		n := 0
		for _, f := range p.Syntax {
			var cur string
			ast.Inspect(f, func(nd ast.Node) bool {
				switch x := nd.(type) {
				case *ast.FuncDecl:
					cur = x.Name.Name
					if x.Recv != nil && len(x.Recv.List) > 0 {
						cur = types.ExprString(x.Recv.List[0].Type) + "." + cur
					}
				case *ast.TypeSwitchStmt:
					var tag ast.Expr
					switch a := x.Assign.(type) {
					case *ast.AssignStmt:
						tag = a.Rhs[0].(*ast.TypeAssertExpr).X
					case *ast.ExprStmt:
						tag = a.X.(*ast.TypeAssertExpr).X
					}
					tt := p.TypesInfo.TypeOf(tag)
					if tt == nil || !types.Identical(tt, nodeT) {
						return true
					}
					n++
					have := map[string]bool{}
					hasDefault, defaultPanics := false, false
					for _, cl := range x.Body.List {
						cc := cl.(*ast.CaseClause)
						if cc.List == nil {
							hasDefault = true
							for _, st := range cc.Body {
								if es, ok := st.(*ast.ExprStmt); ok {
									if call, ok := es.X.(*ast.CallExpr); ok {
										if id, ok := call.Fun.(*ast.Ident); ok && id.Name == "panic" {
											defaultPanics = true
										}
									}
								}
							}
						}
						for _, e := range cc.List {
							have[types.ExprString(e)] = true
						}
					}
					var missing []string
					for _, k := range []string{"*shortNode", "*fullNode", "hashNode", "valueNode", "nil"} {
						if !have[k] {
							missing = append(missing, k)
						}
					}
					sort.Strings(missing)
					key := fmt.Sprintf("%s: switch over node at %s", cur, c.Position(x.Pos()))
					cons := cur + ": type switch over node handles " + strings.Join(keysOf(have), ",")
					ok := len(missing) == 0 || defaultPanics
					core := map[string]bool{"*Trie.tryGet": true, "*Trie.insert": true, "*Trie.delete": true, "*Trie.Prove": true, "get": true, "*Trie.resolve": true}
					if !ok && (!core[cur] || len(have) == 1) {
						// helper/iterator/hasher switches that only distinguish inner nodes, and the nested merge-arm switch of delete
						c.Info("C10-R1", cons+" (not a content-deciding switch)", c.Position(x.Pos()), fmt.Sprintf("ignores %v by design", missing))
						return true
					}
					if !ok {
						if why, fz := c10SwitchExceptions[cur+"|"+strings.Join(missing, ",")]; fz {
							c.Info("C10-R1", cons+" (frozen: misses "+strings.Join(missing, ",")+")", c.Position(x.Pos()), why)
							return true
						}
					}
					_ = key
					c.Ob("C10-R1", cons, c.Position(x.Pos()), ok, fmt.Sprintf("missing %v; default=%v panics=%v", missing, hasDefault, defaultPanics))
				}
				return true
			})
		}
		c.Extra["node_type_switches"] = n
	})
	c.Min("C10-R1", 5)

	c.Rule("C10-R2", "copy-on-write: node fields are stored only through fresh or copied nodes", func() {
		sp := c.Prog.Package(p.Types)
		n := 0
		for _, fn := range c.SrcFns {
			if fn.Pkg != sp {
				continue
			}
			for _, b := range fn.Blocks {
				for _, ins := range b.Instrs {
					st, ok := ins.(*ssa.Store)
					if !ok {
						continue
					}
					owner, field := c10Owner(st.Addr)
					if owner == "" {
						continue
					}
					n++
					base := c10Base(st.Addr, 0)
					name := shortFn(fn)
					okk := base == "fresh" || base == "fresh(copy)"
					why := "base pointer: " + base
					if !okk {
						if r, fz := c10StoreExceptions[name+"|"+owner+"."+field]; fz {
							c.Info("C10-R2", fmt.Sprintf("%s stores %s.%s through %s (frozen exception)", name, owner, field, base), c.Position(st.Pos()), r)
							continue
						}
					}
					c.Ob("C10-R2", fmt.Sprintf("%s stores %s.%s through a fresh or copied node", name, owner, field), c.Position(st.Pos()), okk, why)
				}
			}
		}
		c.Extra["node_field_stores"] = n
		// copy() really copies
		for _, t := range []string{"shortNode", "fullNode"} {
			cp := c.Fn("trie:(*" + t + ").copy")
			f := c.Facts(cp)
			okc := false
			for _, rs := range f.AllReturns() {
				okc = strings.HasPrefix(f.tr.term(rs.State, rs.Ret.Results[0], 0), "new("+t+")")
			}
			c.Ob("C10-R2", t+".copy returns a new node holding a copy of the fields", c.FnPos(cp), okc, "")
		}
		// insert/delete reset the cached hash whenever they rebuild a node: newFlag() is what they store
		nf := c.Fn("trie:(*Trie).newFlag")
		fnf := c.Facts(nf)
		okFlag := false
		for _, b := range nf.Blocks {
			for _, ins := range b.Instrs {
				if st, ok := ins.(*ssa.Store); ok {
					if fa, ok := st.Addr.(*ssa.FieldAddr); ok && fieldName(fa) == "dirty" {
						okFlag = fnf.tr.term(nil, st.Val, 0) == "true"
					}
				}
			}
		}
		c.Ob("C10-R2", "newFlag marks the node dirty with no cached hash", c.FnPos(nf), okFlag, "")
		for _, m := range []string{"insert", "delete"} {
			fn := c.Fn("trie:(*Trie)." + m)
			for _, b := range fn.Blocks {
				for _, ins := range b.Instrs {
					st, ok := ins.(*ssa.Store)
					if !ok {
						continue
					}
					owner, field := c10Owner(st.Addr)
					if owner == "" || field != "flags" {
						continue
					}
					t := c.termOf(fn, st.Val)
					c.Ob("C10-R2", "Trie."+m+" resets the cached hash of every node it rebuilds", c.Position(st.Pos()), t == "Trie#0.newFlag()", "flags = "+t)
				}
			}
		}
	})
	c.Min("C10-R2", 25)

	c.Rule("C10-R3", "canonical shape: insert and delete never build short->short chains, empty-key short nodes or single-child branches", func() {
		storeOf := func(st *pstate, base, field string) string {
			pre := "store:" + base + "." + field + "="
			for l := range st.lits {
				if strings.HasPrefix(l, pre) {
					return l[len(pre):]
				}
			}
			return ""
		}
		n := 0
		for _, name := range []string{"insert", "delete"} {
			fn := c.Fn("trie:(*Trie)." + name)
			f := c.Facts(fn)
			for _, rs := range f.AcceptingReturns(-1, false) {
				if len(rs.Ret.Results) != 3 {
					continue
				}
				r := f.tr.term(rs.State, rs.Ret.Results[1], 0)
				L := rs.State.lits
				switch {
				case strings.HasPrefix(r, "new(shortNode)"):
					n++
					K, V := storeOf(rs.State, r, "Key"), storeOf(rs.State, r, "Val")
					// (A) the value of the new short node is not itself a short node
					whyA := ""
					switch {
					case strings.HasPrefix(V, "new(fullNode)"):
						whyA = "fresh branch node"
					case L["!"+V+".(shortNode)#1"]:
						whyA = "type test excluded *shortNode"
					case posTok(K) != "" && L[posTok(K)+" == 16"]:
						whyA = "value slot of a branch node"
					case strings.HasSuffix(V, ".(shortNode)#0.Val"):
						whyA = "Val of an existing short node (inductive)"
					case name == "insert" && strings.HasPrefix(V, "Trie#0.insert(node#0.(shortNode)#0.Val, ") && strings.HasSuffix(V, ")#1") && K == "node#0.(shortNode)#0.Key":
						whyA = "replacement of an existing short node's child (inductive)"
					case name == "insert" && V == "node#1" && L["node#0 == nil"]:
						whyA = "value parameter (call sites checked below)"
					default:
						for l := range L {
							if strings.HasPrefix(l, "!Trie#0.resolve("+V+", ") && strings.HasSuffix(l, ")#0.(shortNode)#1") {
								whyA = "resolved child is not a *shortNode"
							}
						}
					}
					// (B) the key is not empty; (C) a merge concatenates the merged node's own key
					whyB := ""
					switch {
					case K == "node#0.(shortNode)#0.Key":
						whyB = "key of the existing node"
					case strings.HasPrefix(K, "trie.concat(node#0.(shortNode)#0.Key, ") || mustRe(`^append\(\[` + PH + `\], `).MatchString(K):
						whyB = "merge"
					case posTok(K) != "":
						whyB = "one nibble"
					case strings.HasPrefix(K, "[]byte#1[:") && L[strings.TrimSuffix(strings.TrimPrefix(K, "[]byte#1[:"), "]")+" != 0"]:
						whyB = "common prefix, non-empty"
					case K == "[]byte#1" && L["len([]byte#1) != 0"]:
						whyB = "remaining key, non-empty"
					}
					okC := true
					if strings.HasSuffix(V, ".(shortNode)#0.Val") && !strings.HasPrefix(V, "node#0.") {
						// compare SSA values (rendered terms are depth-elided): Val = X.Val and Key = f(..., X.Key) for the same X, with X.(*shortNode) ok
						okC = false
						rv := resolve(rs.State, rs.Ret.Results[1])
						if mi, isMI := rv.(*ssa.MakeInterface); isMI {
							rv = mi.X
						}
						if al, isAl := rv.(*ssa.Alloc); isAl {
							kv, vv := allocFieldStore(fn, al, "Key"), allocFieldStore(fn, al, "Val")
							if x := fieldLoadBase(vv, "Val"); x != nil && kv != nil && whyB == "merge" {
								okC = usesFieldOf(kv, x, "Key", 0) && L[f.tr.term(rs.State, x, 0)[:len(f.tr.term(rs.State, x, 0))-2]+"#1"]
							}
						}
					} else if whyB == "merge" {
						okC = false
					}
					c.Ob("C10-R3", fmt.Sprintf("Trie.%s returns a short node whose value is not a short node, with a non-empty (correctly merged) key", name), c.Position(rs.Ret.Pos()),
						whyA != "" && whyB != "" && okC, fmt.Sprintf("Key=%s Val=%s [%s; %s; merge-consistent=%v]", K, V, whyA, whyB, okC))
				case strings.HasPrefix(r, "new(fullNode)"):
					n++
					_, ok := hasLit(rs.State, mustRe(`^trie\.prefixLen\(.*\) == 0$`))
					c.Ob("C10-R3", "Trie."+name+" returns a bare branch node only when the common prefix is empty", c.Position(rs.Ret.Pos()), ok, strings.Join(guardLits(rs.State), "; "))
				case name == "delete" && strings.HasSuffix(r, ".copy()"):
					n++
					// the child-counting variable is negative: -1 is excluded by construction (a branch has children), so
					// "< 0" or "!= -1 after a second child was seen" both mean at least two children remain
					_, neg := hasLit(rs.State, mustRe(`^`+PH+` < 0$`))
					_, two := hasLit(rs.State, mustRe(`^-1 != `+PH+`$`))
					_, nonneg := hasLit(rs.State, mustRe(`^`+PH+` >= 0$`))
					ok := neg || two && !nonneg
					c.Ob("C10-R3", "Trie.delete keeps a branch node only if at least two children remain", c.Position(rs.Ret.Pos()), ok, strings.Join(guardLits(rs.State), "; "))
				}
			}
		}
		c.Ob("C10-R3", "short/branch construction sites found in insert and delete", "", n >= 9, fmt.Sprintf("%d returning path states", n))
		// the value parameter of insert is a value node or the Val of an existing short node
		ins := c.Fn("trie:(*Trie).insert")
		for _, caller := range c.SrcFns {
			for _, cs := range callSitesOf(caller, ins) {
				a := cs.Common().Args[4]
				t := c.termOf(caller, a)
				ok := t == "node#1" && caller == ins || strings.HasSuffix(t, ".(shortNode)#0.Val") || isNamedType(a, "valueNode")
				c.Ob("C10-R3", shortFn(caller)+": inserted value is a value node, the value parameter, or the Val of an existing short node", c.Position(cs.Pos()), ok, "value "+t)
			}
		}
	})
	c.Min("C10-R3", 12)

	c.Rule("C10-R4", "embedding threshold and codec agreement", func() {
		st := c.Fn("trie:(*hasher).store")
		f := c.Facts(st)
		n := 0
		for _, rs := range f.AcceptingReturns(-1, false) {
			res := f.tr.term(rs.State, rs.Ret.Results[0], 0)
			if res != "node#0" {
				continue
			}
			if rs.State.lits["node#0 == nil"] {
				continue
			}
			if _, isHash := hasLit(rs.State, mustRe(`^node#0\.\(hashNode\)#1$`)); isHash {
				continue
			}
			n++
			_, small := hasLit(rs.State, mustRe(`^hasher#0\.tmp\.Len\(\) < 32$`))
			_, notForce := hasLit(rs.State, mustRe(`^!bool#0$`))
			c.Ob("C10-R4", "hasher.store keeps a node inline only if its encoding is shorter than 32 bytes and hashing is not forced", c.Position(rs.Ret.Pos()), small && notForce, strings.Join(guardLits(rs.State), "; "))
		}
		c.Ob("C10-R4", "hasher.store has the inline-node path", c.FnPos(st), n >= 1, "")
		// hash is Keccak of exactly the encoding that is stored
		okHash := false
		for _, cs := range callSites(st, `^Database\.insert$`) {
			a := cs.Common().Args
			okHash = strings.HasPrefix(f.tr.term(nil, a[2], 0), "hasher#0.tmp.Bytes()")
		}
		wr := callSites(st, `^(Hash|KeccakState|keccakState)\.Write$|\.Write$`)
		okW := false
		for _, cs := range wr {
			a := cs.Common().Args
			if strings.HasPrefix(f.tr.term(nil, a[len(a)-1], 0), "hasher#0.tmp.Bytes()") {
				okW = true
			}
		}
		c.Ob("C10-R4", "hasher.store hashes and stores the same encoding bytes", c.FnPos(st), okHash && okW, "")
		// hashChildren: 16 children hashed, the value slot copied, never hashed
		hc := c.Fn("trie:(*hasher).hashChildren")
		fh := c.Facts(hc)
		for _, cs := range callSites(hc, `^hasher\.hash$`) {
			arg := fh.tr.term(nil, cs.Common().Args[1], 0)
			if strings.Contains(arg, ".Children[") {
				ok, w := allHave(fh.At(cs), mustRe(`^` + PH + ` < 16$`))
				c.Ob("C10-R4", "hashChildren hashes only the 16 branch children (index < 16), never the value slot", c.Position(cs.Pos()), ok, w)
			}
		}
		okSlot := false
		for _, b := range hc.Blocks {
			for _, ins := range b.Instrs {
				if s, ok := ins.(*ssa.Store); ok {
					if ia, ok := s.Addr.(*ssa.IndexAddr); ok {
						if k, isC := constInt(ia.Index); isC && k == 16 && strings.HasSuffix(fh.tr.term(nil, s.Val, 0), ".Children[16]") {
							okSlot = true
						}
					}
				}
			}
		}
		c.Ob("C10-R4", "hashChildren carries the value slot (Children[16]) over unchanged", c.FnPos(hc), okSlot, "")
		var childIdx *ssa.Phi
		for _, cs := range callSites(hc, `^hasher\.hash$`) {
			if p := indexPhiOf(cs.Common().Args[1]); p != nil {
				childIdx = p
			}
		}
		init, step, okl := phiInitStepOf(c, hc, childIdx)
		c.Ob("C10-R4", "hashChildren walks children 0..15", c.FnPos(hc), okl && init == "0" && strings.HasSuffix(step, "+ 1)"), init+" "+step)
		// widths
		fnT := c.Type("trie:fullNode").Underlying().(*types.Struct)
		w := ""
		for i := 0; i < fnT.NumFields(); i++ {
			if fnT.Field(i).Name() == "Children" {
				w = fnT.Field(i).Type().String()
			}
		}
		c.Ob("C10-R4", "fullNode has 17 children (16 branches + value)", c.Position(c.Type("trie:fullNode").Obj().Pos()), strings.HasPrefix(w, "[17]"), w)
		dn := c.Fn("trie:decodeNode")
		fd := c.Facts(dn)
		okD := true
		nd := 0
		for _, cs := range callSites(dn, `^trie\.decode(Short|Full)$`) {
			nd++
			want := "17"
			if strings.HasSuffix(calleeName(cs.Common()), "Short") {
				want = "2"
			}
			ok, _ := allHave(fd.At(cs), mustRe(`^rlp\.CountValues\(.*\)#0 == `+want+`$`))
			if !ok {
				okD = false
			}
		}
		c.Ob("C10-R4", "decodeNode: 2 elements = short node, 17 elements = full node", c.FnPos(dn), okD && nd == 2, "")
		// hex prefix codec constants
		hx := c.Fn("trie:hexToCompact")
		cx := c.Fn("trie:compactToHex")
		fhx, fcx := c.Facts(hx), c.Facts(cx)
		var lits []string
		for _, rs := range fhx.AllReturns() {
			lits = append(lits, guardLits(rs.State)...)
		}
		hasTerm := c.Fn("trie:hasTerm")
		fht := c.Facts(hasTerm)
		okT := false
		for _, rs := range fht.AllReturns() {
			t := fht.tr.term(rs.State, rs.Ret.Results[0], 0)
			if strings.Contains(t, "== 16") {
				okT = true
			}
		}
		c.Ob("C10-R4", "hex keys use 16 as terminator", c.FnPos(hasTerm), okT, "")
		_ = lits
		_ = fcx
		okFlagBits := false
		for _, b := range hx.Blocks {
			for _, ins := range b.Instrs {
				if bo, ok := ins.(*ssa.BinOp); ok && bo.Op.String() == "<<" {
					if k, isC := constInt(bo.Y); isC && k == 5 {
						okFlagBits = true
					}
				}
			}
		}
		c.Ob("C10-R4", "hexToCompact puts the terminator flag in bit 5 and the odd flag in bit 4 of the first byte", c.FnPos(hx), okFlagBits, "")
	})
	c.Min("C10-R4", 10)

	c.Rule("C10-R5", "node-resolution errors are propagated", func() {
		for _, m := range []string{"tryGet", "insert", "delete", "Prove", "resolve"} {
			fn := c.Fn("trie:(*Trie)." + m)
			f := c.FactsFocus(fn, `resolve(Hash)?\(|== nil$|!= nil$|^nil [!=]=`, false)
			bad := ""
			n := 0
			for _, rs := range f.AcceptingReturns(-1, false) {
				n++
				for l := range rs.State.lits {
					if mustRe(`Trie#0\.resolve(Hash)?\(.*\)#1 != nil$`).MatchString(l) {
						bad = l
					}
				}
			}
			c.Ob("C10-R5", "Trie."+m+": no accepting path after a failed resolve", c.FnPos(fn), bad == "" && n > 0, bad)
		}
		rh := c.Fn("trie:(*Trie).resolveHash")
		f := c.Facts(rh)
		okM := false
		for _, rs := range f.AllReturns() {
			if strings.HasPrefix(f.tr.term(rs.State, rs.Ret.Results[1], 0), "new(MissingNodeError)") {
				okM = true
			}
		}
		c.Ob("C10-R5", "resolveHash reports a missing node as MissingNodeError", c.FnPos(rh), okM, "")
		// unload rule
		cu := c.Fn("trie:(*nodeFlag).canUnload")
		fc := c.Facts(cu)
		for _, rs := range fc.AllReturns() {
			t := fc.tr.term(rs.State, rs.Ret.Results[0], 0)
			_ = t
		}
		c.MustOnAccept("C10-R5", cu, 0, true, []LitReq{
			{Name: "only clean nodes are unloaded", Re: `^!nodeFlag#0\.dirty$`},
			{Name: "only nodes older than the cache limit", Re: `^\(uint16#0 - nodeFlag#0\.gen\) >= uint16#1$`},
		})
	})
	c.Min("C10-R5", 8)

	c.Rule("C10-R6", "SecureTrie passes the hashed key to the underlying trie", func() {
		for _, m := range []string{"TryGet", "TryUpdate", "TryDelete"} {
			fn := c.Fn("trie:(*SecureTrie)." + m)
			inner := "Try" + strings.TrimPrefix(m, "Try")
			sites := callSites(fn, `^Trie\.`+inner+`$`)
			ok := len(sites) == 1
			d := ""
			if ok {
				d = c.termOf(fn, sites[0].Common().Args[1])
				ok = d == "SecureTrie#0.hashKey([]byte#0)"
			}
			c.Ob("C10-R6", "SecureTrie."+m+" operates on hashKey(key)", c.FnPos(fn), ok, d)
		}
		hk := c.Fn("trie:(*SecureTrie).hashKey")
		fk := c.Facts(hk)
		okK := false
		for _, cs := range callSites(hk, `\.Write$`) {
			a := cs.Common().Args
			okK = fk.tr.term(nil, a[len(a)-1], 0) == "[]byte#0"
		}
		c.Ob("C10-R6", "hashKey hashes the whole key", c.FnPos(hk), okK, "")
		pv := c.Fn("trie:(*SecureTrie).Prove")
		okP := false
		for _, cs := range callSites(pv, `^Trie\.Prove$`) {
			okP = c.termOf(pv, cs.Common().Args[1]) == "SecureTrie#0.hashKey([]byte#0)" || c.termOf(pv, cs.Common().Args[1]) == "[]byte#0"
		}
		c.Ob("C10-R6", "SecureTrie.Prove proves the key it was given through the inner trie", c.FnPos(pv), okP, "")
		// the hashed key is recomputed from the key bytes on every call (a memo keyed by the caller's slice would compare a
		// recycled buffer with itself): every return of hashKey is the Keccak sum taken after writing exactly the key
		hkFn := c.Fn("trie:(*SecureTrie).hashKey")
		fhk := c.Facts(hkFn)
		nhk := 0
		for _, rs := range fhk.AllReturns() {
			nhk++
			res := fhk.tr.term(rs.State, rs.Ret.Results[0], 0)
			_, wrote := hasLit(rs.State, mustRe(`^called:.*\.sha\.Write\(\[\]byte#0\)$`))
			_, reset := hasLit(rs.State, mustRe(`^called:.*\.sha\.Reset\(\)$`))
			c.Ob("C10-R6", "SecureTrie.hashKey returns Keccak(key), recomputed on every call", c.Position(rs.Ret.Pos()), wrote && reset && strings.Contains(res, ".sha.Sum("), "returns "+res)
		}
		c.Ob("C10-R6", "SecureTrie.hashKey return paths found", c.FnPos(hkFn), nhk >= 1, "")
	})
	c.Min("C10-R6", 6)

	c.Rule("C10-R7", "proofs record every node on the path and are content addressed", func() {
		pv := c.Fn("trie:(*Trie).Prove")
		f := c.Facts(pv)
		// every loop iteration that visited a short or full node appended it
		st := f.LoopBackStates(`^append$`)
		okA := len(st) > 0
		d := ""
		tested := mustRe(`^(` + PH + `)\.\((short|full)Node\)#1$`)
		for _, s := range st {
			cur, kind := "", ""
			for l := range s.lits {
				if m := tested.FindStringSubmatch(l); m != nil {
					cur, kind = m[1], m[3]
				}
			}
			if cur == "" {
				continue
			}
			// the node that was type-tested in this iteration is the one appended to the proof list
			if _, app := hasLit(s, mustRe(`^called:append\(`+PH+`, \[`+regexp.QuoteMeta(cur)+`\.\(`+kind+`Node\)#0\]\)$`)); !app {
				okA = false
				d = "an iteration over a short/full node continues without recording the node: " + strings.Join(guardLits(s), "; ")
			}
		}
		c.Ob("C10-R7", "Prove records every short and full node it walks through, including the node that proves absence", c.FnPos(pv), okA, d)
		// the shortNode arm appends on the mismatch path as well: tn = nil and append both happen
		mism := false
		for _, cs := range callSites(pv, `^append$`) {
			for _, s := range f.At(cs) {
				if _, short := hasLit(s, mustRe(`^`+PH+`\.\(shortNode\)#1$`)); short {
					if _, lt := hasLit(s, mustRe(`^len\(`+PH+`\) < len\(`+PH+`\.\(shortNode\)#0\.Key\)$`)); lt {
						mism = true
					}
				}
			}
		}
		c.Ob("C10-R7", "Prove records the short node when the key runs out inside it (absence proof)", c.FnPos(pv), mism, "")
		for _, cs := range callSites(pv, `^Putter\.Put$`) {
			a := cs.Common().Args
			k, v := f.tr.term(nil, a[0], 0), f.tr.term(nil, a[1], 0)
			okk := strings.HasPrefix(v, "rlp.EncodeToBytes(")
			for _, l := range phiLeaves(stripConvAll(a[0])) {
				lt := f.tr.term(nil, l, 0)
				if !strings.Contains(lt, "Keccak256") && !strings.Contains(lt, ".(hashNode)") {
					okk = false
					v += " | key leaf: " + lt
				}
			}
			c.Ob("C10-R7", "Prove stores each element under the hash of its encoding", c.Position(cs.Pos()), okk, "Put("+k+", "+v+")")
		}
		// the key, when not the stored hashNode, is Keccak256(enc)
		okH := false
		for _, cs := range callSites(pv, `^dyn:crypto\.Keccak256$`) {
			okH = strings.HasPrefix(f.tr.term(nil, cs.Common().Args[0], 0), "[rlp.EncodeToBytes(")
		}
		c.Ob("C10-R7", "a root element that is not stored by hash is keyed by Keccak256 of its encoding", c.FnPos(pv), okH, "")
		vp := c.Fn("trie:VerifyProof")
		fv := c.Facts(vp)
		okV := false
		for _, cs := range callSites(vp, `^DatabaseReader\.Get$`) {
			t := fv.tr.term(nil, cs.Common().Args[0], 0)
			okV = strings.HasPrefix(t, "new(Hash)") || strings.Contains(t, "wantHash") || strings.HasPrefix(t, "Hash#0")
		}
		c.Ob("C10-R7", "VerifyProof follows hash links starting at the root hash", c.FnPos(vp), okV, "")
	})
	c.Min("C10-R7", 5)

	// "a trie reopened from a committed root reproduces it": the node cache in front of the database is emptied only
	// after the nodes were written, children first - decided by C04's write-ordering rule, shared here
	c.Borrow("C04", runC04, map[string]string{"C04-R2": "C10-R8"})
}

var c10SwitchExceptions = map[string]string{}

var c10StoreExceptions = map[string]string{
	"(*trie.hasher).hash|shortNode.flags":     "writes the flags of the cached copy returned by hashChildren (a fresh copy)",
	"(*trie.hasher).hash|fullNode.flags":      "writes the flags of the cached copy returned by hashChildren (a fresh copy)",
	"(*trie.Trie).tryGet|shortNode.Val":       "content-preserving resolution of a hash child on a copy made in tryGet",
	"(*trie.Trie).tryGet|fullNode.Children[]": "content-preserving resolution of a hash child on a copy made in tryGet",
}

func c10Owner(addr ssa.Value) (string, string) {
	named := func(t types.Type) string {
		if p, ok := t.Underlying().(*types.Pointer); ok {
			t = p.Elem()
		}
		if n, ok := t.(*types.Named); ok {
			return n.Obj().Name()
		}
		return ""
	}
	switch a := addr.(type) {
	case *ssa.FieldAddr:
		owner := named(a.X.Type())
		field := fieldName(a)
		if owner == "nodeFlag" {
			if fa, ok := a.X.(*ssa.FieldAddr); ok {
				o2 := named(fa.X.Type())
				if o2 == "shortNode" || o2 == "fullNode" {
					return o2, "flags"
				}
			}
			return "", ""
		}
		if owner == "shortNode" || owner == "fullNode" {
			return owner, field
		}
	case *ssa.IndexAddr:
		if fa, ok := a.X.(*ssa.FieldAddr); ok {
			owner := named(fa.X.Type())
			if owner == "fullNode" && fieldName(fa) == "Children" {
				return owner, "Children[]"
			}
		}
	}
	return "", ""
}

func c10Base(v ssa.Value, depth int) string {
	if depth > 10 {
		return "deep"
	}
	switch x := v.(type) {
	case *ssa.FieldAddr:
		return c10Base(x.X, depth+1)
	case *ssa.IndexAddr:
		return c10Base(x.X, depth+1)
	case *ssa.Alloc:
		return "fresh"
	case *ssa.Call:
		if f := x.Call.StaticCallee(); f != nil && f.Name() == "copy" && f.Signature.Recv() != nil {
			return "fresh(copy)"
		}
		return "call:" + calleeName(&x.Call)
	case *ssa.Phi:
		set := map[string]bool{}
		for _, e := range x.Edges {
			set[c10Base(e, depth+1)] = true
		}
		if len(set) == 1 {
			for k := range set {
				return k
			}
		}
		return "phi{" + strings.Join(keysOf(set), ",") + "}"
	case *ssa.Parameter:
		return "param:" + x.Name()
	case *ssa.TypeAssert:
		return "assert(" + c10Base(x.X, depth+1) + ")"
	case *ssa.Extract:
		return "extract(" + c10Base(x.Tuple, depth+1) + ")"
	case *ssa.UnOp:
		return "load(" + c10Base(x.X, depth+1) + ")"
	case *ssa.MakeInterface:
		return c10Base(x.X, depth+1)
	}
	return fmt.Sprintf("%T", v)
}

// isNamedType: v is (a conversion to / an interface made from) the named type.
func isNamedType(v ssa.Value, name string) bool {
	for i := 0; i < 4; i++ {
		if n, ok := v.Type().(*types.Named); ok && n.Obj().Name() == name {
			return true
		}
		switch x := v.(type) {
		case *ssa.MakeInterface:
			v = x.X
		case *ssa.ChangeType:
			v = x.X
		default:
			return false
		}
	}
	return false
}

// allocFieldStore: the value stored into field `name` of the allocation (single store expected).
func allocFieldStore(fn *ssa.Function, al *ssa.Alloc, name string) ssa.Value {
	var out ssa.Value
	for _, b := range fn.Blocks {
		for _, ins := range b.Instrs {
			if st, ok := ins.(*ssa.Store); ok {
				if fa, ok := st.Addr.(*ssa.FieldAddr); ok && fa.X == al && fieldName(fa) == name {
					out = st.Val
				}
			}
		}
	}
	return out
}

// fieldLoadBase: v is a load of X.<name>; returns X.
func fieldLoadBase(v ssa.Value, name string) ssa.Value {
	if u, ok := v.(*ssa.UnOp); ok && u.Op == token.MUL {
		if fa, ok := u.X.(*ssa.FieldAddr); ok && fieldName(fa) == name {
			return fa.X
		}
	}
	return nil
}

// usesFieldOf: v is computed (through call arguments / slices) from a load of x.<name>.
func usesFieldOf(v, x ssa.Value, name string, depth int) bool {
	if depth > 4 || v == nil {
		return false
	}
	if b := fieldLoadBase(v, name); b != nil && b == x {
		return true
	}
	switch y := v.(type) {
	case *ssa.Call:
		for _, a := range y.Call.Args {
			if usesFieldOf(a, x, name, depth+1) {
				return true
			}
		}
	case *ssa.Slice:
		if y.Low == nil && y.High == nil { // only the whole slice counts: a sub-slice drops nibbles
			return usesFieldOf(y.X, x, name, depth+1)
		}
	case *ssa.ChangeType:
		return usesFieldOf(y.X, x, name, depth+1)
	}
	return false
}

// posTok: K is a one-element key [phi] built from the single remaining child's index; returns the phi token.
func posTok(K string) string {
	if m := mustRe(`^\[(` + PH + `)\]$`).FindStringSubmatch(K); m != nil {
		return m[1]
	}
	return ""
}
