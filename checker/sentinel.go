// Engine `sentinel`: error values that some code recognises by identity (err == ErrX, switch err { case ErrX }) must
// be produced as that very value. Wrapping such a sentinel (fmt.Errorf("...: %w", ErrX)) at a producer compiles, reads
// as an improvement and silently turns the consumer's comparison into "never equal".
package main

import (
	"fmt"
	"go/token"
	"sort"
	"strings"

	"golang.org/x/tools/go/ssa"
)

// SentinelIdentityRule: module-wide. Returns (sentinels compared by identity, wrapping sites examined).
func (c *Ctx) SentinelIdentityRule(rule string, only func(g *ssa.Global) bool) (int, int) {
	isErrGlobalLoad := func(v ssa.Value) *ssa.Global {
		if mi, ok := v.(*ssa.MakeInterface); ok {
			v = mi.X
		}
		u, ok := v.(*ssa.UnOp)
		if !ok || u.Op != token.MUL {
			return nil
		}
		g, ok := u.X.(*ssa.Global)
		if !ok || !isErrorType(u.Type()) || g.Pkg == nil || !strings.HasPrefix(g.Pkg.Pkg.Path(), modPath) {
			return nil
		}
		return g
	}
	compared := map[*ssa.Global]string{}
	for _, fn := range c.SrcFns {
		for _, b := range fn.Blocks {
			for _, ins := range b.Instrs {
				bo, ok := ins.(*ssa.BinOp)
				if !ok || (bo.Op != token.EQL && bo.Op != token.NEQ) {
					continue
				}
				for _, v := range []ssa.Value{bo.X, bo.Y} {
					if g := isErrGlobalLoad(v); g != nil && (only == nil || only(g)) {
						if _, seen := compared[g]; !seen {
							compared[g] = shortFn(fn)
						}
					}
				}
			}
		}
	}
	sites := 0
	for _, fn := range c.SrcFns {
		if fn.Synthetic != "" {
			continue
		}
		for _, b := range fn.Blocks {
			for _, ins := range b.Instrs {
				call, ok := ins.(*ssa.Call)
				if !ok {
					continue
				}
				f := call.Call.StaticCallee()
				if f == nil || f.Pkg == nil || f.Pkg.Pkg.Path()+"."+f.Name() != "fmt.Errorf" {
					continue
				}
				sites++
				// the variadic pack: stores into the backing array
				if len(call.Call.Args) < 2 {
					continue
				}
				sl, ok := call.Call.Args[1].(*ssa.Slice)
				if !ok {
					continue
				}
				al, ok := sl.X.(*ssa.Alloc)
				if !ok {
					continue
				}
				for _, st := range storesInto(fn, al) {
					if g := isErrGlobalLoad(st); g != nil {
						if where, isCmp := compared[g]; isCmp {
							c.Ob(rule, fmt.Sprintf("%s wraps %s.%s, which %s recognises by identity", shortFn(fn), g.Pkg.Pkg.Name(), g.Name(), where), c.Position(call.Pos()), false,
								"the wrapped error is no longer equal to the sentinel: the consumer's comparison silently stops matching")
						}
					}
				}
			}
		}
	}
	var names []string
	for g := range compared {
		names = append(names, g.Pkg.Pkg.Name()+"."+g.Name())
	}
	sort.Strings(names)
	c.Extra["sentinels_compared_by_identity"] = names
	c.Ob(rule, "no error that is recognised by identity is wrapped where it is produced", "", true, fmt.Sprintf("%d sentinels compared by identity, %d fmt.Errorf sites examined", len(compared), sites))
	return len(compared), sites
}
