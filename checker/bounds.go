// Engine `bounds`: every constant / guarded slice bound or index on byte slices inside a network-input function is
// implied by dominating length facts (branch literals) or by construction (make with constant size, array length).
package main

import (
	"fmt"
	"go/types"
	"regexp"
	"strconv"
	"strings"

	"golang.org/x/tools/go/ssa"
)

var lenGE = regexp.MustCompile(`^len\((.*)\) (>=|>|==|!=) (\d+)$`)

// minLenFromLits: the largest k such that the state guarantees len(term) >= k.
func minLenFromLits(s *pstate, term string) int64 {
	var best int64
	for l := range s.lits {
		m := lenGE.FindStringSubmatch(l)
		if m == nil || m[1] != term {
			continue
		}
		k, _ := strconv.ParseInt(m[3], 10, 64)
		switch m[2] {
		case ">=", "==":
			if k > best {
				best = k
			}
		case ">":
			if k+1 > best {
				best = k + 1
			}
		case "!=":
			if k == 0 && best < 1 {
				best = 1
			}
		}
	}
	// len(term) >= T with T == k / T >= k on the same path
	pre := "len(" + term + ") "
	for l := range s.lits {
		if !strings.HasPrefix(l, pre) {
			continue
		}
		rest := l[len(pre):]
		var add int64
		var t string
		switch {
		case strings.HasPrefix(rest, ">= "):
			t = rest[3:]
		case strings.HasPrefix(rest, "> "):
			t, add = rest[2:], 1
		case strings.HasPrefix(rest, "== "):
			t = rest[3:]
		default:
			continue
		}
		if _, err := strconv.ParseInt(t, 10, 64); err == nil {
			continue
		}
		for _, op := range []string{" == ", " >= ", " > "} {
			for m := range s.lits {
				if !strings.HasPrefix(m, t+op) {
					continue
				}
				k, err := strconv.ParseInt(m[len(t+op):], 10, 64)
				if err != nil {
					continue
				}
				if op == " > " {
					k++
				}
				if k+add > best {
					best = k + add
				}
			}
		}
	}
	return best
}

// minLen: lower bound of len(v) in state s, following constant re-slicing, arrays and constant-size makes.
func minLenOf(f *Facts, s *pstate, v ssa.Value, depth int) int64 {
	if depth > 6 {
		return 0
	}
	v = resolve(s, v)
	t := f.tr.term(s, v, 0)
	best := minLenFromLits(s, t)
	switch x := v.(type) {
	case *ssa.Slice:
		lo, hi := int64(0), int64(-1)
		okLo, okHi := true, false
		if x.Low != nil {
			lo, okLo = constInt(resolve(s, x.Low))
		}
		if x.High != nil {
			hi, okHi = constInt(resolve(s, x.High))
		}
		if okLo && okHi && hi-lo > best {
			best = hi - lo // X[lo:hi] has exactly hi-lo elements (bounds checked at the slice expression itself)
		}
		if okLo && x.High == nil {
			if b := minLenOf(f, s, x.X, depth+1) - lo; b > best {
				best = b
			}
		}
		if arr, ok := derefArray(x.X.Type()); ok && x.High == nil && okLo {
			if arr-lo > best {
				best = arr - lo
			}
		}
	case *ssa.MakeSlice:
		if k, ok := constInt(resolve(s, x.Len)); ok && k > best {
			best = k
		} else if !ok {
			lt := f.tr.term(s, x.Len, 0)
			for _, op := range []string{" == ", " >= ", " > "} {
				for m := range s.lits {
					if strings.HasPrefix(m, lt+op) {
						if k, err := strconv.ParseInt(m[len(lt+op):], 10, 64); err == nil {
							if op == " > " {
								k++
							}
							if k > best {
								best = k
							}
						}
					}
				}
			}
		}
	case *ssa.Alloc:
		if arr, ok := derefArray(x.Type()); ok && arr > best {
			best = arr
		}
	}
	if arr, ok := derefArray(v.Type()); ok && arr > best {
		best = arr
	}
	return best
}

func derefArray(t types.Type) (int64, bool) {
	if p, ok := t.Underlying().(*types.Pointer); ok {
		t = p.Elem()
	}
	if a, ok := t.Underlying().(*types.Array); ok {
		return a.Len(), true
	}
	return 0, false
}

// boundsAccept: property-specific accepted forms (interprocedural postconditions established by another rule).
var boundsAccept func(f *Facts, s *pstate, base, need ssa.Value, plus int64) (bool, string)

// BoundsRule checks every slice expression and constant index on []byte values in fn.
func (c *Ctx) BoundsRule(rule string, fn *ssa.Function, frozen map[string]string) int {
	f := c.Facts(fn)
	n := 0
	isBytes := func(t types.Type) bool {
		if p, ok := t.Underlying().(*types.Pointer); ok {
			t = p.Elem()
		}
		switch x := t.Underlying().(type) {
		case *types.Slice:
			b, ok := x.Elem().Underlying().(*types.Basic)
			return ok && b.Kind() == types.Uint8
		case *types.Array:
			b, ok := x.Elem().Underlying().(*types.Basic)
			return ok && b.Kind() == types.Uint8
		}
		return false
	}
	check := func(ins ssa.Instruction, base ssa.Value, need ssa.Value, plus int64, what string) {
		n++
		bt := f.tr.term(nil, base, 0)
		nt := ""
		if need != nil {
			nt = f.tr.term(nil, need, 0)
		}
		cons := fmt.Sprintf("%s: %s on %s", shortFn(fn), what, bt)
		if why, ok := frozen[what+" on "+bt]; ok {
			c.Info(rule, cons+" (frozen)", c.Position(ins.Pos()), why)
			return
		}
		states := f.At(ins)
		ok := len(states) > 0
		detail := ""
		for _, s := range states {
			if boundsAccept != nil {
				if okA, why := boundsAccept(f, s, base, need, plus); okA {
					if detail == "" {
						detail = why
					}
					continue
				}
			}
			ml := minLenOf(f, s, base, 0)
			if need == nil {
				if ml < plus {
					ok = false
					detail = fmt.Sprintf("needs len >= %d, known len >= %d; literals: %s", plus, ml, strings.Join(guardLits(s), "; "))
				}
				continue
			}
			if k, isC := constInt(resolve(s, need)); isC {
				if ml < k+plus {
					ok = false
					detail = fmt.Sprintf("needs len >= %d, known len >= %d; literals: %s", k+plus, ml, strings.Join(guardLits(s), "; "))
				}
				continue
			}
			// symbolic bound: a literal len(base) >= need (or need <= / < len(base)) must be present
			sb := f.tr.term(s, base, 0)
			sn := f.tr.term(s, need, 0)
			found := false
			for l := range s.lits {
				if plus == 0 && (l == "len("+sb+") >= "+sn || l == sn+" <= len("+sb+")") {
					found = true
				}
				if l == "len("+sb+") > "+sn || l == sn+" < len("+sb+")" {
					found = true
				}
				if plus == 0 && l == "len("+sb+") == "+sn {
					found = true
				}
			}
			// bound is the length of the same slice (X[:len(X)]) or derived from a ReadFull'd make of that size
			if sn == "len("+sb+")" {
				found = true
			}
			if !found {
				ok = false
				detail = fmt.Sprintf("needs len(%s) >= %s (+%d): no dominating length guard; literals: %s", sb, nt, plus, strings.Join(guardLits(s), "; "))
			}
		}
		c.Ob(rule, cons, c.Position(ins.Pos()), ok, detail)
	}
	for _, b := range fn.Blocks {
		for _, ins := range b.Instrs {
			switch x := ins.(type) {
			case *ssa.Slice:
				if !isBytes(x.X.Type()) {
					continue
				}
				if x.High != nil {
					check(x, x.X, x.High, 0, "slice [:"+f.tr.term(nil, x.High, 0)+"]")
				} else if x.Low != nil {
					check(x, x.X, x.Low, 0, "slice ["+f.tr.term(nil, x.Low, 0)+":]")
				}
			case *ssa.IndexAddr:
				if !isBytes(x.X.Type()) {
					continue
				}
				if _, isArr := derefArray(x.X.Type()); isArr {
					if _, isC := constInt(x.Index); isC {
						continue // constant index into an array: checked by the compiler
					}
				}
				check(x, x.X, x.Index, 1, "index ["+f.tr.term(nil, x.Index, 0)+"]")
			}
		}
	}
	return n
}
