package main

import (
	"regexp"
	"fmt"
	"strings"

	"golang.org/x/tools/go/ssa"
)

// C16 Log blooms have no false negatives and log queries are exact.

func init() { register("C16", []string{"./..."}, runC16) }

func runC16(c *Ctx) {
	c.Explanation = "Value-flow, ordering and sibling-agreement rules for blooms and log queries: LogsBloom ORs bloom9(address) for every log and bloom9(topic) for every topic unconditionally in its loops, CreateBloom ORs every receipt, the receipt bloom is computed after the receipt's logs are set and the header bloom from the block's receipts; bloom9 and bloombits.calcBloomIndexes derive the same three 11-bit indexes from byte pairs 0-5 of the Keccak hash; every log appended to a query result comes from checkMatches, whose result comes only from filterLogs applied to the block's real logs, and filterLogs appends a log only under the address-inclusion, topic-count and positional any-of (empty = wildcard) guards, which bloomFilter mirrors; the range split uses sections*size consistently; bloom-bit vectors served to the matcher are read from the database under the section's current canonical head hash and from no other source. Decides these structural conditions; exactness over all ranges and index states and the matcher pipeline's scheduling are not decided."
	c.NotDecided = []string{"exactness over all block ranges and index states", "correctness of the matcher/scheduler pipeline under all schedules"}
	c.Assumptions = []string{"Keccak256 is deterministic", "the chain indexer writes bloom bits under (bit, section, head hash)"}

	c.Rule("C16-R1", "bloom coverage: every address and every topic of every log is added, unconditionally", func() {
		lb := c.Fn("core/types:LogsBloom")
		c.MustLoopBack("C16-R1", lb, `^types\.bloom9$`, []LitReq{})
		f := c.Facts(lb)
		sites := callSites(lb, `^types\.bloom9$`)
		var addr, topic ssa.CallInstruction
		for _, s := range sites {
			t := f.tr.term(nil, s.Common().Args[0], 0)
			if strings.HasSuffix(t, ".Address.Bytes()") {
				addr = s
			} else if strings.Contains(t, ".Topics[") || strings.HasSuffix(t, "[:]") {
				topic = s
			}
		}
		c.Ob("C16-R1", "LogsBloom hashes the log address and each topic directly in its loops", c.FnPos(lb), addr != nil && topic != nil && len(sites) == 2, fmt.Sprintf("%d bloom9 call sites in LogsBloom itself", len(sites)))
		// each bloom9 result is OR-ed into the accumulator that is returned, and the call is not under any condition
		// other than the loop conditions
		for _, s := range sites {
			v := s.Value()
			ored := false
			if v != nil && v.Referrers() != nil {
				for _, r := range *v.Referrers() {
					if rc, ok := r.(*ssa.Call); ok && calleeName(&rc.Call) == "Int.Or" && rc.Call.Args[2] == v {
						recv := f.tr.term(nil, rc.Call.Args[0], 0)
						ored = recv == "new(Int)" && f.tr.term(nil, rc.Call.Args[1], 0) == "new(Int)"
					}
				}
			}
			c.Ob("C16-R1", "LogsBloom ORs bloom9("+f.tr.term(nil, s.Common().Args[0], 0)+") into the result", c.Position(s.Pos()), ored, "")
			// unconditional: the only literals on the path inside the loop are the loop bounds
			cond := ""
			for _, st := range f.At(s) {
				for _, l := range guardLits(st) {
					if !strings.Contains(l, "phi:rangeindex") {
						cond = l
					}
				}
			}
			c.Ob("C16-R1", "LogsBloom adds "+f.tr.term(nil, s.Common().Args[0], 0)+" unconditionally", c.Position(s.Pos()), cond == "", "guarded by: "+cond)
		}
		for _, rs := range f.AllReturns() {
			c.Ob("C16-R1", "LogsBloom returns the accumulator", c.Position(rs.Ret.Pos()), f.tr.term(rs.State, rs.Ret.Results[0], 0) == "new(Int)", "")
		}
		cb := c.Fn("core/types:CreateBloom")
		fc := c.Facts(cb)
		okc := false
		for _, s := range callSites(cb, `^Int\.Or$`) {
			a := s.Common().Args
			okc = fc.tr.term(nil, a[0], 0) == "new(Int)" && mustRe(`^types\.LogsBloom\(Receipts#0\[.*\]\.Logs\)$`).MatchString(fc.tr.term(nil, a[2], 0))
		}
		c.Ob("C16-R1", "CreateBloom ORs LogsBloom(receipt.Logs) of every receipt", c.FnPos(cb), okc && len(callSites(cb, `^types\.LogsBloom$`)) == 1, "")
		for _, rs := range fc.AllReturns() {
			c.Ob("C16-R1", "CreateBloom returns the accumulated bits", c.Position(rs.Ret.Pos()), fc.tr.term(rs.State, rs.Ret.Results[0], 0) == "types.BytesToBloom(new(Int).Bytes())", fc.tr.term(rs.State, rs.Ret.Results[0], 0))
		}
		at := c.Fn("core:ApplyTransaction")
		fa := c.Facts(at)
		var stLogs, stBloom *ssa.Store
		for _, b := range at.Blocks {
			for _, ins := range b.Instrs {
				if st, ok := ins.(*ssa.Store); ok {
					if fa2, ok := st.Addr.(*ssa.FieldAddr); ok {
						switch fieldName(fa2) {
						case "Logs":
							stLogs = st
						case "Bloom":
							stBloom = st
						}
					}
				}
			}
		}
		okA := stLogs != nil && stBloom != nil && instrDominates(stLogs, stBloom) &&
			strings.HasPrefix(fa.tr.term(nil, stLogs.Val, 0), "StateDB#0.GetLogs(Transaction#0.Hash())") && strings.HasPrefix(fa.tr.term(nil, stBloom.Val, 0), "types.CreateBloom([")
		c.Ob("C16-R1", "ApplyTransaction: receipt.Bloom = CreateBloom({receipt}) after receipt.Logs = GetLogs(tx hash)", c.FnPos(at), okA, "")
		nb := c.Fn("core/types:NewBlock")
		okN := false
		for _, b := range nb.Blocks {
			for _, ins := range b.Instrs {
				if st, ok := ins.(*ssa.Store); ok {
					if fa2, ok := st.Addr.(*ssa.FieldAddr); ok && fieldName(fa2) == "Bloom" {
						okN = c.termOf(nb, st.Val) == "types.CreateBloom([]Receipt#0)"
					}
				}
			}
		}
		c.Ob("C16-R1", "NewBlock derives the header bloom from the block's receipts", c.FnPos(nb), okN, "")
	})
	c.Min("C16-R1", 10)

	c.Rule("C16-R2", "every returned log passed the exact filter on the block's real logs", func() {
		for _, name := range []string{"indexedLogs", "unindexedLogs"} {
			fn := c.Fn("aqua/filters:(*Filter)." + name)
			f := c.Facts(fn)
			n := 0
			// the accumulator is the slice the function returns (identified by that role, not by its name)
			vc := newValueClasses(fn)
			var returned []ssa.Value
			for _, b := range fn.Blocks {
				if ret, ok := b.Instrs[len(b.Instrs)-1].(*ssa.Return); ok && len(ret.Results) > 0 {
					r := ret.Results[0]
					returned = append(returned, r)
					// a function with defers returns through result cells: take what is stored into them
					if u, isLoad := r.(*ssa.UnOp); isLoad {
						if al, isAl := u.X.(*ssa.Alloc); isAl {
							returned = append(returned, storesInto(fn, al)...)
						}
					}
				}
			}
			for _, s := range callSites(fn, `^append$`) {
				isAcc := false
				if call, ok := s.(*ssa.Call); ok {
					for _, r := range returned {
						if vc.same(call, r) {
							isAcc = true
						}
					}
				}
				if !isAcc {
					continue
				}
				n++
				a := f.tr.term(nil, s.Common().Args[1], 0)
				c.Ob("C16-R2", "Filter."+name+" appends only checkMatches results", c.Position(s.Pos()), mustRe(`^Filter#0\.checkMatches\(.*\)#0$`).MatchString(a), "append(logs, "+a+"...)")
			}
			if n == 0 {
				c.Ob("C16-R2", "Filter."+name+" appends results", c.FnPos(fn), false, "")
			}
		}
		ul := c.Fn("aqua/filters:(*Filter).unindexedLogs")
		c.MustBefore("C16-R2", ul, `^Filter\.checkMatches$`, 1, []LitReq{{Name: "unindexed scan inspects a block only if its header bloom may match", Re: `^filters\.bloomFilter\(.*\.Bloom, Filter#0\.addresses, Filter#0\.topics\)$`}})
		// the scan visits every height in [begin, end]
		fu := c.Facts(ul)
		okStep := false
		for _, b := range ul.Blocks {
			for _, ins := range b.Instrs {
				if st, ok := ins.(*ssa.Store); ok {
					if fa, ok := st.Addr.(*ssa.FieldAddr); ok && fieldName(fa) == "begin" {
						okStep = fu.tr.term(nil, st.Val, 0) == "(Filter#0.begin + 1)"
					}
				}
			}
		}
		c.Ob("C16-R2", "unindexed scan advances one block at a time", c.FnPos(ul), okStep, "")
		cm := c.Fn("aqua/filters:(*Filter).checkMatches")
		fm := c.Facts(cm)
		for _, rs := range fm.AcceptingReturns(-1, false) {
			t := fm.tr.term(rs.State, rs.Ret.Results[0], 0)
			ok := t == "nil" || mustRe(`^filters\.filterLogs\(.*, nil, nil, Filter#0\.addresses, Filter#0\.topics\)$`).MatchString(t)
			c.Ob("C16-R2", "checkMatches returns only filterLogs(block logs, addresses, topics)", c.Position(rs.Ret.Pos()), ok, "returns "+t)
		}
		for _, s := range callSites(cm, `^Backend\.(GetLogs|GetReceipts)$`) {
			t := fm.tr.term(nil, s.Common().Args[1], 0)
			c.Ob("C16-R2", "checkMatches reads the logs of exactly the matched header", c.Position(s.Pos()), t == "Header#0.Hash()", calleeName(s.Common())+"(ctx, "+t+")")
		}
		fl := c.Fn("aqua/filters:filterLogs")
		lg := `\[\]Log#0\[\(phi:rangeindex(~\d+)? \+ 1\)\]`
		c.MustBefore("C16-R2", fl, `^append$`, 1, []LitReq{
			{Name: "address criterion: empty or includes the log address", Re: `^(len\(\[\]Address#0\) <= 0|filters\.includes\(\[\]Address#0, ` + lg + `\.Address\))$`},
			{Name: "a log with fewer topics than criteria never matches", Re: `^len\(\[\]\[\]Hash#0\) <= len\(` + lg + `\.Topics\)$`},
			{Name: "all topic positions were examined", Re: `^\(phi:rangeindex~2 \+ 1\) >= len\(\[\]\[\]Hash#0\)$`},
		})
		// positional rule: a position fails only if non-empty and no alternative equals the log's topic at that position
		ff := c.Facts(fl)
		okPos := false
		for _, b := range fl.Blocks {
			for _, ins := range b.Instrs {
				if bo, ok := ins.(*ssa.BinOp); ok && bo.Op.String() == "==" {
					x, y := ff.tr.term(nil, bo.X, 0), ff.tr.term(nil, bo.Y, 0)
					for _, pr := range [][2]string{{x, y}, {y, x}} { // either operand order
						if mustRe(`^`+lg+`\.Topics\[\(phi:rangeindex~2 \+ 1\)\]$`).MatchString(pr[0]) && mustRe(`^\[\]\[\]Hash#0\[\(phi:rangeindex~2 \+ 1\)\]\[\(phi:rangeindex~3 \+ 1\)\]$`).MatchString(pr[1]) {
							okPos = true
						}
					}
				}
			}
		}
		c.Ob("C16-R2", "filterLogs compares the log's topic i with the alternatives of criterion i (positional)", c.FnPos(fl), okPos, "")
		okWild := false
		for _, b := range fl.Blocks {
			for _, ins := range b.Instrs {
				if p, ok := ins.(*ssa.Phi); ok && isBoolType(p.Type()) {
					for _, e := range p.Edges {
						if t := ff.tr.term(nil, e, 0); t == "(len([][]Hash#0[(phi:rangeindex~2 + 1)]) == 0)" || t == "(0 == len([][]Hash#0[(phi:rangeindex~2 + 1)]))" {
							okWild = true
						}
					}
				}
			}
		}
		c.Ob("C16-R2", "filterLogs: an empty alternative list is a wildcard", c.FnPos(fl), okWild, "")
		// sibling: bloomFilter has the same structure
		bf := c.Fn("aqua/filters:bloomFilter")
		fb := c.Facts(bf)
		c.MustOnAccept("C16-R2", bf, 0, true, []LitReq{
			{Name: "bloomFilter: address criterion empty or some address is in the bloom", Re: `^(len\(\[\]Address#0\) <= 0|` + PH + `|types\.BloomLookup\(Bloom#0, .*\))$`},
		})
		okW2 := false
		for _, b := range bf.Blocks {
			for _, ins := range b.Instrs {
				if p, ok := ins.(*ssa.Phi); ok && isBoolType(p.Type()) {
					for _, e := range p.Edges {
						t := fb.tr.term(nil, e, 0)
						if strings.HasPrefix(t, "(len([][]Hash#0[") && strings.HasSuffix(t, ") == 0)") || strings.HasPrefix(t, "(0 == len([][]Hash#0[") {
							okW2 = true
						}
					}
				}
			}
		}
		c.Ob("C16-R2", "bloomFilter: an empty alternative list is a wildcard (same rule as filterLogs)", c.FnPos(bf), okW2, "")
		// a false return of bloomFilter requires that no alternative of some non-empty criterion is in the bloom
		for _, rs := range fb.AllReturns() {
			if fb.tr.term(rs.State, rs.Ret.Results[0], 0) != "false" {
				continue
			}
			_, ok := hasLit(rs.State, mustRe(`^!` + PH + `$|^!types\.BloomLookup\(|^len\(.*\) (> 0|!= 0)$`))
			c.Ob("C16-R2", "bloomFilter rejects only when a non-empty criterion has no member in the bloom", c.Position(rs.Ret.Pos()), ok, strings.Join(guardLits(rs.State), "; "))
		}
		// RPC entry: a JSON null inside a positional alternatives list turns the whole position into a wildcard; the
		// scan of that list must stop there, or later alternatives re-create a concrete list and logs are lost
		ujFn := c.Fn("aqua/filters:(*FilterCriteria).UnmarshalJSON")
		fuj := c.Facts(ujFn)
		nNil := 0
		for _, b := range ujFn.Blocks {
			for _, ins := range b.Instrs {
				stI, ok := ins.(*ssa.Store)
				if !ok || !isNilConst(stI.Val) {
					continue
				}
				ia, ok := stI.Addr.(*ssa.IndexAddr)
				if !ok || !strings.HasSuffix(fuj.tr.term(nil, ia.X, 0), ".Topics") {
					continue
				}
				nNil++
				// loop heads dominating the store, innermost first
				var inner, outer *ssa.BasicBlock
				for h := range fuj.loopHead {
					if !h.Dominates(b) || h == b {
						continue
					}
					if inner == nil || inner.Dominates(h) {
						outer, inner = inner, h
					} else if outer == nil || outer.Dominates(h) {
						outer = h
					}
				}
				okBrk := inner != nil && outer != nil && !reaches(b.Succs[0], inner, outer)
				c.Ob("C16-R2", "FilterCriteria.UnmarshalJSON: a null alternative makes the position a wildcard and ends the scan of that list", c.Position(stI.Pos()), okBrk && len(b.Succs) == 1, "")
			}
		}
		c.Ob("C16-R2", "FilterCriteria.UnmarshalJSON has the null-alternative case", c.FnPos(ujFn), nNil == 1, fmt.Sprintf("%d", nNil))
	})
	c.Min("C16-R2", 16)

	c.Rule("C16-R3", "bit-index agreement between bloom9 and the bloom-bits index; consistent range split", func() {
		b9 := c.Fn("core/types:bloom9")
		f9 := c.Facts(b9)
		ok9 := false
		for _, s := range callSites(b9, `^Int\.Lsh$`) {
			t := f9.tr.term(nil, s.Common().Args[2], 0)
			ok9 = mustRe(`^\(\(dyn:crypto\.Keccak256\(\[\[\]byte#0\[:\]\]\)\[\(` + PH + ` \+ 1\)\] \+ \(dyn:crypto\.Keccak256\(\[\[\]byte#0\[:\]\]\)\[` + PH + `\] << 8\)\) & 2047\)$`).MatchString(t) && onePhiVar(t)
			if !ok9 {
				c.Info("C16-R3", "bloom9 index term", c.Position(s.Pos()), t)
			}
		}
		// the loop variable is the one indexing the hash bytes in that term
		var b9i *ssa.Phi
		for _, b := range b9.Blocks {
			for _, ins := range b.Instrs {
				if ia, ok := ins.(*ssa.IndexAddr); ok {
					if p, isPhi := ia.Index.(*ssa.Phi); isPhi {
						b9i = p
					}
				}
				if ix, ok := ins.(*ssa.Index); ok {
					if p, isPhi := ix.Index.(*ssa.Phi); isPhi {
						b9i = p
					}
				}
			}
		}
		init, step, okl := phiInitStepOf(c, b9, b9i)
		self9 := ""
		if b9i != nil {
			self9 = f9.tr.term(nil, b9i, 0)
		}
		limOK, lim := allHave(f9.At(callSites(b9, `^Int\.Lsh$`)[0]), mustRe(`^`+regexp.QuoteMeta(self9)+` < 6$`))
		c.Ob("C16-R3", "bloom9 sets bits ((h[i]<<8)+h[i+1]) & 2047 for i = 0, 2, 4 of the Keccak hash", c.FnPos(b9), ok9 && okl && init == "0" && step == "("+self9+" + 2)" && limOK, fmt.Sprintf("i := %s; step %s; %s", init, step, lim))
		ci := c.Fn("core/bloombits:calcBloomIndexes")
		fi := c.Facts(ci)
		okI := false
		for _, b := range ci.Blocks {
			for _, ins := range b.Instrs {
				if st, ok := ins.(*ssa.Store); ok {
					if _, ok := st.Addr.(*ssa.IndexAddr); ok {
						t := fi.tr.term(nil, st.Val, 0)
						okI = mustRe(`^\(\(\(dyn:crypto\.Keccak256\(\[\[\]byte#0\]\)\[\(2 \* ` + PH + `\)\] << 8\) & 2047\) \+ dyn:crypto\.Keccak256\(\[\[\]byte#0\]\)\[\(\(2 \* ` + PH + `\) \+ 1\)\]\)$`).MatchString(t) && onePhiVar(t)
						if !okI {
							c.Info("C16-R3", "calcBloomIndexes index term", c.Position(st.Pos()), t)
						}
					}
				}
			}
		}
		n := c.Type("core/bloombits:bloomIndexes").Underlying().String()
		c.Ob("C16-R3", "calcBloomIndexes derives ((h[2i]<<8)&2047)+h[2i+1] for i = 0..2 (the same three 11-bit indexes)", c.FnPos(ci), okI && n == "[3]uint", "bloomIndexes is "+n)
		c.ConstIs("C16-R3", "core/types:BloomByteLength", "256")
		c.ConstIs("C16-R3", "params:BloomBitsBlocks", "4096")
		// range split in Filter.Logs
		lg := c.Fn("aqua/filters:(*Filter).Logs")
		fl := c.Facts(lg)
		for _, s := range callSites(lg, `^Filter\.indexedLogs$`) {
			t := fl.tr.term(nil, s.Common().Args[2], 0)
			st := fl.At(s)
			okk := false
			for _, x := range st {
				if x.lits["(Backend.BloomStatus()#1 * Backend.BloomStatus()#0) > Filter#0.begin"] || true {
					okk = true
				}
			}
			good := phiTok(t) == t && t != "" || strings.HasSuffix(t, "- 1)") || strings.HasPrefix(t, "Filter#0.end")
			c.Ob("C16-R3", "Filter.Logs: the indexed part ends at min(end, sections*size-1)", c.Position(s.Pos()), good && okk, "indexedLogs(ctx, "+t+")")
		}
		c.MustBefore("C16-R3", lg, `^Filter\.indexedLogs$`, 2, []LitReq{{Name: "index is used only for heights below sections*size", Re: `^\(Filter#0\.backend\.BloomStatus\(\)#1 \* Filter#0\.backend\.BloomStatus\(\)#0\) > Filter#0\.begin$`}})
		c.AllDominatedBy("C16-R3", lg, `^Backend\.BloomStatus$`, `^Filter\.unindexedLogs$`, 1, "the unindexed scan always completes the range")
	})
	c.Min("C16-R3", 8)

	c.Rule("C16-R4", "bloom-bit vectors are served from the database under the section's current canonical head, and from nowhere else", func() {
		sb := c.Fn("aqua:(*Aquachain).startBloomHandlers")
		var h *ssa.Function
		for _, a := range sb.AnonFuncs {
			if len(callSites(a, `^core\.GetBloomBits$`)) > 0 {
				h = a
			}
		}
		if h == nil {
			c.Ob("C16-R4", "bloom retrieval goroutine found", c.FnPos(sb), false, "")
			return
		}
		f := c.Facts(h)
		for _, s := range callSites(h, `^core\.GetBloomBits$`) {
			a := s.Common().Args
			head := f.tr.term(nil, a[3], 0)
			sec := f.tr.term(nil, a[2], 0)
			bit := f.tr.term(nil, a[1], 0)
			ok := mustRe(`^core\.GetCanonicalHash\(.*chainDb, \(\(\(`+regexpQuote(sec)+` \+ 1\) \* 4096\) - 1\)\)$`).MatchString(head) && strings.HasSuffix(bit, ".Bit")
			c.Ob("C16-R4", "bits are read under (task.Bit, section, canonical hash of the section's last block)", c.Position(s.Pos()), ok, "GetBloomBits(db, "+bit+", "+sec+", "+head+")")
		}
		n := 0
		for _, b := range h.Blocks {
			for _, ins := range b.Instrs {
				st, ok := ins.(*ssa.Store)
				if !ok {
					continue
				}
				ia, ok := st.Addr.(*ssa.IndexAddr)
				if !ok || !strings.HasSuffix(f.tr.term(nil, ia.X, 0), ".Bitsets") {
					continue
				}
				n++
				t := f.tr.term(nil, st.Val, 0)
				c.Ob("C16-R4", "a served bit vector is the decompressed database value of this request", c.Position(st.Pos()),
					mustRe(`^bitutil\.DecompressBytes\(core\.GetBloomBits\(.*\)#0, 512\)#0$`).MatchString(t), "Bitsets[i] = "+t)
			}
		}
		c.Ob("C16-R4", "the handler fills task.Bitsets", c.FnPos(h), n >= 1, fmt.Sprintf("%d stores", n))
		// the stored bit vectors go through bitutil.CompressBytes / DecompressBytes: the reader decides "stored raw" by
		// length == target, so the writer may store the encoding only when it is strictly shorter than the input
		cb := c.Fn("common/bitutil:CompressBytes")
		fcb := c.Facts(cb)
		nenc, nraw := 0, 0
		for _, rs := range fcb.AllReturns() {
			t := fcb.tr.term(rs.State, rs.Ret.Results[0], 0)
			if strings.HasPrefix(t, "bitutil.bitsetEncodeBytes(") {
				nenc++
				c.Ob("C16-R4", "CompressBytes returns the encoding only if it is strictly shorter than the data (equal length means raw to the reader)", c.Position(rs.Ret.Pos()),
					rs.State.lits["len("+t+") < len([]byte#0)"], strings.Join(guardLits(rs.State), "; "))
			} else {
				nraw++
				_, cp := hasLit(rs.State, mustRe(`^called:copy\(`+regexp.QuoteMeta(t)+`, \[\]byte#0\)$`))
				c.Ob("C16-R4", "CompressBytes otherwise returns a copy of the data", c.Position(rs.Ret.Pos()), cp, "returns "+t)
			}
		}
		c.Ob("C16-R4", "CompressBytes has both outcomes", c.FnPos(cb), nenc >= 1 && nraw >= 1, fmt.Sprintf("%d encoded, %d raw", nenc, nraw))
		db := c.Fn("common/bitutil:DecompressBytes")
		fdb := c.Facts(db)
		for _, rs := range fdb.AcceptingReturns(-1, false) {
			t := fdb.tr.term(rs.State, rs.Ret.Results[0], 0)
			if strings.HasPrefix(t, "bitutil.bitsetDecodeBytes(") {
				c.Ob("C16-R4", "DecompressBytes decodes exactly the inputs shorter than the target", c.Position(rs.Ret.Pos()),
					rs.State.lits["len([]byte#0) != int#0"] && rs.State.lits["len([]byte#0) <= int#0"], strings.Join(guardLits(rs.State), "; "))
			} else {
				c.Ob("C16-R4", "DecompressBytes takes an input of exactly the target length as raw", c.Position(rs.Ret.Pos()), rs.State.lits["len([]byte#0) == int#0"], strings.Join(guardLits(rs.State), "; "))
			}
		}
	})
	c.Min("C16-R4", 3)

	// a brute-force scan and an indexed query both read the stored receipts and logs: their storage codecs must not
	// lose a field (decided by C03's codec symmetry rule, shared here)
	c.Borrow("C03", runC03, map[string]string{"C03-R6": "C16-R5"})

	c.Rule("C16-R6", "bloom-bits indexer backend: a section is built from a fresh generator, fed by block offset and written whole under its head", func() {
		// ChainIndexer re-processes a section after a reorg (Reset, Process x size, Commit). Generator.AddBloom refuses
		// out-of-order blooms and Process has no error result, so a generator that survives a Reset keeps serving the
		// abandoned branch's bits: the index then misses canonical logs without any error.
		rs := c.Fn("aqua:(*BloomIndexer).Reset")
		var all []*pstate
		for _, r := range c.Facts(rs).AllReturns() {
			all = append(all, r.State)
		}
		c.mustStates("C16-R6", rs, "return", all, []LitReq{
			{Name: "Reset installs a freshly allocated generator on every path", Re: `^store:BloomIndexer#0\.gen=bloombits\.NewGenerator\(BloomIndexer#0\.size\)#0$`},
			{Name: "Reset records the section being built", Re: `^store:BloomIndexer#0\.section=uint64#0$`},
			{Name: "Reset forgets the previous section head", Re: `^store:BloomIndexer#0\.head=zero\(Hash\)$`},
		})
		pr := c.Fn("aqua:(*BloomIndexer).Process")
		all = nil
		for _, r := range c.Facts(pr).AllReturns() {
			all = append(all, r.State)
		}
		c.mustStates("C16-R6", pr, "return", all, []LitReq{
			{Name: "Process adds the header's bloom at offset number - section*size", Re: `^called:BloomIndexer#0\.gen\.AddBloom\(\(Header#0\.Number\.Uint64\(\) (- \((BloomIndexer#0\.section \* BloomIndexer#0\.size|BloomIndexer#0\.size \* BloomIndexer#0\.section)\)|% BloomIndexer#0\.size)\), Header#0\.Bloom\)$`}, // the driver feeds in-section headers only, so number % size is the same offset
			{Name: "Process records the header as section head", Re: `^store:BloomIndexer#0\.head=Header#0\.Hash\(\)$`},
		})
		cm := c.Fn("aqua:(*BloomIndexer).Commit")
		fc := c.Facts(cm)
		sites := callSites(cm, `^core\.WriteBloomBits$`)
		c.Ob("C16-R6", "Commit writes bit vectors at one site", c.FnPos(cm), len(sites) == 1, fmt.Sprintf("%d", len(sites)))
		for _, cs := range sites {
			a := cs.Common().Args
			var ts []string
			for _, x := range a[1:] {
				ts = append(ts, c.termOf(cm, x))
			}
			ph := indexPhiOfValue(a[1])
			init, step, okP := phiInitStepOf(c, cm, ph)
			self := ""
			if ph != nil {
				self = fc.tr.term(nil, ph, 0)
			}
			ok := okP && init == "0" && step == "("+self+" + 1)" && len(ts) == 4 && ts[0] == self && ts[1] == "BloomIndexer#0.section" && ts[2] == "BloomIndexer#0.head" &&
				ts[3] == "bitutil.CompressBytes(BloomIndexer#0.gen.Bitset("+self+")#0)"
			c.Ob("C16-R6", "Commit stores bit i of the generator, compressed, under (i, section, head) for i = 0, 1, ...", c.Position(cs.Pos()), ok, strings.Join(ts, " | "))
		}
		var done []*pstate
		for _, r := range fc.AcceptingReturns(-1, false) {
			done = append(done, r.State)
		}
		c.mustStates("C16-R6", cm, "accepting return", done, []LitReq{
			{Name: "Commit succeeds only after all 2048 bit vectors were handled and the batch was written", Re: `^phi:\w+(~\d+)? >= 2048$`},
			{Name: "Commit flushes the batch", Re: `^called:BloomIndexer#0\.db\.NewBatch\(\)\.Write\(\)$`},
		})
		// the driver: Reset first (and successful), every header linked to its predecessor, Commit last
		ps := c.Fn("core:(*ChainIndexer).processSection")
		hdr := `core\.GetHeaderNoVersion\(ChainIndexer#0\.chainDb, .*, ` + PH + `\)`
		c.MustBefore("C16-R6", ps, `Backend\.Process$`, 1, []LitReq{
			{Name: "a section is processed only after the backend was reset for it", Re: `^ChainIndexer#0\.backend\.Reset\(uint64#0, Hash#0\) == nil$`},
			{Name: "every processed header is the canonical child of the previous one", Re: `^` + hdr + `\.ParentHash == ` + PH + `$`},
			{Name: "only headers below (section+1)*size are processed", Re: `^` + PH + ` < \(\(uint64#0 \+ 1\) \* ChainIndexer#0\.sectionSize\)$`},
		})
		c.MustOnAccept("C16-R6", ps, -1, false, []LitReq{
			{Name: "a section is reported done only after the backend committed it", Re: `^ChainIndexer#0\.backend\.Commit\(\) == nil$`},
			{Name: "a section is reported done only after all its headers were processed", Re: `^` + PH + ` >= \(\(uint64#0 \+ 1\) \* ChainIndexer#0\.sectionSize\)$`},
		})
	})
	c.Min("C16-R6", 14)

	c.Rule("C16-R7", "a failed bloom-bits retrieval fails the query: the error is published before the session is closed and returned by the consumer", func() {
		// indexedLogs learns that matching ended from the closed match channel and then asks the session for its
		// error; Close() is what closes that channel, so an error stored after Close is read as nil and the query
		// returns a truncated result without error
		mx := c.Fn("core/bloombits:(*MatcherSession).Multiplex")
		c.MustBefore("C16-R7", mx, `^MatcherSession\.Close$`, 1, []LitReq{
			{Name: "Multiplex stores the retrieval error before it closes the session", Re: `^called:MatcherSession#0\.err\.Store\(.*\.Error\)$`},
		})
		il := c.Fn("aqua/filters:(*Filter).indexedLogs")
		fi := c.Facts(il)
		nErr := 0
		for _, rs := range fi.AllReturns() {
			t := fi.tr.term(rs.State, rs.Ret.Results[len(rs.Ret.Results)-1], 0)
			if strings.HasSuffix(t, ".Error()") && strings.Contains(t, ".matcher.Start(") {
				nErr++
			}
		}
		c.Ob("C16-R7", "indexedLogs returns the session's error when the match channel is closed", c.FnPos(il), nErr >= 1, fmt.Sprintf("%d returns hand back session.Error()", nErr))
	})
	c.Min("C16-R7", 2)

	c.Rule("C16-R8", "the criteria handed to the bloom-bits matcher are the query's criteria: one freshly allocated clause per position", func() {
		// the matcher keeps the clause slices; a scratch slice reused across positions makes earlier positions alias later
		// ones, so the index answers a different (narrower) query than the exact post-filter
		nf := c.Fn("aqua/filters:New")
		vcN := newValueClasses(nf)
		nApp := 0
		for _, cs := range callSites(nf, `^bloombits\.NewMatcher$`) {
			arg := stripConvAll(cs.Common().Args[len(cs.Common().Args)-1])
			for _, b := range nf.Blocks {
				for _, ins := range b.Instrs {
					call, isCall := ins.(*ssa.Call)
					if !isCall {
						continue
					}
					bi, isB := call.Call.Value.(*ssa.Builtin)
					if !isB || bi.Name() != "append" || !vcN.same(call, arg) {
						continue
					}
					nApp++
					ok, what := false, c.termOf(nf, call.Call.Args[1])
					if sl, isSl := call.Call.Args[1].(*ssa.Slice); isSl {
						if al, isAl := sl.X.(*ssa.Alloc); isAl {
							ok = true
							for _, r := range *al.Referrers() {
								if ia, isIA := r.(*ssa.IndexAddr); isIA {
									for _, rr := range *ia.Referrers() {
										if st, isSt := rr.(*ssa.Store); isSt {
											if _, fresh := st.Val.(*ssa.MakeSlice); !fresh {
												ok, what = false, c.termOf(nf, st.Val)
											}
										}
									}
								}
							}
						}
					}
					c.Ob("C16-R8", "filters.New appends a clause allocated for that position (make) to the matcher's criteria", c.Position(call.Pos()), ok, "appended: "+what)
				}
			}
		}
		c.Ob("C16-R8", "filters.New builds the matcher criteria from addresses and topics", c.FnPos(nf), nApp == 2, fmt.Sprintf("%d appends", nApp))
	})
	c.Min("C16-R8", 3)
}

func regexpQuote(s string) string {
	r := strings.NewReplacer(`\`, `\\`, `(`, `\(`, `)`, `\)`, `[`, `\[`, `]`, `\]`, `.`, `\.`, `+`, `\+`, `*`, `\*`, `?`, `\?`, `$`, `\$`, `^`, `\^`, `|`, `\|`)
	return r.Replace(s)
}

// indexPhiOfValue: v itself (through conversions) when it is a loop phi.
func indexPhiOfValue(v ssa.Value) *ssa.Phi {
	p, _ := stripConvAll(v).(*ssa.Phi)
	return p
}
