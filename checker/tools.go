//go:build tools

package main

import (
	_ "golang.org/x/tools/go/ast/astutil"
	_ "golang.org/x/tools/go/ast/inspector"
	_ "golang.org/x/tools/go/callgraph/cha"
	_ "golang.org/x/tools/go/callgraph/vta"
	_ "golang.org/x/tools/go/cfg"
	_ "golang.org/x/tools/go/packages"
	_ "golang.org/x/tools/go/ssa"
	_ "golang.org/x/tools/go/ssa/ssautil"
	_ "golang.org/x/tools/go/types/typeutil"
)
