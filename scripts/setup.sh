#!/bin/bash
# Builds the checker from /verif/checker (vendored x/tools v0.50.0) with go1.26.8, offline.
set -euo pipefail
cd "$(dirname "$0")/.."
. scripts/env.sh
mkdir -p bin evidence
(cd checker && GOFLAGS=-mod=vendor go build -o ../bin/verif-check .)
# warm the build cache for `go list -export` over /repo (speeds up the first check; optional)
(cd "$VERIF_REPO" && go build ./... >/dev/null 2>&1) || true
echo "setup ok: $(bin/verif-check list)"
