# Sourced by every registered command. Pins the toolchain used both to build the checker and
# (through go/packages -> `go list`) to load /repo.
export PATH=/opt/veriftools/go1.26.8/bin:$PATH
export GOTOOLCHAIN=local GOPROXY=off GOSUMDB=off GOFLAGS=-mod=mod
export CARGO_NET_OFFLINE=true PIP_NO_INDEX=1
unset GOWORK
export VERIF_ROOT=${VERIF_ROOT:-/verif}
export VERIF_REPO=${VERIF_REPO:-/repo}
