#!/bin/bash
# validates MANIFEST.json and every evidence file against the harness schemas
cd "$(dirname "$0")/.."
python3-vt - <<'PY'
import json,glob,jsonschema,sys
jsonschema.validate(json.load(open('MANIFEST.json')), json.load(open('/root/.vp/MANIFEST.schema.json')))
es=json.load(open('/root/.vp/EVIDENCE.schema.json'))
for f in sorted(glob.glob('evidence/C*.json')):
    jsonschema.validate(json.load(open(f)), es)
print('manifest + %d evidence files valid' % len(glob.glob('evidence/C*.json')))
PY
