#!/bin/bash
# check.sh <ID> <quick|thorough>   |   check.sh --replay <file>
set -uo pipefail
cd "$(dirname "$0")/.."
. scripts/env.sh
if [ ! -x bin/verif-check ] || [ -n "$(find checker -name '*.go' -newer bin/verif-check -not -path '*/vendor/*' 2>/dev/null | head -1)" ]; then
  (cd checker && GOFLAGS=-mod=vendor go build -o ../bin/verif-check .) || { echo "checker build failed"; exit 2; }
fi
exec bin/verif-check "$@"
