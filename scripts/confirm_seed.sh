#!/bin/bash
# confirm_seed.sh <seed-id> <property> <diff> <demo_test.go> <demo-pkg-dir> "<packages to run existing tests on>" "<needs>"
# Confirms a seeded breaking change in a scratch worktree of /repo (removed afterwards) and stores it under /verif/seeded/<seed-id>/.
set -uo pipefail
SID=$1; PROP=$2; DIFF=$3; DEMO=$4; PKGDIR=$5; PKGS=$6; NEEDS=$7
export GOFLAGS=-mod=mod GOPROXY=off
WT=/tmp/confirm_$SID
rm -rf $WT; git -C /repo worktree add -q --detach $WT HEAD || exit 2
OUT=/verif/seeded/$SID; mkdir -p $OUT
cp $DIFF $OUT/patch.diff; cp $DEMO $OUT/demo_test.go.txt
cd $WT
res() { echo "$1" >> $OUT/confirm.log; }
: > $OUT/confirm.log
cp $DEMO $PKGDIR/zz_seed_demo_test.go
go test -vet=off -count=1 -run 'Seed|Demo|ZZ' ./$PKGDIR > $OUT/demo_without.log 2>&1; W=$?
res "demo without change: exit $W"
git apply $OUT/patch.diff || { res "patch does not apply"; cd /; git -C /repo worktree remove --force $WT; exit 3; }
go build ./... > $OUT/build.log 2>&1; B=$?
res "build with change: exit $B"
go test -vet=off -count=1 -run 'Seed|Demo|ZZ' ./$PKGDIR > $OUT/demo_with.log 2>&1; D=$?
res "demo with change: exit $D"
rm -f $PKGDIR/zz_seed_demo_test.go
go test -vet=off -count=1 -timeout 25m $PKGS > $OUT/suite_with.log 2>&1; S=$?
res "existing tests ($PKGS) with change: exit $S"
cd /; git -C /repo worktree remove --force $WT
OK=false; if [ $W = 0 ] && [ $B = 0 ] && [ $D != 0 ] && [ $S = 0 ]; then OK=true; fi
python3 - <<PY
import json
json.dump({"seed":"$SID","property":"$PROP","needs_to_manifest":"""$NEEDS""","confirmed":"$OK"=="true",
 "ran":{"demo_without_change_exit":$W,"build_with_change_exit":$B,"demo_with_change_exit":$D,"existing_tests_with_change_exit":$S,"packages":"$PKGS"}},
 open("$OUT/meta.json","w"),indent=1)
PY
echo "$SID confirmed=$OK (demo without=$W build=$B demo with=$D suite=$S)"
