#!/usr/bin/env python3
"""Regenerates /verif/MANIFEST.json from the table below (run after adding/removing a claimed property)."""
import json, os, sys
ROOT = os.path.dirname(os.path.dirname(os.path.abspath(__file__)))
props = {}
for line in open(os.path.join(ROOT, "properties.jsonl")):
    p = json.loads(line); props[p["id"]] = p

# id -> (technique, what the check decides, trusted base / assumptions)
CLAIMED = json.load(open(os.path.join(ROOT, "scripts", "claims.json")))

checks, na = [], []
for pid in sorted(props):
    if pid in CLAIMED and not CLAIMED[pid].get("not_applicable"):
        cl = CLAIMED[pid]
        checks.append({
            "property_id": pid,
            "quick_cmd": f"scripts/check.sh {pid} quick",
            "thorough_cmd": f"scripts/check.sh {pid} thorough",
            "evidence_file": f"evidence/{pid}.json",
            "replay_cmd_template": "scripts/check.sh --replay {path}",
            "engine": "verif-check",
            "level_claimed": {"category": "other", "text": cl["text"], "design_ref": f"DESIGN.md section 2, {pid}"},
            "level_note": cl["note"],
            "technique": cl["technique"],
        })
    else:
        reason = CLAIMED.get(pid, {}).get("reason", "static check for this property is not built yet; no claim is made")
        na.append({"property_id": pid, "reason": reason})
m = {
    "version": 1,
    "setup_cmd": "scripts/setup.sh",
    "hooks": {"guard": "verif", "enable": "none needed: the checks are static analyses of /repo's working tree and execute no aquachain code; no hook commits exist",
              "baseline_off_cmd": json.load(open("/root/.vp/BASELINE.json"))["cmd"] if os.path.exists("/root/.vp/BASELINE.json") else "go test ./...",
              "source_commits": [], "add_only": True},
    "engines": [{"name": "verif-check", "path": "checker/", "serves_properties": [c["property_id"] for c in checks],
                 "kind_free_text": "repository-specific static analyser (go/packages + go/ssa + VTA/CHA call graph, x/tools v0.50.0, go1.26.8): path-sensitive must-guard dataflow, lock-set pairing, call-graph effect/who-may-call rules, table/sibling agreement"}],
    "checks": checks,
    "not_applicable": na,
    "notes": "All claims are at level 'other': each check decides named structural clauses (necessary conditions) of its property over every path of the current source, not the runtime behaviour. See DESIGN.md. Known findings: known_findings.json.",
}
json.dump(m, open(os.path.join(ROOT, "MANIFEST.json"), "w"), indent=1)
print("claimed:", [c["property_id"] for c in checks], "not_applicable:", len(na))
