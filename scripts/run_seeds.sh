#!/bin/bash
# Development / regression aid (not a registered check): apply every confirmed seeded change under
# /verif/seeded/<seed>/patch.diff to /repo's working tree, run the property's quick check, record which rules
# report it in seeded/<seed>/caught.json, and undo the change straight afterwards.  Never commits anything in /repo.
# usage: run_seeds.sh [seed-id ...]
set -u
cd "$(dirname "$0")/.."
. scripts/env.sh
REPO=${VERIF_REPO:-/repo}
if [ -n "$(git -C "$REPO" status --porcelain)" ]; then echo "run_seeds: $REPO working tree is not clean" >&2; exit 2; fi
seeds=("$@"); [ ${#seeds[@]} -eq 0 ] && seeds=($(ls seeded))
miss=0
for s in "${seeds[@]}"; do
  d=seeded/$s; [ -f "$d/patch.diff" ] || continue
  prop=${s%%-*}
  if ! git -C "$REPO" apply "$PWD/$d/patch.diff" 2>/dev/null; then echo "$s: patch does not apply (tree changed)"; continue; fi
  out=$(VERIF_NO_EVIDENCE=1 VERIF_REPLAY_DIR=$(mktemp -d) scripts/check.sh "$prop" quick 2>&1); rc=$?
  git -C "$REPO" checkout -- . ; git -C "$REPO" clean -fdq -- . 2>/dev/null
  rules=$(printf '%s\n' "$out" | grep -o 'VIOLATION C[0-9]*-R[0-9a-z]*' | awk '{print $2}' | sort -u | tr '\n' ' ')
  und=$(printf '%s\n' "$out" | grep -c '^  UNDECIDED')
  printf '{"seed":"%s","property":"%s","check_exit":%d,"rules_reporting":"%s","undecided":%d}\n' "$s" "$prop" "$rc" "${rules% }" "$und" > "$d/caught.json"
  if [ "$rc" -ne 1 ]; then miss=$((miss+1)); echo "$s: MISSED (exit $rc)"; else echo "$s: caught by ${rules}${und:+(undecided $und)}"; fi
done
echo "missed: $miss"
exit 0
